"""debug driver for the axes engine: python tools/axes_debug.py [-v] [Class.method ...]"""
import sys
sys.path.insert(0, '/verif')
from sa.model import Model
from sa.engines import axes
from sa.props import _axes_schema as S

verbose = '-v' in sys.argv
want = [a for a in sys.argv[1:] if not a.startswith('-')]
m = Model(form='normal')
eng = axes.Engine(m, S.schema(), debug=verbose)
for mod, cls, meth in S.VM_METHODS + S.STAR_METHODS:
    if want and ('%s.%s' % (cls, meth)) not in want:
        continue
    if verbose: print('==', cls, meth)
    eng.run_method(mod, cls, meth)
per = {}
for (rule, rel, qual, construct), (ok, msg, node, mod) in sorted(eng.results.items(), key=lambda kv: (kv[0][1], kv[1][2].lineno)):
    per.setdefault(qual, [0, 0])[0 if ok else 1] += 1
    if not ok or '-a' in sys.argv:
        print('%s %s:%d %s [%s] %s\n      %s' % ('ok ' if ok else 'BAD', rel, node.lineno, qual, rule, construct[:100], msg))
for q, (a, b) in per.items():
    print('%-55s ok=%d bad=%d' % (q, a, b))
print('total', sum(a for a, b in per.values()), 'bad', sum(b for a, b in per.values()))
