#!/bin/sh
# usage: tools/axes_seed.sh <patch> [axes_debug args]  -- run the axes debug driver on a scratch copy with the patch applied
P=$(realpath "$1"); shift
D=/tmp/cw/ax$$
mkdir -p /tmp/cw
git -C /repo worktree add -q --detach $D HEAD || exit 2
( cd $D && git apply "$P" ) || { git -C /repo worktree remove --force $D; echo "patch does not apply"; exit 2; }
ONSAGER_REPO=$D /venv/bin/python /verif/tools/axes_debug.py "$@"
git -C /repo worktree remove --force $D
