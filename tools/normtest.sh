#!/bin/sh
# development-time validation of sa/engines/norm.py (NOT a registered check: it runs the repository's test suite):
# the normal form of a tree must pass exactly the tests the tree itself passes.   usage: tools/normtest.sh <tree> [label]
T=$1; L=${2:-$(basename $T)}
D=/tmp/cw/nt_$L
rm -rf $D; mkdir -p $D; cp -r $T/onsager $T/test $D/; [ -f $T/setup.py ] && cp $T/setup.py $D/
cd $D && /venv/bin/python - <<'PY'
import sys,ast,glob,warnings
warnings.filterwarnings('ignore')
sys.path.insert(0,'/verif')
from sa.engines import norm
for f in sorted(glob.glob('onsager/*.py')):
    src=open(f).read()
    n=norm.normalize_module(ast.parse(src))
    open(f,'w').write(ast.unparse(n)+'\n')
PY
cd $D && timeout 3000 /venv/bin/python -m pytest -q -p no:cacheprovider -n 6 test > $D.log 2>&1
echo "$L: $(tail -1 $D.log)"
rm -rf $D
