"""shared rules for C16 / C17 (PowerExpansion.py)."""
import ast

from ..model import AnalysisError, dotted, unparse, walk_local
from ..engines import alias, flow, dimgen, parity, pattern
from ..engines.linform import canon


def three_d_specific(fn):
    """reasons why a Taylor3D method is specific to three dimensions (empty list = generic)."""
    why = []
    for n in walk_local(fn):
        if isinstance(n, ast.Subscript) and isinstance(n.value, ast.Attribute) and n.value.attr == 'pow2ind':
            sl = n.slice
            if isinstance(sl, ast.Tuple) and len(sl.elts) == 3:
                why.append('3-index pow2ind[%s]' % unparse(sl))
        if isinstance(n, ast.Subscript) and isinstance(n.value, ast.Attribute) and n.value.attr == 'ind2pow':
            sl = n.slice
            last = sl.elts[-1] if isinstance(sl, ast.Tuple) else sl
            if isinstance(last, ast.Constant) and last.value == 2:
                why.append('ind2pow[..., 2]')
        if isinstance(n, ast.Attribute) and 'Ylm' in n.attr:
            why.append(n.attr)
        if isinstance(n, ast.Name) and 'Ylm' in n.id:
            why.append(n.id)
    hits = []
    dimgen.scan(fn, lambda node, d, c: hits.append(d) if c is None else None)
    why += [h for h in hits if 'Taylor3D' not in h and 'T3D' not in h]
    # power tuples written as three explicit components
    for n in walk_local(fn):
        if isinstance(n, ast.For) and isinstance(n.target, ast.Tuple) and len(n.target.elts) == 3 and 'pow' in unparse(n.iter).lower():
            why.append('3-component power loop')
    return sorted(set(why))


def calls_of(fn):
    """names of methods called via cls./self./type(self). in fn"""
    out = set()
    for n in walk_local(fn):
        if isinstance(n, ast.Call) and isinstance(n.func, ast.Attribute):
            base = unparse(n.func.value)
            if base in ('cls', 'self', 'type(self)', 'self.__class__'):
                out.add(n.func.attr)
        if isinstance(n, ast.Attribute) and unparse(n.value) in ('cls', 'self') and isinstance(getattr(n, '_parent', None), ast.keyword):
            out.add(n.attr)  # e.g. key=cls.__sortkey
    return out


def override_rule(model, rep, scope_methods=None):
    rep.rule('override-3d-specific', 'a Taylor3D method with 3D-specific constructs is overridden by Taylor2D or unreachable from it')
    rep.rule('no-concrete-class', 'methods inherited by Taylor2D construct results through type(self) / cls, never Taylor3D')
    mod = model.mod('PowerExpansion')
    t3, t2 = model.cls('PowerExpansion', 'Taylor3D'), model.cls('PowerExpansion', 'Taylor2D')
    # methods visible on Taylor2D: own + inherited
    visible = {}
    for name, fn in t3.methods.items():
        visible[name] = ('Taylor3D', fn)
    for name, fn in t2.methods.items():
        visible[name] = ('Taylor2D', fn)
    # private name mangling: __sortkey is per class; treat `cls.__sortkey` inside Taylor3D code as Taylor3D's
    # reachability from Taylor2D's exposed API (everything not starting with '_' + dunder operators + __init__)
    roots = [n for n in visible if not n.startswith('_') or (n.startswith('__') and n.endswith('__'))]
    # table constructors (make*, dump/check internals) are reached only through the class initialiser of the class that owns them
    roots = [n for n in roots if not n.startswith(('__initTaylor', 'make', 'dumpinternals', 'checkinternals'))]
    reach = set()
    todo = list(roots)
    while todo:
        m = todo.pop()
        if m in reach or m not in visible:
            continue
        reach.add(m)
        owner, fn = visible[m]
        for c in calls_of(fn):
            cm = c
            if c.startswith('__') and not c.endswith('__'):
                cm = c  # name-mangled private helper of the defining class
            todo.append(cm)
    nspec = 0
    for name, fn in sorted(t3.methods.items()):
        if scope_methods and name not in scope_methods:
            continue
        why = three_d_specific(fn)
        if not why:
            continue
        nspec += 1
        over = name in t2.methods
        unreachable = name not in reach or (visible[name][0] == 'Taylor2D')
        ok = over or name not in reach
        rep.ob('override-3d-specific', mod, fn, 'Taylor3D.%s is 3D-specific (%s): %s' % (name, ', '.join(why)[:80],
               'overridden in Taylor2D' if over else ('unreachable from Taylor2D' if name not in reach else 'INHERITED and reachable')), ok,
               '' if ok else 'Taylor2D inherits a routine written for three dimensions and can reach it: 2D expansions are evaluated '
                             'with 3D index tables', engine='override', qual='Taylor3D.' + name)
    # inherited methods must not name the concrete class
    nctor = 0
    for name, (owner, fn) in sorted(visible.items()):
        if owner != 'Taylor3D' or (scope_methods and name not in scope_methods):
            continue
        for n in walk_local(fn):
            if isinstance(n, ast.Call) and unparse(n.func) in ('type(self)', 'cls', 'self.__class__'):
                nctor += 1
                rep.ob('no-concrete-class', mod, n, 'Taylor3D.%s constructs through %s' % (name, unparse(n.func)), True, engine='override',
                       qual='Taylor3D.' + name)
            if isinstance(n, ast.Name) and n.id in ('Taylor3D', 'T3D') and isinstance(n.ctx, ast.Load):
                par = getattr(n, '_parent', None)
                if name.startswith('__initTaylor3D') or (isinstance(par, ast.Attribute) and name in ('__initTaylor3Dindexing__',)):
                    continue
                rep.ob('no-concrete-class', mod, n, 'Taylor3D.%s names the concrete class Taylor3D' % name, name not in reach,
                       '' if name not in reach else 'a method that Taylor2D inherits builds / consults Taylor3D explicitly: a 2D expansion turns '
                                                    'into a 3D one (or uses the 3D tables)', engine='override', qual='Taylor3D.' + name)
    return nspec, nctor


def purity_rule(model, rep, methods):
    """non-in-place coefficient operations never write through their operands."""
    rep.rule('operand-purity', 'on the inplace=False path no in-place write reaches an operand (or an array stored inside it)')
    mod = model.mod('PowerExpansion')
    t3 = model.cls('PowerExpansion', 'Taylor3D')
    n = 0
    for name in methods:
        fn = t3.methods.get(name)
        if fn is None:
            raise AnalysisError('anchor vanished: Taylor3D.%s' % name)
        an = alias.Analyzer(model, mod, t3, {}, depth=0)
        params = {a.arg for a in fn.args.args}
        has_inplace = 'inplace' in params
        if has_inplace:
            an.assume = {'inplace': False}  # analyse the copying path only
        res = an.run(fn)
        bad = []
        nw = 0
        for w in res.writes:
            if not any(t.startswith('P:') for t in w.tokens):
                continue
            nw += 1
            bad.append(w)
        n += 1
        rep.ob('operand-purity', mod, fn, 'Taylor3D.%s: copying path (inplace=False) performs %d write(s) through operand storage' % (name, nw), not bad,
               '' if not bad else 'line %d: `%s` modifies the caller\'s expansion although inplace is False: a + b changes a'
               % (bad[0].node.lineno, unparse(bad[0].node)[:70]), engine='alias', qual='Taylor3D.' + name)
        # the value returned on the non-inplace path is not the operand itself
        for ret, toks, elts in res.returns:
            for e, t in zip(elts, toks):
                alias_ = sorted(x for x in t if x.startswith('P:') and '.<attr>' not in x and x != 'P:inplace')
                direct = [x for x in alias_ if x in ('P:a', 'P:b', 'P:c')]
                if direct and not _guarded_trivial(ret):
                    rep.ob('operand-purity', mod, ret, 'Taylor3D.%s returns %s' % (name, unparse(e)[:60]), False,
                           'the non-in-place result is the operand itself: later in-place operations on the result edit the operand',
                           engine='alias', qual='Taylor3D.' + name)
    return n


def _only_when_inplace(node, fn):
    """node lies in the body of `if inplace:` (or the else of `if not inplace:`)."""
    child, p = node, getattr(node, '_parent', None)
    while p is not None and p is not fn:
        if isinstance(p, ast.If):
            t = unparse(p.test)
            if t == 'inplace' and child in p.body:
                return True
            if t == 'not inplace' and child in p.orelse:
                return True
        child, p = p, getattr(p, '_parent', None)
    return False


def _guarded_trivial(ret):
    """`if len(acoeff) == 0: return acoeff` style trivial early returns are harmless."""
    p = getattr(ret, '_parent', None)
    return isinstance(p, ast.If) and 'len(' in unparse(p.test) and '== 0' in unparse(p.test)


def fancy_rule(model, rep, methods=None):
    rep.rule('no-fancy-augassign', 'no augmented assignment through an array-valued index (repeated indices would be applied once)')
    mod = model.mod('PowerExpansion')
    n = 0
    for q, fn in mod.functions.items():
        if q.count('.') != 1:
            continue
        if methods and q.split('.')[1] not in methods:
            continue
        n += 1
        hits = list(flow.fancy_augassign(fn))
        rep.ob('no-fancy-augassign', mod, hits[0][0] if hits else fn, q if not hits else '%s: %s' % (q, unparse(hits[0][0])[:90]), not hits,
               '' if not hits else 'index %s is array-valued: contributions that fall on the same entry are not accumulated' % hits[0][1],
               engine='flow', qual=q)
    return n
