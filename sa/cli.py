"""
Entry points:
  python -m sa.cli check Cxx [--tier quick|thorough]
  python -m sa.cli replay <path>
  python -m sa.cli all [--tier ...]          (convenience: every claimed property)
Exit codes: 0 property held / 1 VIOLATION / 2 ANALYSIS-ERROR.
"""
import importlib
import json
import os
import sys
import traceback

from .model import Model, AnalysisError
from .report import Report

CLAIMED = ['C01', 'C02', 'C04', 'C06', 'C10', 'C11', 'C13', 'C14', 'C15', 'C16', 'C17', 'C18', 'C21',
           'C23', 'C24', 'C26', 'C28', 'C29', 'C30', 'C31', 'C32', 'C33', 'C34', 'C35', 'C36']


def run_property(prop, tier, model=None, write=True, quiet=False):
    """returns (exit_code, Report)"""
    rep = Report(prop, tier, quiet=quiet)
    try:
        pm = importlib.import_module('sa.props.%s' % prop)
    except ModuleNotFoundError:
        print('ANALYSIS-ERROR property=%s no checker module sa/props/%s.py' % (prop, prop))
        return 2, rep
    try:
        if model is None:
            model = Model()
        pm.run(model, rep, tier)
        code = rep.finalize(write=write)
        if tier == 'thorough' and hasattr(pm, 'thorough_extra') and write:
            pm.thorough_extra(model, rep)
        return code, rep
    except AnalysisError as e:
        # a tree verdict reached so far is reported first, so that a violation is never masked by exit 2
        code = rep.finalize(write=write) if rep.violations() else 0
        if not quiet:
            print('ANALYSIS-ERROR property=%s %s' % (prop, e))
        return (1 if code == 1 else 2), rep
    except Exception:
        if not quiet:
            print('ANALYSIS-ERROR property=%s internal error' % prop)
            traceback.print_exc()
        return 2, rep


def main(argv=None):
    argv = list(sys.argv[1:] if argv is None else argv)
    if not argv:
        print(__doc__)
        return 2
    cmd = argv.pop(0)
    tier = os.environ.get('VERIF_TIER', 'quick')
    if '--tier' in argv:
        i = argv.index('--tier')
        tier = argv[i + 1]
        del argv[i:i + 2]
    if tier not in ('quick', 'thorough'):
        tier = 'quick'
    if cmd == 'check':
        code, _ = run_property(argv[0], tier)
        return code
    if cmd == 'all':
        worst = 0
        model = Model()
        for p in (argv or CLAIMED):
            code, _ = run_property(p, tier, model=model)
            worst = max(worst, code)
        return worst
    if cmd == 'replay':
        with open(argv[0]) as f:
            rec = json.load(f)
        code, rep = run_property(rec['property'], 'quick', write=False, quiet=True)
        hit = [o for o in rep.violations() if o.key() == rec['key']]
        if hit:
            o = hit[0]
            print('VIOLATION property=%s replay=%s' % (rec['property'], argv[0]))
            print('  %s:%s %s [%s] %s -- %s' % (o.file, o.line, o.qual, o.rule, o.construct[:200], o.msg))
            return 1
        print('not reproduced on the current tree: %s' % rec['key'])
        return 0 if code != 2 else 2
    print(__doc__)
    return 2


if __name__ == '__main__':
    sys.exit(main())
