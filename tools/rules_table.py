#!/usr/bin/env python3
"""Regenerates the table of DESIGN.md §7.1 from the evidence files (run `python -m sa.cli all` first)."""
import glob, json, re
rows = []
for f in sorted(glob.glob('/verif/evidence/C*.json')):
    e = json.load(open(f))
    c = e['coverage']
    pr = c.get('per_rule_counts', {})
    rules = ', '.join('%s (%d)' % (r, v['instances']) for r, v in sorted(pr.items()))
    rows.append('| %s | %s | %s | %s |' % (e['property_id'], rules, c.get('obligations', sum(v['instances'] for v in pr.values())), c.get('tree_form', '?')))
table = '| id | rules evaluated on the current tree (instances) | obligations | tree form |\n|---|---|---|---|\n' + '\n'.join(rows) + '\n'
s = open('/verif/DESIGN.md').read()
a = s.index('### 7.1 Rules evaluated per property')
b = s.index('### 7.2 Seeded changes')
head = s[a:s.index('\n', a) + 1]
s = s[:a] + head + '\n' + table + '\n' + s[b:]
open('/verif/DESIGN.md', 'w').write(s)
print(len(rows), 'rows')
