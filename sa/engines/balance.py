"""
E11 ``balance`` -- reference-class algebra for free energies and prefactors.

Every energy-like quantity carries a vector of coefficients telling how it moves when the reference of a species
(vacancy, solute; or the single interstitial species) is shifted by a constant.  The argument of every Boltzmann
factor must have the zero vector (it is a free-energy *difference*); the additive algebra is linear, ``min(x)`` and
``x[i]`` have the class of ``x``, loop variables the class of the iterable they are drawn from.
The same algebra in multiplicative form gives the scaling degree of prefactor expressions.
"""
import ast
from fractions import Fraction

from ..model import dotted, unparse, walk_local
from .linform import const_value


def vadd(a, b, sb=1):
    return tuple(x + sb * y for x, y in zip(a, b))


def vscale(a, c):
    return tuple(x * c for x in a)


class ClassEval:
    """additive class of an expression. env: name -> vector ; unknown -> None."""

    def __init__(self, env, dim):
        self.env = dict(env)
        self.zero = tuple([Fraction(0)] * dim)

    def cls(self, e):
        c = const_value(e)
        if c is not None:
            return self.zero
        if isinstance(e, ast.Name):
            return self.env.get(e.id)
        if isinstance(e, ast.Attribute):
            return self.env.get(unparse(e))
        if isinstance(e, ast.Subscript):
            return self.cls(e.value)
        if isinstance(e, ast.UnaryOp) and isinstance(e.op, (ast.USub, ast.UAdd)):
            v = self.cls(e.operand)
            return None if v is None else (vscale(v, -1) if isinstance(e.op, ast.USub) else v)
        if isinstance(e, ast.BinOp):
            if isinstance(e.op, (ast.Add, ast.Sub)):
                a, b = self.cls(e.left), self.cls(e.right)
                if a is None or b is None:
                    return None
                return vadd(a, b, 1 if isinstance(e.op, ast.Add) else -1)
            if isinstance(e.op, ast.Mult):
                ca, cb = const_value(e.left), const_value(e.right)
                if ca is not None:
                    v = self.cls(e.right)
                    return None if v is None else vscale(v, ca)
                if cb is not None:
                    v = self.cls(e.left)
                    return None if v is None else vscale(v, cb)
                return None
            if isinstance(e.op, ast.Div):
                cb = const_value(e.right)
                if cb:
                    v = self.cls(e.left)
                    return None if v is None else vscale(v, 1 / cb)
                return None
        if isinstance(e, ast.Call):
            d = (dotted(e.func) or '').split('.')[-1]
            if d in ('min', 'max', 'amin', 'amax', 'array', 'asarray', 'copy') and e.args:
                return self.cls(e.args[0])
            if isinstance(e.func, ast.Attribute) and e.func.attr in ('copy', 'min', 'max') and not e.args:
                return self.cls(e.func.value)
        if isinstance(e, (ast.ListComp, ast.GeneratorExp)):
            sub = ClassEval(self.env, len(self.zero))
            for g in e.generators:
                sub.bind(g.target, g.iter)
            return sub.cls(e.elt)
        if isinstance(e, ast.IfExp):
            a, b = self.cls(e.body), self.cls(e.orelse)
            return a if a == b else None
        return None

    def bind(self, target, iterable):
        """for <target> in <iterable>: element classes.  zip(...) distributes over the tuple target."""
        if isinstance(iterable, ast.Call) and dotted(iterable.func) == 'zip' and isinstance(target, ast.Tuple):
            for t, it in zip(target.elts, iterable.args):
                self.bind(t, it)
            return
        if isinstance(iterable, ast.Call) and dotted(iterable.func) == 'enumerate' and isinstance(target, ast.Tuple) \
                and len(target.elts) == 2:
            self.bind(target.elts[1], iterable.args[0])
            return
        v = self.cls(iterable)
        for n in ast.walk(target):
            if isinstance(n, ast.Name):
                if isinstance(target, ast.Name):
                    self.env[n.id] = v
                else:
                    self.env.pop(n.id, None)  # index-like tuple elements carry no class


class DegreeEval:
    """multiplicative scaling degree: env name -> Fraction."""

    def __init__(self, env):
        self.env = dict(env)

    def deg(self, e):
        if const_value(e) is not None:
            return Fraction(0)
        if isinstance(e, ast.Name):
            return self.env.get(e.id)
        if isinstance(e, ast.Attribute):
            return self.env.get(unparse(e))
        if isinstance(e, ast.Subscript):
            return self.deg(e.value)
        if isinstance(e, ast.UnaryOp):
            return self.deg(e.operand)
        if isinstance(e, ast.BinOp):
            a, b = self.deg(e.left), self.deg(e.right)
            if isinstance(e.op, ast.Mult):
                return None if a is None or b is None else a + b
            if isinstance(e.op, ast.Div):
                return None if a is None or b is None else a - b
            if isinstance(e.op, (ast.Add, ast.Sub)):
                return a if a is not None and a == b else None
            if isinstance(e.op, ast.Pow):
                p = const_value(e.right)
                return None if a is None or p is None else a * p
        if isinstance(e, ast.Call):
            d = (dotted(e.func) or '').split('.')[-1]
            if d == 'sqrt' and e.args:
                a = self.deg(e.args[0])
                return None if a is None else a / 2
            if d in ('exp',):
                return Fraction(0)
            if d in ('array', 'asarray') and e.args:
                return self.deg(e.args[0])
        return None


def exp_calls(node):
    return [c for c in ast.walk(node) if isinstance(c, ast.Call) and (dotted(c.func) or '').split('.')[-1] == 'exp' and c.args]
