#!/bin/bash
# usage: tools/probe.sh [quick|thorough]  -- the acceptance run: offline env, setup_cmd, then every registered command of the tier
# with its evidence file removed first; prints one line per property (exit code, VIOLATION count, evidence rewritten and valid)
tier=${1:-quick}
export CARGO_NET_OFFLINE=true GOPROXY=off PIP_NO_INDEX=1 VERIF_SEED=1 VERIF_TIER=$tier
cd /verif
sh -c "$(jq -r .setup_cmd MANIFEST.json)" || { echo "setup failed"; exit 2; }
jq -r ".checks[] | [.property_id, .${tier}_cmd, .evidence_file] | @tsv" MANIFEST.json | while IFS=$'\t' read -r id cmd ev; do
  echo "$id	$cmd	$ev"
done | xargs -P 16 -d '\n' -I{} bash -c '
  IFS=$'"'"'\t'"'"' read -r id cmd ev <<< "{}"
  rm -f "$ev"; out=$(mktemp)
  ( cd /verif && sh -c "$cmd" ) > $out 2>&1; code=$?
  nv=$(grep -c "^VIOLATION" $out); nk=$(grep -c "^KNOWN-FINDING" $out)
  if [ -f "$ev" ]; then valid=$(python3-vt - "$ev" <<PY
import json,sys,jsonschema
try:
    jsonschema.validate(json.load(open(sys.argv[1])), json.load(open("/root/.vp/EVIDENCE.schema.json"))); print("valid")
except Exception as e: print("INVALID", str(e)[:100])
PY
); else valid=MISSING; fi
  echo "$id exit=$code violations=$nv known=$nk evidence=$valid"; rm -f $out'
