"""
C27 -- supercell symmetry and equivalence mapping are sound and complete (structural clauses).

Not decided: that the operations found are all the symmetries of the supercell, that the search over them finds an
equivalence whenever one exists (a search over computed data).  Decided -- each a necessary condition visible in the code:
  * permutation: ``Supercell.gengroup`` keeps an operation only after checking that its index map has as many distinct
    images as there are sites (a permutation), and builds the map by transforming every site (all unit translations x all
    atoms of the cell) with that very operation;
  * action: ``__imul__`` scatters the occupation through the index map (image site receives the occupation of its
    pre-image) and maps ``chemorder`` through the same index map;
  * soundness of ``equivalencemap``: an operation is accepted only under the condition that the *complete* transformed
    occupation (the same scatter as ``__imul__``, over every site) equals the other supercell's occupation; the mapping is
    built from the images of self's ordered sites looked up in the other's order; when no operation passes, ``None`` is
    returned for the operation (the loop variable left over from the search is never handed out);
  * pre-filters may only *reject*: every ``continue`` / early ``return None`` before the full comparison is a necessary
    condition of equivalence (defect inventory by type and count) -- they are listed, and the acceptance still requires
    the full comparison;
  * remembered values: any cache / memo added to the Supercell routines is keyed completely and reset by every writer of
    what it was computed from (engine ``cache``).
"""
import ast

from ..model import AnalysisError, dotted, unparse, walk_local
from ..engines import pattern
from ._common import cache_discipline, conditions_at, resolve_local


def run(model, rep, tier):
    rep.explanation = __doc__.strip()
    rep.not_decided = 'completeness of the group of the supercell and of the search for an equivalence (computed data)'
    cache_discipline(model, rep, [('supercell', 'Supercell')])
    rep.rule('permutation-checked', 'an operation of the supercell is kept only if its index map is a permutation of all sites')
    rep.rule('scatter-action', 'occupations move with the index map: image site <- pre-image occupation; chemorder through the same map')
    rep.rule('accept-on-full-match', 'equivalencemap accepts an operation only if the complete transformed occupation equals the target')
    rep.rule('mapping-from-images', 'the reordering is built from the images of self\'s ordered sites, looked up in the other order')
    rep.rule('none-when-not-found', 'without an accepted operation, None is returned for the operation')
    mod = model.mod('supercell')
    ci = model.cls('supercell', 'Supercell')
    for m in ('gengroup', '__imul__', 'equivalencemap'):
        if m not in ci.methods:
            raise AnalysisError('anchor vanished: Supercell.%s' % m)
    _gengroup(rep, mod, ci.methods['gengroup'])
    _imul(rep, mod, ci.methods['__imul__'])
    _equiv(rep, mod, ci.methods['equivalencemap'])


def _gengroup(rep, mod, fn):
    q = 'Supercell.gengroup'
    ctor = [c for c in walk_local(fn) if isinstance(c, ast.Call) and (dotted(c.func) or '').endswith('GroupOp')]
    if len(ctor) != 1:
        raise AnalysisError('%s: GroupOp construction not found' % q)
    im = next((k.value for k in ctor[0].keywords if k.arg == 'indexmap'), ctor[0].args[3] if len(ctor[0].args) > 3 else None)
    if im is None:
        raise AnalysisError('%s: indexmap argument not found' % q)
    names = [n.id for n in ast.walk(im) if isinstance(n, ast.Name) and n.id not in ('tuple', 'list')]
    if len(names) != 1:
        raise AnalysisError('%s: index map variable not recognised in %s' % (q, unparse(im)))
    v = names[0]
    conds = conditions_at(fn, ctor[0])
    # the permutation test: number of distinct images == number of sites, on a path that leaves (raise / continue) otherwise
    want = [c for c in conds if 'len(set(%s))' % v in c.replace(' ', '').replace('len(set(%s))' % v, 'len(set(%s))' % v)]
    ok = any(('==' in c) and ('self.N * self.size' in c or 'self.size * self.N' in c or 'len(self.pos)' in c) for c in want)
    rep.ob('permutation-checked', mod, ctor[0], 'GroupOp(... indexmap=%s) under %s' % (unparse(im)[:40], sorted(want) or 'no permutation test'),
           ok, '' if ok else 'the index map is stored without checking that it has one distinct image per site: an operation that is not '
           'a symmetry of the supercell (two sites mapped onto one) would be kept', engine='flow', qual=q)
    # built by transforming every site with the operation that is stored
    apps = [c for c in walk_local(fn) if isinstance(c, ast.Call) and isinstance(c.func, ast.Attribute) and c.func.attr == 'append'
            and unparse(c.func.value) == v]
    okb = False
    txt = ''
    if len(apps) == 1:
        loops = []
        p = getattr(apps[0], '_parent', None)
        while p is not None and p is not fn:
            if isinstance(p, ast.For):
                loops.append(p)
            p = getattr(p, '_parent', None)
        its = [unparse(l.iter) for l in loops]
        gp = [c for l in loops[:1] for c in ast.walk(l) if isinstance(c, ast.Call) and unparse(c.func) == 'self.crys.g_pos']
        txt = 'loops over %s, image by %s' % (its[:2], unparse(gp[0])[:50] if gp else '?')
        # the operation handed to g_pos is the one whose translation / rotation are stored
        if gp and len(gp[0].args) == 3 and len(loops) >= 2:
            g_txt = unparse(resolve_local(fn, gp[0].args[0]))
            g_trans = unparse(ast.Attribute(value=resolve_local(fn, gp[0].args[0]), attr='trans', ctx=ast.Load()))
            stored_trans = next((k.value for k in ctor[0].keywords if k.arg == 'trans'), None)
            # the operation whose images fill the map is the one whose translation is stored (texts with locals written out)
            uses_g = stored_trans is not None and g_trans in unparse(resolve_local(fn, stored_trans))
            sites = {unparse(gp[0].args[1]), unparse(gp[0].args[2])} == {unparse(loops[0].target), unparse(loops[1].target)}
            cover = 'self.atomindices' in its[0] and 'self.translist' in unparse(resolve_local(fn, loops[1].iter))
            okb = uses_g and sites and cover
    rep.ob('permutation-checked', mod, apps[0] if apps else fn, 'index map filled ' + txt, okb,
           '' if okb else 'the index map is not the image of every site (every unit translation x every atom) under the operation stored',
           engine='flow', qual=q)


def _scatter(fn, occ_src):
    """(loop, target array, index map name) of  ``for ind, gind in enumerate(M): T[gind] = <occ_src>[ind]``."""
    for lp in [x for x in walk_local(fn) if isinstance(x, ast.For)]:
        if isinstance(lp.iter, ast.Call) and dotted(lp.iter.func) == 'enumerate' and isinstance(lp.target, ast.Tuple) and len(lp.target.elts) == 2:
            i_, g_ = [unparse(t) for t in lp.target.elts]
            for st in lp.body:
                if isinstance(st, ast.Assign) and isinstance(st.targets[0], ast.Subscript) and unparse(st.targets[0].slice) == g_ \
                        and unparse(st.value) == '%s[%s]' % (occ_src, i_):
                    return lp, unparse(st.targets[0].value), unparse(lp.iter.args[0])
        # inverse spelling: T[M[ind]] = occ[ind] over range / enumerate(occ)
    # vectorised spelling  T[M] = occ   (M an index array / list)
    for st in walk_local(fn):
        if isinstance(st, ast.Assign) and isinstance(st.targets[0], ast.Subscript) and unparse(st.value) == occ_src \
                and not isinstance(st.targets[0].slice, (ast.Slice, ast.Constant)):
            return st, unparse(st.targets[0].value), unparse(st.targets[0].slice)
    return None


def _imul(rep, mod, fn):
    q = 'Supercell.__imul__'
    sc = _scatter(fn, 'self.occ')
    ok = False
    txt = 'scatter not found'
    if sc:
        node, tgt, im = sc
        imr = unparse(resolve_local(fn, ast.parse(im, mode='eval').body))
        fresh = any(isinstance(a, ast.Assign) and unparse(a.targets[0]) == tgt and unparse(a.value) in ('self.occ.copy()', 'np.copy(self.occ)', 'np.empty_like(self.occ)', 'np.zeros_like(self.occ)')
                    for a in walk_local(fn))
        stored = any(isinstance(a, ast.Assign) and unparse(a.targets[0]) == 'self.occ' and unparse(a.value) == tgt for a in walk_local(fn))
        txt = '%s[image] = self.occ[site] through %s, into a fresh array stored as self.occ' % (tgt, imr)
        ok = fresh and stored and imr.endswith('.indexmap[0]')
        co = [a for a in walk_local(fn) if isinstance(a, ast.Assign) and unparse(a.targets[0]) == 'self.chemorder']
        okc = False
        if len(co) == 1:
            for b in pattern.find(resolve_local(fn, co[0].value), '[[_E_im[_N_i] for _N_i in _N_c] for _N_c in self.chemorder]', 'expr'):
                okc = okc or unparse(resolve_local(fn, ast.parse(b['_E_im'], mode='eval').body)) == imr
        rep.ob('scatter-action', mod, co[0] if co else fn, 'chemorder mapped through the same index map %s' % im, okc,
               '' if okc else 'the ordered site lists are not mapped through the index map that moved the occupations', engine='owner', qual=q)
    rep.ob('scatter-action', mod, sc[0] if sc else fn, txt, ok,
           '' if ok else 'the occupation is not moved as image <- pre-image through the operation\'s index map into a fresh array '
           '(an in-place scatter reads sites it has already overwritten)', engine='owner', qual=q)


def _equiv(rep, mod, fn):
    q = 'Supercell.equivalencemap'
    other = fn.args.args[1].arg if len(fn.args.args) > 1 else 'other'
    loops = [x for x in fn.body if isinstance(x, ast.For) and unparse(x.iter) in ('self.G', 'sorted(self.G)', 'list(self.G)')]
    if len(loops) != 1:
        raise AnalysisError('%s: search loop over self.G not found' % q)
    lp = loops[0]
    g_ = unparse(lp.target)
    # where the winner is recorded: the assignment(s) of the mapping inside the loop
    rets = [r for r in walk_local(fn) if isinstance(r, ast.Return) and isinstance(r.value, ast.Tuple) and len(r.value.elts) == 2]
    final = [r for r in rets if unparse(r.value.elts[0]) == g_]
    if len(final) != 1:
        raise AnalysisError('%s: final return of (operation, mapping) not found' % q)
    mapname = unparse(final[0].value.elts[1])
    wins = [a for a in ast.walk(lp) if isinstance(a, ast.Assign) and unparse(a.targets[0]) == mapname]
    if not wins:
        raise AnalysisError('%s: the mapping is never assigned inside the search loop' % q)
    sc = _scatter(lp, 'self.occ')
    for w in wins[:1]:
        conds = conditions_at(fn, w)
        full = []
        if sc:
            tgt = sc[1]
            for c in conds:
                cc = c.replace(' ', '')
                if tgt in c and ('%s.occ' % other) in c and any(k in cc for k in ('notnp.any(%s!=%s.occ)' % (tgt, other), 'np.all(%s==%s.occ)' % (tgt, other),
                                                                                   'np.array_equal(%s,%s.occ)' % (tgt, other), 'np.array_equal(%s.occ,%s)' % (other, tgt),
                                                                                   'notnp.any(%s.occ!=%s)' % (other, tgt), 'np.all(%s.occ==%s)' % (other, tgt))):
                    full.append(c)
        # the scatter precedes the comparison in the loop body and uses this operation's own index map
        imok = False
        if sc:
            imr = unparse(resolve_local(lp, ast.parse(sc[2], mode='eval').body))
            imok = imr == '%s.indexmap[0]' % g_ and sc[0].lineno < w.lineno
        ok = bool(full) and imok
        rep.ob('accept-on-full-match', mod, w, 'operation accepted under %s' % (sorted(full) or sorted(conds)), ok,
               '' if ok else 'the operation is accepted without comparing the complete transformed occupation (every site, through this '
               'operation\'s index map) with the target: an operation that exchanges species, or moves a defect the pre-filter does not '
               'look at, is returned as an equivalence', engine='flow', qual=q)
    # mapping from images
    okm = False
    for w in wins:
        val = unparse(resolve_local(lp, w.value))
        images = '[[%s.indexmap[0][' % g_
        okm = okm or (images in val and 'in self.chemorder]' in val and '.index(' in val and ('%s.chemorder' % other) in val)
    if not okm:
        # the mapping may also be filled by appends to the list that is returned
        for b in pattern.find(lp, '_N_m.append([_N_gc.index(_N_x) for _N_x in _N_ol])'):
            src = unparse(resolve_local(lp, ast.parse(b['_N_gc'], mode='eval').body))
            zips = [unparse(resolve_local(lp, x.iter)) for x in ast.walk(lp) if isinstance(x, ast.For) and b['_N_gc'] in unparse(x.target)]
            okm = okm or any(('%s.indexmap[0][' % g_) in z and 'self.chemorder' in z and ('%s.chemorder' % other) in z for z in zips)
    rep.ob('mapping-from-images', mod, lp, 'mapping[c][i] = position of %s.chemorder[c][i] among the images of self.chemorder[c]' % other, okm,
           '' if okm else 'the reordering is not looked up among the images of self\'s ordered sites under the accepted operation',
           engine='flow', qual=q)
    # None when nothing was accepted
    init = [a for a in fn.body if isinstance(a, ast.Assign) and unparse(a.targets[0]) == mapname and unparse(a.value) == 'None' and a.lineno < lp.lineno]
    guard = [s for s in fn.body if isinstance(s, ast.If) and s.lineno > lp.lineno and unparse(s.test) in ('%s is None' % mapname, 'not %s' % mapname)
             and s.body and isinstance(s.body[-1], ast.Return) and isinstance(s.body[-1].value, ast.Tuple)
             and unparse(s.body[-1].value.elts[0]) == 'None']
    brk = any(isinstance(b, ast.Break) for b in ast.walk(lp))
    ok = bool(init) and bool(guard) and brk
    rep.ob('none-when-not-found', mod, final[0], '%s starts as None, the search stops at the first accepted operation, (None, ...) returned '
           'if it is still None' % mapname, ok, '' if ok else 'when no operation is accepted the last operation tried is returned as if it '
           'were an equivalence (or the search does not stop at the accepted one)', engine='flow', qual=q)
    # pre-filters listed (they can only reject)
    pre = [s for s in ast.walk(fn) if isinstance(s, ast.If) and s.body and isinstance(s.body[-1], (ast.Continue, ast.Return)) and s.lineno < wins[0].lineno]
    rep.note('rejecting pre-filters before the acceptance: %s' % [unparse(s.test)[:60] for s in pre])


SC = 'onsager/supercell.py'
BREAKERS = [
    (SC, "            if np.any(gocc != other.occ): continue\n", "", 'accept-on-full-match'),
    (SC, "            for ind, gind in enumerate(indexmap):\n                gocc[gind] = self.occ[ind]\n            if np.any(gocc != other.occ): continue",
     "            if any(indexmap[i] not in otherdefects[k] for k, v in selfdefects.items() for i in v): continue", 'accept-on-full-match'),
    (SC, "        if mapping is None: return None, mapping\n", "", 'none-when-not-found'),
    (SC, "                if len(set(indexmap)) != self.N * self.size:\n                    raise ArithmeticError('Did not produce a correct index mapping for GroupOp:\\n{}'.format(g))\n", "", 'permutation-checked'),
    (SC, "        self.chemorder = [[indexmap[ind] for ind in clist] for clist in self.chemorder]\n        return self", "        return self", 'scatter-action'),
    (SC, "        gocc = self.occ.copy()\n        for ind, gind in enumerate(indexmap):\n            gocc[gind] = self.occ[ind]\n        self.occ = gocc",
     "        gocc = self.occ\n        for ind, gind in enumerate(indexmap):\n            gocc[gind] = self.occ[ind]\n        self.occ = gocc", 'scatter-action'),
    (SC, "            gorder = [[indexmap[ind] for ind in clist] for clist in self.chemorder]\n            mapping = []",
     "            gorder = [[ind for ind in clist] for clist in self.chemorder]\n            mapping = []", 'mapping-from-images'),
]
NEUTRALS = [
    (SC, "            if np.any(gocc != other.occ): continue\n", "            if not np.all(gocc == other.occ): continue\n"),
]
