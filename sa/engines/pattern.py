"""
Alpha-insensitive AST patterns.  A template is Python source in which
    identifiers  _N_xxx   match any Name (the same metavariable must bind the same name everywhere),
    identifiers  _E_xxx   match any expression (same metavariable -> structurally equal expressions).
``find(scope, template)`` returns the list of bindings for every statement / expression of ``scope`` that matches.
This keeps shape rules independent of how local variables are called.
"""
import ast

from ..model import unparse


def _match(p, n, b):
    if isinstance(p, ast.Name) and p.id.startswith('_N_'):
        if not isinstance(n, ast.Name):
            return False
        if p.id in b:
            return b[p.id] == n.id
        b[p.id] = n.id
        return True
    if isinstance(p, ast.Name) and p.id.startswith('_E_'):
        t = unparse(n) if isinstance(n, ast.AST) else None
        if t is None:
            return False
        if p.id in b:
            return b[p.id] == t
        b[p.id] = t
        return True
    if isinstance(p, ast.arg) and isinstance(n, ast.arg):
        return p.arg == n.arg
    if type(p) is not type(n):
        return False
    for f in p._fields:
        if f in ('ctx', 'type_comment', 'lineno', 'col_offset', 'end_lineno', 'end_col_offset', 'kind'):
            continue
        pv, nv = getattr(p, f, None), getattr(n, f, None)
        if isinstance(pv, list):
            if not isinstance(nv, list) or len(pv) != len(nv):
                return False
            for x, y in zip(pv, nv):
                if isinstance(x, ast.AST):
                    if not _match(x, y, b):
                        return False
                elif x != y:
                    return False
        elif isinstance(pv, ast.AST):
            if not isinstance(nv, ast.AST) or not _match(pv, nv, b):
                return False
        else:
            if isinstance(pv, str) and pv.startswith('_N_') and f in ('id', 'arg', 'attr', 'name'):
                if pv in b:
                    if b[pv] != nv:
                        return False
                else:
                    b[pv] = nv
            elif pv != nv:
                return False
    return True


def find(scope, template, mode='stmt', **fixed):
    """bindings of all matches of ``template`` among the nodes of ``scope``."""
    if mode == 'stmt':
        pat = ast.parse(template).body[0]
        cands = [n for n in ast.walk(scope) if isinstance(n, ast.stmt)]
    else:
        pat = ast.parse(template, mode='eval').body
        cands = [n for n in ast.walk(scope) if isinstance(n, ast.expr)]
    out = []
    for n in cands:
        b = dict(fixed)
        if _match(pat, n, b):
            b['_node'] = n
            out.append(b)
    return out


def has(scope, template, mode='stmt', **fixed):
    return bool(find(scope, template, mode, **fixed))
