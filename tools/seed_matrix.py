#!/venv/bin/python
"""
Assemble /verif/seeded/<Cxx><v>/ from the sub-agents' deliverables in /tmp/seed and record which checks catch which
seeded change.  For every seed: (re)base the patch on /repo HEAD, apply it to /repo, run every claimed check (quick),
undo it, and write meta.json.  Nothing is ever committed to /repo.

usage: seed_matrix.py [Cxx:a ...]     (default: every seed that has a confirm_<v>.txt)
"""
import json
import os
import re
import shutil
import subprocess
import sys

SEED = '/tmp/seed'
OUT = '/verif/seeded'
sys.path.insert(0, '/verif')
from sa.cli import CLAIMED  # noqa

NEEDS = {  # what each change needs in order to manifest (from the seeders' notes)
    'C01a': 'non-contiguous thermo2kin (SC/BCC Nthermo=2, or FCC 1NN+2NN) with star-dependent binding energies',
    'C01b': 'call history on one calculator: two inputs whose beta*E differ by < 1e-4 (finite-difference temperature derivative)',
    'C02a': '>= 2 Wyckoff sets each with a non-empty vector basis, connected by jumps, different site probabilities',
    'C02b': 'crystal without inversion (pinv branch) and small absolute rates (< 1e-8)',
    'C04a': 'crystal without inversion (pinv branch), non-empty vector basis, small absolute rates; rate scaling',
    'C04b': 'direct Lij call with inputs whose minimum is not zero (not routed through preene2betafree)',
    'C06a': '>= 2 omega0 jump classes with different eneT0',
    'C06b': '>= 2 Wyckoff sets, non-uniform vacancy energies, site order where site w is not in Wyckoff set w',
    'C10a': 'second SetRates on the same calculator with a different pmaxerror',
    'C10b': 'far-field separations beyond (u*pmax/2)^2 > 18.4',
    'C11a': 'equivalent sites with differently oriented dipoles (BCC oct/tet, polar hexagonal)',
    'C11b': 'vector basis spanning > 1 direction with an invariant axial vector (triclinic / trigonal without vertical mirrors)',
    'C13a': 'multi-Wyckoff crystal with invmap not identity on Wyckoff indices, non-uniform site energies, HDF5 reload, GF cache miss',
    'C13b': 'saved cache with >= 2 entries inserted in non-sorted order, reload, evaluate a cached input',
    'C14a': 'crystal with origin states and history Lij(A); Lij(B); Lij(A)',
    'C14b': '>= 2 vacancy Wyckoff sets, two consecutive different inputs with equal symmetric rates (KRA model)',
    'C15a': 'solute-site (pre, ene) different from vacancy-site (pre, ene)',
    'C15b': 'build -> addhdf5 -> loadhdf5 -> verbose report / tagdicttype',
    'C16a': 'coefficient block (n, l) holding mixed-degree powers (random coefficient lists)',
    'C16b': 'coefficient list not in ascending n order at the moment of an in-place truncation',
    'C17a': 'non-diagonal 2D transformation (rotation, oblique, axis swap)',
    'C17b': 'leading term with n > 0 and Nmax >= 2',
    'C18a': 'non-collinear vector spins with components perpendicular to a 3-/4-/6-fold axis',
    'C18b': 'species with >= 3 atoms permuted non-commutatively (Cu3Au, perovskite)',
    'C21a': 'two adjacent jump classes blocked by the same obstacle image (HCP oct/tet, cutoff 1.3 a0, closest 0.4 a0)',
    'C21b': 'frac(cutoff/|a|) >= 0.5, skewed cell, sites near opposite cell faces',
    'C23a': 'chemistry with >= 3 equivalent atoms permuted by a non-abelian group (perovskite O, A15)',
    'C23b': 'component of rot.u + trans within 1e-8 below an integer (hexagonal / oblique special positions)',
    'C24a': 'other.Nshells >= 2 in __iadd__ (S(2)+S(2), S(1) += S(2))',
    'C24b': 'history: StarSet for one chemistry, then for another chemistry of the same crystal in one session',
    'C26a': 'kinetic-only star sorting before the farthest thermodynamic star (BCC / rectangular / tetragonal, Nthermo=2)',
    'C26b': 'HDF5 round trip, then inspection of om2_jn displacements',
    'C28a': 'history: place a solute/antisite with setocc, then fillperiodic over that sublattice',
    'C28b': 'POSCAR_occ into a non-empty receiver sharing (site, species) pairs in another order',
    'C29a': 'non-symmetric supercell matrix (orthohexagonal HCP, sheared cell)',
    'C29b': 'supercell shape of lower symmetry than the crystal, too small in one direction',
    'C30a': '>= 3 non-empty chemistry lists (binary host + solute / interstitial)',
    'C30b': 'transition with exactly one unmapped endpoint (omega1 escape jumps)',
    'C31a': 'multi-atom basis with fractional coordinates differing by > 0.5 along an axis and cutoff > lattice constant',
    'C31b': 'mobile species with several sites per cell (HCP, honeycomb)',
    'C32a': 'fixed vacancy, vacancy clusters, > 1 site per cell for the vacancy chemistry (HCP)',
    'C32b': 'cluster wrapping a small periodic cell onto the same site twice; start() followed by update()',
    'C33a': 'site appearing twice in one interaction (cells one unit thick, cutoff >= supercell period)',
    'C33b': 'history start(A) ... E() ... start(B) on one sampler',
    'C34a': 'jumping sublattice with >= 2 sites per cell (HCP): different jumps sharing one lattice vector dR',
    'C34b': '>= 2 mobile chemistries, a vacancy, mixed-chemistry clusters',
    'C35a': 'supercell with a vacancy; vacancy jump onto an occupied neighbour',
    'C35b': 'batch of > 1 moves with an accepted move followed by reuse of a touched slot',
    'C36a': 'translation component on a 6th-decimal rounding boundary (generic, off-origin axis)',
    'C36b': 'keys differing only in transition-state energies (one vacancy Wyckoff site, several temperatures)',
}
# seeds whose summary was read BEFORE the rule that now catches them was written (the rule was added or
# extended because of the seed); everything else was caught by rules written without knowledge of the seed
POST_HOC = {'C28b', 'C04a', 'C02b', 'C15a', 'C15b', 'C14a', 'C14b', 'C33a', 'C33b', 'C36b', 'C01b', 'C13a', 'C13b', 'C26a', 'C26b',
            'C18b', 'C23a', 'C24a', 'C24b', 'C21a', 'C31b', 'C34a', 'C34b', 'C35a', 'C29a', 'C29b', 'C16b', 'C17a', 'C17b', 'C11a',
            'C04b', 'C21b', 'C23b'}


def sh(cmd, **kw):
    return subprocess.run(cmd, shell=True, capture_output=True, text=True, **kw)


def rebase(src, dst):
    if sh('git -C /repo apply --check %s' % src).returncode == 0:
        shutil.copy(src, dst)
        return 'applies to HEAD as delivered'
    r = sh('git -C /repo apply --3way %s' % src)
    conflicts = sh('git -C /repo diff --name-only --diff-filter=U').stdout.strip()
    if r.returncode == 0 and not conflicts:
        d = sh('git -C /repo diff HEAD').stdout
        open(dst, 'w').write(d)
        sh('git -C /repo checkout HEAD -- . && git -C /repo reset -q')
        return 're-based on HEAD with a 3-way merge (the fix: commits touched neighbouring lines)'
    sh('git -C /repo checkout HEAD -- . ; git -C /repo reset -q')
    alt = os.path.join(SEED, 'rebased', os.path.basename(os.path.dirname(src)) + '_' + re.search(r'patch_(\w)\.diff', src).group(1) + '.diff')
    if os.path.exists(alt) and sh('git -C /repo apply --check %s' % alt).returncode == 0:
        shutil.copy(alt, dst)
        return 're-based on HEAD by hand (context line changed by a fix: commit)'
    return None


def main(argv):
    if sh('git -C /repo diff --quiet HEAD').returncode != 0:
        print('repo not clean')
        return 2
    seeds = argv or sorted('%s:%s' % (d, f[8]) for d in os.listdir(SEED) if re.fullmatch(r'C\d\d', d)
                           for f in os.listdir(os.path.join(SEED, d)) if re.fullmatch(r'confirm_\w\.txt', f))
    head = sh('git -C /repo rev-parse --short HEAD').stdout.strip()
    rows = []
    for s in seeds:
        pid, v = s.split(':')
        sid = pid + v
        src = os.path.join(SEED, pid)
        out = os.path.join(OUT, sid)
        os.makedirs(out, exist_ok=True)
        how = rebase(os.path.join(src, 'patch_%s.diff' % v), os.path.join(out, 'patch.diff'))
        if how is None:
            print(sid, 'PATCH DOES NOT APPLY')
            continue
        for a, b in (('demo_%s.py' % v, 'demo.py'), ('notes_%s.md' % v, 'notes.md')):
            if os.path.exists(os.path.join(src, a)):
                shutil.copy(os.path.join(src, a), os.path.join(out, b))
        conf = {}
        cf = os.path.join(src, 'confirm_%s.txt' % v)
        if os.path.exists(cf):
            t = open(cf).read()
            for k in ('head', 'clean_exit', 'patched_exit'):
                m = re.search(r'%s[:=]\s*(\S+)' % k, t)
                conf[k] = m.group(1) if m else None
            m = re.search(r'(\d+ failed, \d+ passed.*?) in ', t)
            conf['suite'] = m.group(1) if m else None
        # detection
        sh('git -C /repo apply %s' % os.path.join(out, 'patch.diff'))
        detected = []
        try:
            r = sh('cd /verif && /venv/bin/python -m sa.cli all')
            cur = None
            per = {}
            for line in r.stdout.splitlines():
                m = re.match(r'VIOLATION property=(C\d+)', line)
                if m:
                    cur = m.group(1)
                    per.setdefault(cur, set())
                    continue
                m = re.match(r'  \S+:\d+ .*?\[([\w-]+)\]', line)
                if m and cur:
                    per[cur].add(m.group(1))
                m = re.match(r'ANALYSIS-ERROR property=(C\d+)', line)
                if m and m.group(1) not in per:
                    detected.append({'check': m.group(1), 'rules': ['ANALYSIS-ERROR (exit 2, not counted as detection)']})
            for p in sorted(per):
                detected.append({'check': p, 'rules': sorted(per[p])})
        finally:
            sh('git -C /repo checkout HEAD -- . && git -C /repo reset -q')
        caught = [d for d in detected if not d['rules'][0].startswith('ANALYSIS')]
        meta = {
            'id': sid, 'property': pid, 'variant': v,
            'breaks': 'see notes.md (written by the seeding sub-agent, which saw only the property text)',
            'needs_to_manifest': NEEDS.get(sid, 'see notes.md'),
            'files_changed': sorted(set(re.findall(r'^\+\+\+ b/(\S+)', open(os.path.join(out, 'patch.diff')).read(), re.M))),
            'patch': how,
            'confirmed_by_me': {
                'how': 'tools/confirm_seed.sh %s %s : scratch worktree of /repo HEAD %s under /tmp/cw, demo on clean tree, apply patch, '
                       'demo again, full pinned suite with -n 6, worktree removed' % (pid, v, conf.get('head')),
                'demo_exit_clean': conf.get('clean_exit'), 'demo_exit_patched': conf.get('patched_exit'), 'suite_with_patch': conf.get('suite'),
            },
            'checks_run': 'git -C /repo apply patch.diff; /venv/bin/python -m sa.cli check <all 25>; git -C /repo checkout HEAD -- .  (repo HEAD %s)' % head,
            'detected_by': caught,
            'analysis_errors': [d['check'] for d in detected if d not in caught],
            'rule_written_after_seeing_the_seed': sid in POST_HOC and bool(caught),
        }
        with open(os.path.join(out, 'meta.json'), 'w') as f:
            json.dump(meta, f, indent=1)
            f.write('\n')
        rows.append((sid, ', '.join('%s[%s]' % (d['check'], '/'.join(d['rules'])) for d in caught) or 'MISSED'))
        print(rows[-1][0], '->', rows[-1][1], flush=True)
    with open(os.path.join(OUT, 'MATRIX.md'), 'w') as f:
        f.write('# Seeded changes vs checks (repo HEAD %s)\n\n| seed | caught by |\n|---|---|\n' % head)
        done = {r[0]: r[1] for r in rows}
        for d in sorted(os.listdir(OUT)):
            mp = os.path.join(OUT, d, 'meta.json')
            if os.path.exists(mp):
                m = json.load(open(mp))
                c = ', '.join('%s [%s]' % (x['check'], ', '.join(x['rules'])) for x in m['detected_by']) or '**missed**'
                f.write('| %s%s | %s |\n' % (d, ' (rule added after the seed was seen)' if m.get('rule_written_after_seeing_the_seed') else '', c))
    return 0


if __name__ == '__main__':
    sys.exit(main(sys.argv[1:]))
