"""
omega-family provenance for the vacancy-mediated pipeline (part of E7 ``tables``).

Every expansion attribute built in ``VacancyMediated.generatematrices`` gets the family (om0/om1/om2) of its
last axis from its *provenance*: which jump network was passed to the VectorStarSet expansion routine and which
position of the returned tuple it was bound from (the routine's own ``np.zeros`` shapes say whether a returned
array is sized by the omega0 classes or by the passed network).  Rate vectors get their family from their
constructor in ``_symmetricandescaperates``.  No naming convention is used.
"""
import ast

from ..model import AnalysisError, dotted, unparse, walk_local

NETS = {'self.om0_jn': 'om0', 'self.om1_jn': 'om1', 'self.om2_jn': 'om2'}
TYPES = {'self.om1_jt': 'om1', 'self.om2_jt': 'om2'}
PAIRS = {'self.om1_SP': 'om1', 'self.om2_SP': 'om2', 'self.omega0vacancyWyckoff': 'om0'}


def expansion_return_families(model):
    """{method: [family of last axis per returned value]} for VectorStarSet.{rate,bias,bare}expansions,
    with 'net' standing for the passed jump network and 'om0' for the omega0 classes."""
    ci = model.cls('crystalStars', 'VectorStarSet')
    out = {}
    for m in ('rateexpansions', 'biasexpansions', 'bareexpansions'):
        fn = ci.methods.get(m)
        if fn is None:
            raise AnalysisError('anchor vanished: VectorStarSet.%s' % m)
        netparam = fn.args.args[1].arg
        shapes = {}
        for n in walk_local(fn):
            if isinstance(n, ast.Assign) and isinstance(n.targets[0], ast.Name) and isinstance(n.value, ast.Call) \
                    and (dotted(n.value.func) or '').endswith('zeros') and n.value.args:
                sh = n.value.args[0]
                last = sh.elts[-1] if isinstance(sh, ast.Tuple) else sh
                t = unparse(last)
                if t == 'len(%s)' % netparam:
                    shapes[n.targets[0].id] = 'net'
                elif t == 'len(self.starset.jumpnetwork_index)':
                    shapes[n.targets[0].id] = 'om0'
        rets = [n for n in walk_local(fn) if isinstance(n, ast.Return) and isinstance(n.value, ast.Tuple)]
        if len(rets) != 1:
            raise AnalysisError('VectorStarSet.%s: tuple return not found' % m)
        fams = []
        for e in rets[0].value.elts:
            inner = e.args[0] if isinstance(e, ast.Call) and e.args else e
            nm = unparse(inner)
            if nm not in shapes:
                raise AnalysisError('VectorStarSet.%s: returned %s has no recognised shape' % (m, nm))
            fams.append(shapes[nm])
        out[m] = (fams, rets[0])
    return out


def attribute_families(model, rep=None):
    """{self.attr: family} for the expansion attributes assigned in VacancyMediated.generatematrices,
    plus the list of (call node, net family, omega2 flag, method) for coherence checks."""
    ci = model.cls('OnsagerCalc', 'VacancyMediated')
    gm = ci.methods.get('generatematrices')
    if gm is None:
        raise AnalysisError('anchor vanished: VacancyMediated.generatematrices')
    retf = expansion_return_families(model)
    fam, calls = {}, []
    for n in walk_local(gm):
        if not (isinstance(n, ast.Assign) and isinstance(n.value, ast.Call) and isinstance(n.value.func, ast.Attribute)
                and unparse(n.value.func.value) == 'self.vkinetic' and n.value.func.attr in retf):
            continue
        c = n.value
        meth = c.func.attr
        args = [unparse(a) for a in c.args]
        net = NETS.get(args[0]) if args else None
        jt = TYPES.get(args[1]) if len(args) > 1 else None
        om2 = any(k.arg == 'omega2' and isinstance(k.value, ast.Constant) and k.value.value is True for k in c.keywords)
        calls.append((c, meth, net, jt, om2))
        targets = n.targets[0].elts if isinstance(n.targets[0], ast.Tuple) else [n.targets[0]]
        fams = retf[meth][0]
        if len(targets) != len(fams):
            raise AnalysisError('generatematrices: %s returns %d values, %d bound' % (meth, len(fams), len(targets)))
        for t, f in zip(targets, fams):
            fam[unparse(t)] = net if f == 'net' else 'om0'
    return fam, calls


def vector_families(model):
    """families of the rate vectors built in _symmetricandescaperates (by constructor shape), in return order."""
    ci = model.cls('OnsagerCalc', 'VacancyMediated')
    fn = ci.methods.get('_symmetricandescaperates')
    if fn is None:
        raise AnalysisError('anchor vanished: VacancyMediated._symmetricandescaperates')
    fam = {}
    for n in walk_local(fn):
        if isinstance(n, ast.Assign) and isinstance(n.targets[0], ast.Name) and isinstance(n.value, ast.Call) \
                and (dotted(n.value.func) or '').endswith('zeros') and n.value.args:
            sh = n.value.args[0]
            last = sh.elts[-1] if isinstance(sh, ast.Tuple) else sh
            t = unparse(last)
            for net, f in NETS.items():
                if t == 'len(%s)' % net:
                    fam[n.targets[0].id] = f
    rets = [n for n in walk_local(fn) if isinstance(n, ast.Return) and isinstance(n.value, ast.Tuple)]
    if len(rets) != 1:
        raise AnalysisError('_symmetricandescaperates: tuple return not found')
    order = [unparse(e) for e in rets[0].value.elts]
    return [fam.get(o) for o in order], order, rets[0]


class FamilyTyper:
    """family of the last axis of an expression inside Lij."""

    def __init__(self, attr_fam, local_fam):
        self.attr_fam, self.local = attr_fam, dict(local_fam)
        self.mismatches = []

    def fam(self, e):
        if isinstance(e, ast.Attribute):
            return self.attr_fam.get(unparse(e))
        if isinstance(e, ast.Name):
            return self.local.get(e.id)
        if isinstance(e, ast.Subscript):
            sl = e.slice
            last = sl.elts[-1] if isinstance(sl, ast.Tuple) else sl
            nidx = len(sl.elts) if isinstance(sl, ast.Tuple) else 1
            if isinstance(last, ast.Slice) and last.lower is None and last.upper is None and last.step is None:
                return self.fam(e.value)
            return None
        if isinstance(e, ast.BinOp) and isinstance(e.op, (ast.Add, ast.Sub, ast.Mult)):
            a, b = self.fam(e.left), self.fam(e.right)
            if a and b and a != b:
                self.mismatches.append((e, a, b))
            return a or b
        if isinstance(e, ast.UnaryOp):
            return self.fam(e.operand)
        if isinstance(e, ast.Call) and isinstance(e.func, ast.Attribute) and e.func.attr == 'copy':
            return self.fam(e.func.value)
        return None
