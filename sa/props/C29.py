"""
C29 -- calculation-setup supercells contain the right defects and mappings (structural clauses).

Not decided: the geometric content of the generated supercells.  Decided:
  * representative pairing: in every loop of both makesupercells the tag used as key and the site / state / jump placed
    come from the same element of one zip and the same position (the first member of the class);
  * placement: defects are placed through Supercell.__setitem__ (hence setocc), never by writing occ / chemorder; every
    placement index is  invsuper . u / size  with the matrix on the left, taken from one supercell object;
  * removal-then-replacement ordering for vacancy jumps keeps the NEB atom order: both endpoints are vacated in both
    cells before the moving atom is put back, initial cell at the final site and vice versa;
  * the small-cell check of VacancyMediated.makesupercells runs over *every* kinetic state and every failing state
    reaches warnings.warn;
  * transition mappings are searched for both endpoints against all state supercells, in (initial, final) order;
  * the keys of the returned dictionary are those the automation module reads; `indices` records tagdict (and type).
"""
import ast
from ..model import ast_copy as _ast_copy

from ..model import AnalysisError, dotted, unparse, walk_local
from ..engines import pattern, owner
from ..engines.linform import canon
from ._common import resolve_local, conditions_at


def _unalias_fields(fn, name='superdict'):
    """a copy of ``fn`` in which locals that are merely the values of the literal dictionary ``name`` (``states = {}`` ...
    ``superdict = {'states': states, ...}``) are written as ``superdict['states']``: the rules below speak about the fields."""
    import copy
    from ..model import attach_parents
    lit = None
    for n in walk_local(fn):
        if isinstance(n, ast.Assign) and unparse(n.targets[0]) == name and isinstance(n.value, ast.Dict):
            lit = n
    if lit is None:
        return fn
    alias = {}
    for k, v in zip(lit.value.keys, lit.value.values):
        if isinstance(k, ast.Constant) and isinstance(v, ast.Name):
            defs = []
            for a in walk_local(fn):
                if isinstance(a, ast.Assign):
                    for t in a.targets:
                        tt = t.elts if isinstance(t, ast.Tuple) else [t]
                        vv = a.value.elts if isinstance(t, ast.Tuple) and isinstance(a.value, ast.Tuple) and len(a.value.elts) == len(tt) else [a.value] * len(tt)
                        for x, y in zip(tt, vv):
                            if isinstance(x, ast.Name) and x.id == v.id:
                                defs.append(y)
            if len(defs) == 1 and isinstance(defs[0], ast.Dict) and not defs[0].keys:
                alias[v.id] = k.value
    if not alias:
        return fn
    new = _ast_copy(fn)

    class R(ast.NodeTransformer):
        def visit_Name(self, n):
            if n.id in alias and isinstance(n.ctx, ast.Load):
                return ast.copy_location(ast.Subscript(value=ast.Name(id=name, ctx=ast.Load()), slice=ast.Constant(value=alias[n.id]), ctx=ast.Load()), n)
            return n
    for st in new.body:
        if isinstance(st, ast.Assign) and unparse(st.targets[0]) == name and isinstance(st.value, ast.Dict):
            continue
        R().visit(st)
    ast.fix_missing_locations(new)
    attach_parents(new)
    return new


def _host_fill(rep, mod, fns):
    """The reference cell that every state / transition cell is copied from is filled with *all* host atoms: the fill
    loop runs over every (chemistry, index) of the crystal (``crys.atomindices``; the calculator's own interstitial
    sublattice may be skipped) and passes that atom to ``fillperiodic``.  ``fillperiodic(ci)`` with its default
    ``Wyckoff=True`` fills only the Wyckoff set of ``ci``, so one call per chemistry leaves every other Wyckoff set of
    that species empty -- unnamed vacancies in every generated cell."""
    rep.rule('host-fill-complete', 'the reference cell is filled by a loop over every atom index of the crystal')
    for q, fn in fns:
        calls = [n for n in walk_local(fn) if isinstance(n, ast.Call) and isinstance(n.func, ast.Attribute) and n.func.attr == 'fillperiodic']
        if not calls:
            rep.undecided('%s.makesupercells: no fillperiodic call found' % q)
            continue
        for c in calls:
            loop = c
            while loop is not None and loop is not fn and not isinstance(loop, ast.For):
                loop = getattr(loop, '_parent', None)
            qual = q + '.makesupercells'
            if not isinstance(loop, ast.For) or not c.args:
                rep.undecided('%s: fillperiodic call outside a loop' % qual)
                continue
            it = unparse(resolve_local(fn, loop.iter))
            arg = unparse(c.args[0]).replace(' ', '')
            tgt = unparse(loop.target).replace(' ', '').strip('()')
            if 'atomindices' in it and arg.strip('()') == tgt:
                tnames = {x.id for x in ast.walk(loop.target) if isinstance(x, ast.Name)}

                def _own_sublattice_skip(text):
                    """`<the loop's chemistry> != self.chem` (also spelled not ... == ...): the interstitial's own sublattice"""
                    e = ast.parse(text, mode='eval').body
                    neg = False
                    while isinstance(e, ast.UnaryOp) and isinstance(e.op, ast.Not):
                        e, neg = e.operand, not neg
                    if not (isinstance(e, ast.Compare) and len(e.ops) == 1 and isinstance(e.ops[0], (ast.Eq, ast.NotEq))):
                        return False
                    sides = [unparse(e.left), unparse(e.comparators[0])]
                    if 'self.chem' not in sides:
                        return False
                    other = e.comparators[0] if sides[0] == 'self.chem' else e.left
                    if not {x.id for x in ast.walk(other) if isinstance(x, ast.Name)} <= tnames:
                        return False
                    return neg != isinstance(e.ops[0], ast.NotEq)
                extra = [x for x in conditions_at(fn, c) if not (q == 'Interstitial' and _own_sublattice_skip(x))]
                ok = not extra
                rep.ob('host-fill-complete', mod, c, '%s: for %s in %s: %s' % (qual, tgt, it, unparse(c)[:60]), ok,
                       '' if ok else 'the fill is skipped under %s: host atoms are missing from every generated cell' % '; '.join(extra),
                       engine='flow', qual=qual)
            elif ('Nchem' in it or 'range(' in it) and isinstance(c.args[0], ast.Tuple) and len(c.args[0].elts) == 2 \
                    and isinstance(c.args[0].elts[1], ast.Constant):
                rep.ob('host-fill-complete', mod, c, '%s: for %s in %s: %s' % (qual, tgt, it, unparse(c)[:60]), False,
                       'one call per chemistry with the fixed site index %s: fillperiodic fills (at most) the Wyckoff set of that one site, so '
                       'a species that occupies several Wyckoff sets is left with empty sites -- vacancies the tag does not name'
                       % unparse(c.args[0].elts[1]), engine='flow', qual=qual)
            else:
                rep.undecided('%s: fill loop over %s not recognised' % (qual, it[:60]))


def run(model, rep, tier):
    rep.explanation = __doc__.strip()
    from ._common import caches_for
    caches_for(model, rep, 'C29')
    rep.not_decided = 'that each supercell geometrically contains exactly the named defects; correctness of equivalencemap'
    rep.rule('representative-pairing', 'tag key and placed object come from the same zip element and the same index')
    rep.rule('placement', 'defects placed through __setitem__ with index invsuper . u / size of one supercell')
    rep.rule('neb-ordering', 'vacancy jumps: vacate both endpoints in both cells, then put the moving atom back crosswise')
    rep.rule('small-cell-warning', 'every kinetic state is checked and every failing one reaches warnings.warn')
    rep.rule('mapping-search', 'both endpoints are mapped against every state supercell, initial first')
    rep.rule('superdict-keys', 'returned keys and index records are what consumers read')
    mod = model.mod('OnsagerCalc')
    fi = model.func('OnsagerCalc', 'Interstitial.makesupercells')
    fv = model.func('OnsagerCalc', 'VacancyMediated.makesupercells')
    fi, fv = _unalias_fields(fi), _unalias_fields(fv)
    npair = 0
    _host_fill(rep, mod, (('Interstitial', fi), ('VacancyMediated', fv)))
    for q, fn in (('Interstitial', fi), ('VacancyMediated', fv)):
        for lp in [n for n in walk_local(fn) if isinstance(n, ast.For) and isinstance(n.iter, ast.Call) and dotted(n.iter.func) == 'zip'
                   and len(n.iter.args) == 2 and 'self.tags[' in unparse(n.iter.args[1])]:
            a, t = [unparse(x) for x in lp.target.elts]
            uses_a = [n for n in ast.walk(lp) if isinstance(n, ast.Subscript) and unparse(n.value) == a]
            uses_t = [n for n in ast.walk(lp) if isinstance(n, ast.Subscript) and unparse(n.value) == t]
            idx = {unparse(n.slice) for n in uses_a + uses_t}
            npair += 1
            ok = idx == {'0'} and uses_a and uses_t
            rep.ob('representative-pairing', mod, lp, '%s.makesupercells: for %s, %s in zip(%s): indices used %s'
                   % (q, a, t, ', '.join(unparse(x) for x in lp.iter.args), sorted(idx)), bool(ok),
                   '' if ok else 'the tag and the placed defect are different members of the class: the supercell stored under a tag is not '
                                 'the configuration the tag names', engine='flow', qual=q + '.makesupercells')
            # the class list and the tag list belong to the same kind: sitelist<->states, jumpnetwork<->transitions, etc.
        # placement index formula
        for n in walk_local(fn):
            if isinstance(n, ast.Assign):
                pairs = list(zip(n.targets[0].elts, n.value.elts)) if isinstance(n.targets[0], ast.Tuple) and isinstance(n.value, ast.Tuple) \
                    else [(n.targets[0], n.value)]
                for t, v in pairs:
                    # located by content, not by name: any value computed from a supercell's inverse matrix is a placement index
                    if isinstance(t, ast.Name) and 'invsuper' in unparse(v):
                        b = pattern.find(v, 'np.dot(_N_s.invsuper, _E_u) / _N_t.size', 'expr')
                        ok = bool(b) and b[0]['_node'] is v
                        rep.ob('placement', mod, n, '%s.makesupercells: %s = %s' % (q, t.id, unparse(v)), ok,
                               '' if ok else 'placement index is not invsuper . u / size (matrix on the left): for a non-symmetric '
                                             'supercell matrix the defect lands on another site', engine='siblings', qual=q + '.makesupercells')
        w = [x for x in owner.attr_writes(fn, {'occ', 'chemorder'})]
        rep.ob('placement', mod, fn, '%s.makesupercells places defects only through supercell[...] = species' % q, not w,
               '' if not w else 'writes %s directly' % [unparse(x[0])[:60] for x in w], engine='owner', qual=q + '.makesupercells')
    rep.floor('representative loops', npair, 5)
    # ---- NEB ordering (omega0 and omega1 blocks of the vacancy calculator)
    blocks = pattern.find(fv, '_N_a[_N_i0], _N_a[_N_i1] = (vchem, vchem)')
    nb = 0
    for b in blocks:
        blk = getattr(b['_node'], '_parent', None)
        body = [s for fld in ('body', 'orelse') for s in getattr(blk, fld, []) or []]
        if b['_node'] not in body:
            continue
        k = body.index(b['_node'])
        nxt = body[k + 1:k + 3]
        if len(nxt) < 2:
            continue
        s0 = b['_N_a']
        m1 = pattern.find(nxt[0], '_N_b[_N_i0], _N_b[_N_i1] = (vchem, vchem)', _N_i0=b['_N_i0'], _N_i1=b['_N_i1'])
        if not m1:
            continue
        nb += 1
        s1 = m1[0]['_N_b']
        ok = pattern.has(nxt[1], '_N_a[_N_i1], _N_b[_N_i0] = (self.chem, self.chem)', _N_a=s0, _N_b=s1, _N_i0=b['_N_i0'], _N_i1=b['_N_i1'])
        rep.ob('neb-ordering', mod, nxt[1], 'vacate (%s, %s) in both cells, then %s[%s] and %s[%s] receive the atom' % (b['_N_i0'], b['_N_i1'], s0, b['_N_i1'], s1, b['_N_i0']),
               ok, '' if ok else 'the moving atom is put back at the same endpoint in both cells (no transition) or in a different order',
               engine='flow', qual='VacancyMediated.makesupercells')
    rep.floor('vacancy-jump placement blocks', nb, 2)
    # ---- small-cell warning
    loops = [n for n in fv.body if isinstance(n, ast.For) and any(isinstance(c, ast.Call) and unparse(c.func) == 'warnings.warn' for c in ast.walk(n))]
    if len(loops) != 1:
        raise AnalysisError('VacancyMediated.makesupercells: small-cell check loop not found')
    lp = loops[0]
    ok = unparse(lp.iter) == 'self.kinetic.states'
    rep.ob('small-cell-warning', mod, lp, 'small-cell check iterates over %s' % unparse(lp.iter), ok,
           '' if ok else 'only a subset of the kinetic states is tested (e.g. one representative per star): a cell too small in one '
                         'direction is not detected when the representative happens to fit', engine='flow', qual='VacancyMediated.makesupercells')
    ps = unparse(lp.target)
    # the conditions holding at the warn call (nested if, or guards with continue): exactly "dx differs from its half-cell image"
    from ._common import conditions_at, resolve_local
    warn = [c for c in ast.walk(lp) if isinstance(c, ast.Call) and unparse(c.func) == 'warnings.warn']
    conds = conditions_at(fv, warn[0])
    ok = False
    if len(conds) == 1:
        t = ast.parse(sorted(conds)[0], mode='eval').body
        b = pattern.find(t, 'not np.allclose(_N_p.dx, _N_m, atol=self.threshold)', 'expr', _N_p=ps)
        if b and b[0]['_node'] is t:
            m = resolve_local(fv, ast.parse(b[0]['_N_m'], mode='eval').body)
            ok = bool(pattern.find(m, 'np.dot(_E_L, crystal.inhalf(np.dot(_E_inv, _N_p.dx)))', 'expr', _N_p=ps)) and \
                pattern.find(m, 'np.dot(_E_L, crystal.inhalf(np.dot(_E_inv, _N_p.dx)))', 'expr', _N_p=ps)[0]['_node'] is m
    rep.ob('small-cell-warning', mod, lp, 'a state whose dx differs from its half-cell image always reaches warnings.warn', ok,
           '' if ok else 'some failing state is skipped without a warning', engine='flow', qual='VacancyMediated.makesupercells')
    # ---- mapping search
    for q, fn in (('Interstitial', fi), ('VacancyMediated', fv)):
        ml = pattern.find(fn, 'for _N_s in (_N_a, _N_b):\n    _E_body'.replace('_E_body', 'pass'))
        cands = [n for n in walk_local(fn) if isinstance(n, ast.For) and isinstance(n.iter, ast.Tuple) and len(n.iter.elts) == 2
                 and all(isinstance(e, ast.Name) for e in n.iter.elts)]
        ok = False
        from ._common import update_of
        for c in cands:
            s_ = unparse(c.target)
            inner = [n for n in ast.walk(c) if isinstance(n, ast.For) and unparse(n.iter) == "superdict['states'].items()"]
            if inner:
                k_, v_ = [unparse(e) for e in inner[0].target.elts]
                em = pattern.find(inner[0], '_N_g, _N_m = _N_v.equivalencemap(_N_s)', _N_v=v_, _N_s=s_)
                rec = False
                if em:
                    want = '((%s, %s, %s),)' % (k_, em[0]['_N_g'], em[0]['_N_m'])
                    for st_ in ast.walk(inner[0]):
                        u = update_of(st_) if isinstance(st_, (ast.Assign, ast.AugAssign)) else None
                        if u and u[1] == 'Add' and unparse(u[2]) == want:
                            # accumulated directly in superdict['transmapping'][tag], or in a local that is stored there
                            rec = u[0].startswith("superdict['transmapping'][") or any(
                                isinstance(a, ast.Assign) and unparse(a.targets[0]).startswith("superdict['transmapping'][")
                                and unparse(a.value) == u[0] for a in walk_local(fn))
                    if not rec:
                        # collected in a list that is stored (as it is, or as a tuple) under superdict['transmapping'][tag]
                        triple = '(%s, %s, %s)' % (k_, em[0]['_N_g'], em[0]['_N_m'])
                        for ap in ast.walk(inner[0]):
                            if isinstance(ap, ast.Call) and isinstance(ap.func, ast.Attribute) and ap.func.attr == 'append' \
                                    and len(ap.args) == 1 and unparse(ap.args[0]) == triple:
                                lst = unparse(ap.func.value)
                                rec = any(isinstance(a, ast.Assign) and unparse(a.targets[0]).startswith("superdict['transmapping'][")
                                          and unparse(a.value) in (lst, 'tuple(%s)' % lst) for a in walk_local(fn))
                names = [e.id for e in c.iter.elts]
                # (initial, final) order: the order in which the two supercells are stored as the transition
                stored = pattern.find(fn, "superdict['transitions'][_N_t] = (_N_x, _N_y)")
                ok = bool(em) and rec and bool(stored) and all(names == [b['_N_x'], b['_N_y']] for b in stored)
        rep.ob('mapping-search', mod, fn, '%s.makesupercells: for s in (initial, final): first state supercell v with v.equivalencemap(s) -> (tag, g, mapping)' % q,
               ok, '' if ok else 'mappings are recorded in the wrong order or for the wrong supercell', engine='flow', qual=q + '.makesupercells')
    # ---- keys
    for q, fn, want in (('Interstitial', fi, 'self.tagdict[_N_k]'), ('VacancyMediated', fv, '(self.tagdicttype[_N_k], self.tagdict[_N_k])')):
        ok = pattern.has(fn, "superdict['indices'][_N_k] = %s" % want)
        rep.ob('superdict-keys', mod, fn, "%s.makesupercells: superdict['indices'][tag] = %s" % (q, want.replace('_N_', '')), ok,
               '' if ok else 'index record does not identify the class of the tag', engine='tables', qual=q + '.makesupercells')
        lit = [n for n in walk_local(fn) if isinstance(n, ast.Assign) and unparse(n.targets[0]) == 'superdict' and isinstance(n.value, ast.Dict)]
        keys = {k.value for k in lit[0].value.keys if isinstance(k, ast.Constant)} if lit else set()
        need = {'states', 'transitions', 'transmapping', 'indices'}
        rep.ob('superdict-keys', mod, lit[0] if lit else fn, '%s.makesupercells returns keys %s' % (q, sorted(keys)), need <= keys,
               '' if need <= keys else 'missing %s' % sorted(need - keys), engine='tables', qual=q + '.makesupercells')
        stored = pattern.has(fn, "superdict['states'][_N_t] = _N_s") and pattern.has(fn, "superdict['transitions'][_N_t] = (_N_a, _N_b)")
        rep.ob('superdict-keys', mod, fn, '%s.makesupercells stores states[tag] and transitions[tag] = (initial, final)' % q, stored,
               '' if stored else 'states / transitions are not stored under their tag', engine='tables', qual=q + '.makesupercells')


OC = 'onsager/OnsagerCalc.py'
BREAKERS = [
    (OC, "            i, tag = sites[0], tags[0]\n            u = basis[i]\n            super0 = basesupercell.copy()\n            ind = np.dot(super0.invsuper, u) / super0.size\n            # put an interstitial",
     "            i, tag = sites[0], tags[-1]\n            u = basis[i]\n            super0 = basesupercell.copy()\n            ind = np.dot(super0.invsuper, u) / super0.size\n            # put an interstitial", 'representative-pairing'),
    (OC, "            ind0, ind1 = np.dot(super0.invsuper, u0) / super0.size, np.dot(super1.invsuper, u1) / super0.size",
     "            ind0, ind1 = np.dot(super0.invsuper, u0) / super0.size, np.dot(u1, super1.invsuper) / super1.size", 'placement'),
    (OC, "        for PS in self.kinetic.states:\n            dxmap", "        for PS in [self.kinetic.states[star[0]] for star in self.kinetic.stars]:\n            dxmap", 'small-cell-warning'),
    (OC, "                if PS in self.thermo:\n                    failstate = 'thermodynamic range'\n                else:\n                    failstate = 'escape endpoint'",
     "                if PS in self.thermo:\n                    failstate = 'thermodynamic range'\n                else:\n                    continue", None),
    (OC, "                    super0[ind1], super1[ind0] = self.chem, self.chem\n                else:", "                    super0[ind0], super1[ind1] = self.chem, self.chem\n                else:", 'neb-ordering'),
    (OC, "                super0[ind] = chem\n                superdict['states'][tag] = super0", "                super0.occ[super0.index(ind)] = chem\n                superdict['states'][tag] = super0", 'placement'),
]
BREAKERS += [
    (OC, "            for s in (super0, super1):\n                for k, v in superdict['states'].items():\n                    # attempt the mapping\n                    g, mapping = v.equivalencemap(s)",
     "            for s in (super1, super0):\n                for k, v in superdict['states'].items():\n                    # attempt the mapping\n                    g, mapping = v.equivalencemap(s)", 'mapping-search'),
    (OC, "                        g, mapping = v.equivalencemap(s)", "                        g, mapping = v.equivalencemap(super0)", 'mapping-search'),
]
BREAKERS += [
    (OC, "        for (c, i) in self.crys.atomindices:\n            if c == self.chem: continue\n            basesupercell.fillperiodic((c, i), Wyckoff=False)  # for efficiency",
     "        for c in range(self.crys.Nchem):\n            if c == self.chem: continue\n            basesupercell.fillperiodic((c, 0))", 'host-fill-complete'),
    (OC, "        for (c, i) in self.crys.atomindices:\n            if c == self.chem: continue\n            basesupercell.fillperiodic((c, i), Wyckoff=False)  # for efficiency",
     "        for (c, i) in self.crys.atomindices:\n            if c == self.chem or i > 0: continue\n            basesupercell.fillperiodic((c, i), Wyckoff=False)  # for efficiency", 'host-fill-complete'),
]
NEUTRALS = [
    (OC, "        for (c, i) in self.crys.atomindices:\n            if c == self.chem: continue\n            basesupercell.fillperiodic((c, i), Wyckoff=False)  # for efficiency",
     "        for ci in self.crys.atomindices:\n            if ci[0] != self.chem:\n                basesupercell.fillperiodic(ci, Wyckoff=False)"),
]
