"""
C12 -- internal-friction loss tensors satisfy the relaxation sum rule (structural clauses).

Not decided: positivity of the reported rates, positive semidefiniteness and the sum rule itself (spectral identities of
computed numbers).  Decided, on the normal form of ``Interstitial.losstensors`` -- each a necessary condition of
"every reported rate is a non-zero eigenvalue of the symmetrised rate matrix" and of the sum rule:
  * the matrix that is diagonalised is assembled exactly as in ``diffusivity`` / ``elastodiffusion`` (off-diagonal +=
    symmetrised rate, diagonal -= escape rate of the initial site; engine ``siblings``, shared with C02), from the rate
    lists computed from the caller's own arguments, and it is that matrix -- unmodified between assembly and
    decomposition -- which goes to the *symmetric* eigen-solver;
  * eigenvalues are paired with eigenvector *columns* (``phi.T``), with the sign that makes relaxation rates positive;
  * the equilibrium mode is skipped by a test that is relative to the rate scale (no absolute cut-off: multiplying all
    rates by a factor must not change which modes are reported);
  * the strength of a mode is the eigenvector weighted *site by site* with sqrt(rho) and contracted over sites with the
    populated (symmetry-projected) site dipoles; the loss tensor is the tensor square F_ij F_kl of that one F;
  * modes are merged only into a mode of (numerically) equal rate, and every mode's tensor is either merged or appended
    -- none is dropped -- so the sum over reported modes is the sum over all non-equilibrium modes.
"""
import ast

from ..model import AnalysisError, dotted, unparse, walk_local
from ._common import caches_for, cache_discipline, conditions_at, update_of, alias_names


def run(model, rep, tier):
    rep.explanation = __doc__.strip()
    rep.not_decided = 'positivity of rates, positive semidefiniteness of the loss tensors, and the sum rule (numerical)'
    cache_discipline(model, rep, [('OnsagerCalc', 'Interstitial', ['losstensors'])])
    from ._common import scale_free_tests
    scale_free_tests(model, rep, [('OnsagerCalc', 'Interstitial', 'losstensors')])
    rep.rule('sibling-assembly', 'accumulation statements fed by (jump network, rates, symmetrised rates, site probability) agree '
                                 'between diffusivity / elastodiffusion / losstensors')
    rep.rule('assembly-roles', 'rate matrix: [i,j] += symmetrised rate, [i,i] -= plain rate; bias and bare diffusivity use the plain rate of the initial site')
    rep.rule('symmetric-eigensolver', 'the assembled rate matrix itself goes to the symmetric eigen-solver; eigenvalues pair with eigenvector columns')
    rep.rule('relative-zero-mode', 'the equilibrium mode is recognised relative to the rate scale, never by an absolute cut-off')
    rep.rule('mode-strength', 'F = sum over sites of eigenvector[site] * sqrt(rho[site]) * populated dipole[site]; L = F (x) F of that one F')
    rep.rule('modes-conserved', 'every non-equilibrium mode is merged into a mode of equal rate or appended; none is dropped')
    oc = model.mod('OnsagerCalc')
    ci = model.cls('OnsagerCalc', 'Interstitial')
    fn = ci.methods.get('losstensors')
    if fn is None:
        raise AnalysisError('anchor vanished: Interstitial.losstensors')
    from .C02 import _assembly, _groups, I_, J_
    from ..model import AnalysisError as _AE
    try:
        _assembly(model, rep, oc, ci)
    except _AE as e:
        if getattr(rep, 'strict', True):
            raise
        rep.undecided('%s (sibling comparison of the three assembly loops)' % e)
    q = 'Interstitial.losstensors'
    # ---- the matrix handed to the eigen-solver
    eig = [a for a in fn.body if isinstance(a, ast.Assign) and isinstance(a.value, ast.Call) and (dotted(a.value.func) or '').split('.')[-1] in ('eigh', 'eig', 'eigvalsh', 'eigvals')]
    if len(eig) != 1 or not isinstance(eig[0].targets[0], ast.Tuple) or len(eig[0].targets[0].elts) != 2:
        raise AnalysisError('%s: eigen-decomposition (values, vectors) = ...(matrix) not found' % q)
    lam, phi = [unparse(t) for t in eig[0].targets[0].elts]
    mat = unparse(eig[0].value.args[0])
    solver = dotted(eig[0].value.func)
    mats = alias_names(fn, mat)     # the matrix may have been assembled under another local name (inlined helper)
    acc = [s for s in ast.walk(fn) if isinstance(s, ast.AugAssign) and isinstance(s.target, ast.Subscript) and unparse(s.target.value) in mats]
    pos = {id(s): k for k, s in enumerate(fn.body)}
    def top(n):
        while getattr(n, '_parent', None) is not None and id(n) not in pos:
            n = n._parent
        return pos.get(id(n), -1)
    last_acc = max([top(a) for a in acc] or [-1])
    touched = [s for s in ast.walk(fn) if isinstance(s, (ast.Assign, ast.AugAssign)) and s not in acc and last_acc < top(s) <= top(eig[0]) and s is not eig[0]
               and any(isinstance(t, ast.Subscript) and unparse(t.value) in mats for t in (s.targets if isinstance(s, ast.Assign) else [s.target]))]
    # the accumulations into that matrix are, by provenance, the ones of diffusivity's rate matrix
    try:
        gl, _, _ = _groups(fn)
        gd, _, _ = _groups(ci.methods['diffusivity'])
        ref = [v for v in gd.values() if any(t.startswith('_ACC[(%s, %s,)]' % (I_, J_)) for t in v) and len(v) == 2
               and all('Mult' not in t.split('= ', 1)[1] and '*' not in t.split('= ', 1)[1] for t in v)]
        mine = [v for k, v in gl.items() if k in mats]
        if ref and mine:
            same = mine[0] in ref
            rep.ob('sibling-assembly', oc, acc[0] if acc else eig[0], 'losstensors: the matrix handed to the eigen-solver is accumulated as %s' % sorted(mine[0]),
                   same, '' if same else 'the matrix that is diagonalised is not built like the symmetrised rate matrix of diffusivity '
                   '([i,j] += symmetrised rate, [i,i] -= escape rate): %s' % sorted(ref[0]), engine='siblings', qual=q)
        else:
            rep.undecided('losstensors: accumulations into the diagonalised matrix not located by provenance')
    except _AE as e:
        rep.undecided(str(e))
    ok = solver.endswith('.eigh') and len(acc) == 2 and not touched
    rep.ob('symmetric-eigensolver', oc, eig[0], '%s <- %s(%s); %s filled by %d accumulation(s) in the jump loop, untouched afterwards'
           % ((lam, phi), solver, mat, mat, len(acc)), ok,
           '' if ok else 'the matrix that is diagonalised is not the symmetrised rate matrix as assembled (general solver, or entries rewritten '
           'between assembly and decomposition): reported rates are not its eigenvalues', engine='flow', qual=q)
    loops = [x for x in fn.body if isinstance(x, ast.For) and isinstance(x.iter, ast.Call) and dotted(x.iter.func) == 'zip' and x.lineno > eig[0].lineno
             and isinstance(x.target, ast.Tuple) and len(x.target.elts) == len(x.iter.args) >= 2 and lam in unparse(x.iter.args[0])]
    if len(loops) != 1:
        raise AnalysisError('%s: loop over the eigen-modes (zip of the eigenvalues with per-mode data) not found' % q)
    lp = loops[0]
    bound = {unparse(t): a for t, a in zip(lp.target.elts, lp.iter.args)}
    a0 = unparse(lp.iter.args[0])
    l_ = unparse(lp.target.elts[0])
    # whatever is iterated along with the eigenvalues is indexed by mode along its first axis
    env = {phi: ('site', 'mode'), rho_name(fn): ('site',)}
    for a in fn.body:
        if isinstance(a, ast.Assign) and isinstance(a.targets[0], ast.Name) and a.lineno < lp.lineno and a.targets[0].id not in env:
            ax = _axes(a.value, env)
            if ax is not None and ax != 'bad':
                env[a.targets[0].id] = ax
    okcols = a0 == '-%s' % lam
    for t, a in list(bound.items())[1:]:
        ax = _axes(a, env)
        if ax is None:
            continue
        if ax == 'bad' or not ax or ax[0] != 'mode':
            okcols = False
        else:
            env[t] = ax[1:]
    rep.ob('symmetric-eigensolver', oc, lp, 'modes: %s' % unparse(lp.iter)[:80], okcols,
           '' if okcols else 'relaxation rates are not the negated eigenvalues, or the data iterated with them are not indexed by mode '
           '(eigenvectors are the columns of the matrix returned by the solver)', engine='axes', qual=q)
    p_ = next((t for t in list(bound)[1:] if env.get(t) == ('site',)), None)
    # ---- zero-mode test
    skips = [s for s in lp.body if isinstance(s, ast.If) and s.body and isinstance(s.body[-1], ast.Continue)]
    zt = [s for s in skips if 'abs(%s)' % l_ in unparse(s.test)]
    ok = False
    txt = unparse(zt[0].test) if zt else 'none'
    ztest = None
    if len(zt) == 1:
        cands = zt[0].test.values if isinstance(zt[0].test, ast.BoolOp) and isinstance(zt[0].test.op, ast.Or) else [zt[0].test]
        cands = [c for c in cands if 'abs(%s)' % l_ in unparse(c)]
        ztest = cands[0] if len(cands) == 1 else None
    if ztest is not None and isinstance(ztest, ast.Compare) and isinstance(ztest.ops[0], (ast.Lt, ast.LtE)):
        rhs = ztest.comparators[0]
        scale = [n.id for n in ast.walk(rhs) if isinstance(n, ast.Name)]
        # the right-hand side is (constant) * (a quantity computed from the rate matrix)
        def from_matrix(nm):
            d = [a for a in fn.body if isinstance(a, ast.Assign) and unparse(a.targets[0]) == nm]
            return len(d) == 1 and any(isinstance(n, ast.Name) and n.id in (mat, lam) for n in ast.walk(d[0].value))
        ok = bool(scale) and all(from_matrix(nm) for nm in scale)
    rep.ob('relative-zero-mode', oc, zt[0] if zt else lp, 'equilibrium mode skipped when %s' % txt, ok,
           '' if ok else 'the zero mode is recognised by an absolute threshold: which modes are reported depends on the unit of the rates',
           engine='balance', qual=q)
    # ---- mode strength
    rho = None
    for a in fn.body:
        if isinstance(a, ast.Assign) and unparse(a.value).startswith('self.siteprob('):
            rho = unparse(a.targets[0])
    sd = None
    for a in fn.body:
        if isinstance(a, ast.Assign) and unparse(a.value).startswith('self.siteDipoles('):
            sd = unparse(a.targets[0])
    if rho is None or sd is None:
        raise AnalysisError('%s: site probabilities / populated site dipoles not found' % q)
    env[rho] = ('site',)
    vecnames = {phi} | ({p_} if p_ else set())
    tds = [c for c in ast.walk(fn) if isinstance(c, ast.Call) and (dotted(c.func) or '').split('.')[-1] in ('tensordot', 'einsum')
           and c.lineno > eig[0].lineno and c.args and any(isinstance(n, ast.Name) and n.id in vecnames for n in ast.walk(c.args[0]))]
    if not tds:
        raise AnalysisError('%s: contraction of the eigenvectors with the populated site dipoles not found' % q)
    for c in tds:
        okc, why = False, 'not a tensordot(weights, %s, axes=1)' % sd
        if (dotted(c.func) or '').endswith('tensordot') and len(c.args) >= 2 and unparse(c.args[1]) == sd \
                and any(k.arg == 'axes' and unparse(k.value) in ('1', '(0, 0)', '([0], [0])', '(-1, 0)', '([-1], [0])') for k in c.keywords):
            ax = _axes(c.args[0], env)
            uses_rho = any(isinstance(n, ast.Name) and n.id == rho for n in ast.walk(c.args[0])) or \
                any(isinstance(n, ast.Name) and n.id in env and n.id not in (phi, p_ or '') and 'rho' in n.id for n in ast.walk(c.args[0]))
            has_vec = any(isinstance(n, ast.Name) and n.id in (phi, p_ or '\0') for n in ast.walk(c.args[0]))
            if ax is None:
                raise AnalysisError('%s: axes of %s not resolved' % (q, unparse(c.args[0])[:60]))
            okc = ax != 'bad' and ax[-1:] == ('site',) and uses_rho and has_vec
            why = 'weights %s have axes %s' % (unparse(c.args[0])[:50], ax)
        rep.ob('mode-strength', oc, c, 'F = %s  [%s]' % (unparse(c)[:80], why), okc,
               '' if okc else 'the mode strength is not the site-by-site product eigenvector * sqrt(rho) contracted over sites with the populated '
               'site dipoles (a weight applied along the mode axis, or raw dipoles, gives wrong strengths whenever site probabilities differ)',
               engine='axes', qual=q)
    # tensor square of one F
    sq = [s for s in ast.walk(lp) if isinstance(s, ast.Assign) and isinstance(s.targets[0], ast.Subscript) and isinstance(s.value, ast.BinOp)
          and isinstance(s.value.op, ast.Mult) and isinstance(s.value.left, ast.Subscript) and isinstance(s.value.right, ast.Subscript)]
    ok = False
    if len(sq) == 1:
        l, r = sq[0].value.left, sq[0].value.right
        idx = [unparse(e) for e in sq[0].targets[0].slice.elts] if isinstance(sq[0].targets[0].slice, ast.Tuple) else []
        li = [unparse(e) for e in l.slice.elts] if isinstance(l.slice, ast.Tuple) else []
        ri = [unparse(e) for e in r.slice.elts] if isinstance(r.slice, ast.Tuple) else []
        ok = unparse(l.value) == unparse(r.value) and len(idx) == 4 and li == idx[:2] and ri == idx[2:]
    rep.ob('mode-strength', oc, sq[0] if sq else lp, 'L[i,j,k,l] = F[i,j] * F[k,l] with the same F', ok,
           '' if ok else 'the loss tensor is not the tensor square of the mode strength (pair symmetry / positive semidefiniteness are lost)',
           engine='flow', qual=q)
    # ---- conservation of modes
    Lname = unparse(sq[0].targets[0].value) if sq else None
    res = [r for r in walk_local(fn) if isinstance(r, ast.Return) and r.value is not None]
    out = unparse(res[-1].value) if res else None
    merges = [s for s in ast.walk(lp) if update_of(s) and update_of(s)[1] == 'Add' and Lname and unparse(update_of(s)[2]) == Lname]
    apps = [c for c in ast.walk(lp) if isinstance(c, ast.Call) and isinstance(c.func, ast.Attribute) and c.func.attr == 'append'
            and unparse(c.func.value) == out and Lname and Lname in unparse(c)]
    ok = len(merges) == 1 and len(apps) == 1
    if ok:
        cm = conditions_at(fn, merges[0])
        ok = any('np.isclose(' in c and l_ in c for c in cm) and unparse(apps[0].args[0]) in ('(%s, %s)' % (l_, Lname),)
        ca = conditions_at(fn, apps[0]._parent)
        flags = [c[4:] for c in ca if c.startswith('not ')]
        blk = getattr(merges[0], '_parent', None)
        ok = ok and any(any(isinstance(s, ast.Assign) and unparse(s.targets[0]) == f and unparse(s.value) == 'True' for s in getattr(blk, 'body', []))
                        for f in flags)
    rep.ob('modes-conserved', oc, lp, 'mode tensor: merged (+=) into an entry of numerically equal rate, else appended as (rate, tensor)', ok,
           '' if ok else 'a mode\'s loss tensor can be dropped, counted twice, or merged into a mode of another rate: the tensors no longer sum to '
           'the fluctuation of the site dipole', engine='flow', qual=q)


def rho_name(fn):
    for a in fn.body:
        if isinstance(a, ast.Assign) and unparse(a.value).startswith('self.siteprob('):
            return unparse(a.targets[0])
    raise AnalysisError('Interstitial.losstensors: site probabilities not found')


def _axes(e, env):
    """axis names of an array expression over {'site', 'mode'} (None: unknown, 'bad': an elementwise product whose trailing axes
    disagree -- numpy broadcasts it silently when the matrix is square)."""
    if isinstance(e, ast.Name):
        return env.get(e.id)
    if isinstance(e, ast.UnaryOp):
        return _axes(e.operand, env)
    if isinstance(e, ast.Attribute) and e.attr == 'T':
        a = _axes(e.value, env)
        return a if a in (None, 'bad') else tuple(reversed(a))
    if isinstance(e, ast.Call):
        d = (dotted(e.func) or '')
        last = d.split('.')[-1]
        if last in ('sqrt', 'abs', 'array', 'asarray', 'copy', 'conj', 'real') and e.args:
            return _axes(e.args[0], env)
        if last == 'transpose' and (e.args or isinstance(e.func, ast.Attribute)):
            a = _axes(e.args[0] if e.args and d.startswith('np.') else e.func.value, env)
            return a if a in (None, 'bad') else tuple(reversed(a))
        if last == 'tensordot' and len(e.args) >= 2:
            a = _axes(e.args[0], env)
            if a in (None, 'bad'):
                return a
            return a[:-1] + ('cart', 'cart')
        return None
    if isinstance(e, ast.Subscript):
        a = _axes(e.value, env)
        if a in (None, 'bad'):
            return a
        idx = e.slice.elts if isinstance(e.slice, ast.Tuple) else [e.slice]
        out, k = [], 0
        for x in idx:
            if isinstance(x, ast.Constant) and x.value is None or unparse(x) == 'np.newaxis':
                out.append('one')
            elif isinstance(x, ast.Slice):
                if k < len(a):
                    out.append(a[k])
                k += 1
            else:
                k += 1
        return tuple(out) + tuple(a[k:])
    if isinstance(e, ast.BinOp) and isinstance(e.op, (ast.Mult, ast.Div, ast.Add, ast.Sub)):
        a, b = _axes(e.left, env), _axes(e.right, env)
        if a == 'bad' or b == 'bad':
            return 'bad'
        if a is None and b is None:
            return None
        if a is None:
            return b if not isinstance(e.left, (ast.Constant,)) and False else b
        if b is None:
            return a
        # numpy broadcasting: align trailing axes
        n = max(len(a), len(b))
        aa = ('one',) * (n - len(a)) + tuple(a)
        bb = ('one',) * (n - len(b)) + tuple(b)
        out = []
        for x, y in zip(aa, bb):
            if x == y or y == 'one':
                out.append(x)
            elif x == 'one':
                out.append(y)
            else:
                return 'bad'
        return tuple(out)
    return None


OC = 'onsager/OnsagerCalc.py'
BREAKERS = [
    (OC, "        lamb, phi = np.linalg.eigh(omega_ij)", "        lamb, phi = np.linalg.eig(omega_ij)", 'symmetric-eigensolver'),
    (OC, "        for l, p in zip(-lamb, phi.T):", "        for l, p in zip(-lamb, phi):", 'symmetric-eigensolver'),
    (OC, "            if abs(l) < 1e-8*averate: continue", "            if abs(l) < 1e-8: continue", 'relative-zero-mode'),
    (OC, "            F = np.tensordot(p*sqrtrho, sitedipoles, axes=1)", "            F = np.tensordot(p, sitedipoles, axes=1)", 'mode-strength'),
    (OC, "            F = np.tensordot(p*sqrtrho, sitedipoles, axes=1)", "            F = np.tensordot(p*sqrtrho, dipole, axes=1)", 'mode-strength'),
    (OC, "                aa[i, j, k, l] = a[i, j] * a[k, l]", "                aa[i, j, k, l] = a[i, k] * a[j, l]", 'mode-strength'),
    (OC, "                if np.isclose(lamb0, l):\n                    L0 += L\n                    found = True", "                if np.isclose(lamb0, l):\n                    found = True", 'modes-conserved'),
    (OC, "        lamb, phi = np.linalg.eigh(omega_ij)\n        averate", "        omega_ij[np.diag_indices(self.N)] = -np.dot(omega_ij, sqrtrho)/sqrtrho\n        lamb, phi = np.linalg.eigh(omega_ij)\n        averate", 'symmetric-eigensolver'),
]
BREAKERS.append((OC, "        for l, p in zip(-lamb, phi.T):\n", "        Fmodes = np.tensordot((phi*sqrtrho).T, sitedipoles, axes=1)\n        for l, p in zip(-lamb, phi.T):\n", 'mode-strength'))
NEUTRALS = [
    (OC, "            F = np.tensordot(p*sqrtrho, sitedipoles, axes=1)", "            F = np.tensordot(sqrtrho*p, sitedipoles, axes=1)"),
    (OC, "        for l, p in zip(-lamb, phi.T):\n", "        Fmodes = np.tensordot(phi.T*sqrtrho, sitedipoles, axes=1)\n        for l, p in zip(-lamb, phi.T):\n"),
    (OC, "        for l, p in zip(-lamb, phi.T):\n", "        Fmodes = np.tensordot((phi*sqrtrho[:, None]).T, sitedipoles, axes=1)\n        for l, p in zip(-lamb, phi.T):\n"),
]
