"""
E4 ``parity`` -- writer/reader and constructor/loader agreement.
"""
import ast

from ..model import AnalysisError, dotted, unparse, walk_local


def _targets(n):
    ts = []
    if isinstance(n, ast.Assign):
        for t in n.targets:
            ts.extend(t.elts if isinstance(t, (ast.Tuple, ast.List)) else [t])
    elif isinstance(n, (ast.AugAssign, ast.AnnAssign)):
        ts = [n.target]
    return ts


def class_tuple(model, ci, name):
    """literal tuple/list of constants assigned at class level (searching the MRO)."""
    for c in model.mro(ci):
        v = c.class_assigns.get(name)
        if isinstance(v, (ast.Tuple, ast.List)):
            return [e.value for e in v.elts if isinstance(e, ast.Constant)]
    return None


def attrs_assigned_on(model, ci, fn, obj):
    """{attr: node} assigned on the local object ``obj`` inside ``fn`` (setattr loops over a class tuple
    are expanded)."""
    out = {}
    for n in walk_local(fn):
        for t in _targets(n):
            if isinstance(t, ast.Attribute) and isinstance(t.value, ast.Name) and t.value.id == obj:
                out.setdefault(t.attr, n)
        if isinstance(n, ast.Call) and dotted(n.func) == 'setattr' and len(n.args) >= 2 \
                and isinstance(n.args[0], ast.Name) and n.args[0].id == obj:
            a = n.args[1]
            if isinstance(a, ast.Constant):
                out.setdefault(a.value, n)
            elif isinstance(a, ast.Name):
                lp = n
                while lp is not None and not (isinstance(lp, ast.For) and isinstance(lp.target, ast.Name)
                                              and lp.target.id == a.id):
                    lp = getattr(lp, '_parent', None)
                if lp is not None:
                    d = dotted(lp.iter) or ''
                    tup = class_tuple(model, ci, d.split('.')[-1]) if d else None
                    if tup is None:
                        raise AnalysisError('setattr loop over %s cannot be expanded' % unparse(lp.iter))
                    for x in tup:
                        out.setdefault(x, n)
    return out


def self_calls(fn, selfname='self'):
    """names of methods called as self.m(...) in fn."""
    out = set()
    for n in walk_local(fn):
        if isinstance(n, ast.Call) and isinstance(n.func, ast.Attribute) and isinstance(n.func.value, ast.Name) \
                and n.func.value.id == selfname:
            out.add(n.func.attr)
    return out


def ctor_path(model, ci, start='__init__'):
    """methods reachable from ``start`` through self.m() calls (names)."""
    seen, todo = set(), [start]
    while todo:
        m = todo.pop()
        if m in seen:
            continue
        owner, fn = model.find_method(ci, m)
        if fn is None:
            continue
        seen.add(m)
        todo.extend(self_calls(fn, fn.args.args[0].arg if fn.args.args else 'self'))
    return seen


def assigned_on_self(model, ci, methods):
    out = {}
    for m in methods:
        owner, fn = model.find_method(ci, m)
        if fn is None or not fn.args.args:
            continue
        s = fn.args.args[0].arg
        for a, n in attrs_assigned_on(model, ci, fn, s).items():
            out.setdefault(a, (m, n))
    return out


def self_reads(fn):
    """{attr: node} read as self.X (Load) in fn, excluding reads protected by getattr(self,'X',d) /
    hasattr(self,'X') (those tolerate absence)."""
    if not fn.args.args:
        return {}
    s = fn.args.args[0].arg
    out = {}
    for n in ast.walk(fn):
        if isinstance(n, ast.Attribute) and isinstance(n.value, ast.Name) and n.value.id == s \
                and isinstance(n.ctx, ast.Load):
            par = getattr(n, '_parent', None)
            if isinstance(par, ast.Call) and par.func is n:
                continue  # method call, not a data attribute read
            out.setdefault(n.attr, n)
    return out


# ---------------------------------------------------------------- HDF5 keys
def _fold(expr, env):
    """partial evaluation of a key expression to a str when possible, else canonical text."""
    if isinstance(expr, ast.Constant) and isinstance(expr.value, str):
        return expr.value
    if isinstance(expr, ast.Name) and expr.id in env:
        return env[expr.id]
    if isinstance(expr, ast.BinOp) and isinstance(expr.op, ast.Add):
        a, b = _fold(expr.left, env), _fold(expr.right, env)
        if a is not None and b is not None:
            return a + b
    return None


def hdf5_keys(model, ci, fn, group, mode):
    """keys of HDF5 group variable ``group`` that ``fn`` writes (mode 'w') or reads (mode 'r').
    returns {key_text: node}; symbolic keys are kept as '<pattern: text>'.  Also handles
    create_group(k), `k in group`, group.attrs[k]."""
    out = {}
    local_env = {}
    # single-assignment string locals (TaylorTag = 'T3D' if ... else 'T2D' stays symbolic)
    for n in walk_local(fn):
        if isinstance(n, ast.Assign) and len(n.targets) == 1 and isinstance(n.targets[0], ast.Name) \
                and isinstance(n.value, ast.Constant) and isinstance(n.value.value, str):
            local_env[n.targets[0].id] = n.value.value

    def envs_for(node):
        """list of environments: expansion of enclosing `for v in <class tuple>` loops."""
        envs = [dict(local_env)]
        lp = getattr(node, '_parent', None)
        while lp is not None and lp is not fn:
            if isinstance(lp, ast.For) and isinstance(lp.target, ast.Name):
                d = dotted(lp.iter) or ''
                tup = class_tuple(model, ci, d.split('.')[-1]) if d and d.split('.')[0] in ('self', 'cls') else None
                if tup is not None:
                    envs = [dict(e, **{lp.target.id: x}) for e in envs for x in tup]
            lp = getattr(lp, '_parent', None)
        return envs

    def iterates_group(kexpr, node):
        # `for k, c in group.items(): group[k]` reads whatever exists: no key obligation
        if not isinstance(kexpr, ast.Name):
            return False
        lp = getattr(node, '_parent', None)
        while lp is not None and lp is not fn:
            if isinstance(lp, ast.For) and kexpr.id in [x.id for x in ast.walk(lp.target) if isinstance(x, ast.Name)]:
                it = lp.iter
                if isinstance(it, ast.Call) and isinstance(it.func, ast.Attribute) and it.func.attr in ('items', 'keys') \
                        and isinstance(it.func.value, ast.Name) and it.func.value.id == group:
                    return True
                if isinstance(it, ast.Name) and it.id == group:
                    return True
            lp = getattr(lp, '_parent', None)
        return False

    # symbolic keys are compared by what they compute, not by how the local holding them is called: a local bound once is
    # replaced by its definition and loop / comprehension variables are anonymised
    single = {}
    loopvars = set()
    for n in walk_local(fn):
        if isinstance(n, ast.Assign) and len(n.targets) == 1 and isinstance(n.targets[0], ast.Name):
            single.setdefault(n.targets[0].id, []).append(n.value)
        if isinstance(n, (ast.For, ast.comprehension)):
            loopvars |= {x.id for x in ast.walk(n.target) if isinstance(x, ast.Name)}
    single = {k: v[0] for k, v in single.items() if len(v) == 1 and k not in loopvars and k not in local_env}

    def _derived(e, depth=0):
        """the definition depends on a loop variable (a per-item key such as ``tag + 'jump-{}'.format(i)``); a local that
        only names a parameter of the format (``TaylorTag = 'T3D' if ... else 'T2D'``) stays symbolic on both sides"""
        for x in ast.walk(e):
            if isinstance(x, ast.Name) and (x.id in loopvars or (x.id in single and depth < 4 and _derived(single[x.id], depth + 1))):
                return True
        return False

    class _Canon(ast.NodeTransformer):
        def __init__(self, depth=0):
            self.depth = depth

        def visit_Name(self, n):
            if n.id in loopvars:
                return ast.copy_location(ast.Name(id='_', ctx=ast.Load()), n)
            if n.id in single and self.depth < 4 and _derived(single[n.id]):
                import copy
                return _Canon(self.depth + 1).visit(copy.deepcopy(single[n.id]))
            return n

    def pattern_text(kexpr):
        import copy
        return unparse(_Canon().visit(copy.deepcopy(kexpr)))

    def record(kexpr, node, prefix=''):
        if iterates_group(kexpr, node) or (isinstance(kexpr, ast.Name) and prefix == 'dataset-attr:' and False):
            return
        for env in envs_for(node):
            k = _fold(kexpr, env)
            if k is None:
                k = '<pattern: %s>' % pattern_text(kexpr)
            out.setdefault(prefix + k, node)

    for n in walk_local(fn):
        if isinstance(n, ast.Subscript):
            base = n.value
            is_attrs = isinstance(base, ast.Attribute) and base.attr == 'attrs'
            root = base.value if is_attrs else base
            # group['k'].attrs['n'] -> root is a Subscript of group: treat as dataset attribute
            ds_attr = is_attrs and isinstance(root, ast.Subscript) and isinstance(root.value, ast.Name) \
                and root.value.id == group
            if ds_attr:
                if (mode == 'w') == isinstance(n.ctx, ast.Store):
                    record(n.slice, n, prefix='dataset-attr:')
                continue
            if isinstance(root, ast.Name) and root.id == group and isinstance(getattr(n, '_parent', None), ast.Attribute) \
                    and n._parent.attr == 'attrs':
                continue  # group[k] used only to reach its .attrs
            if isinstance(root, ast.Name) and root.id == group:
                is_store = isinstance(n.ctx, ast.Store)
                if (mode == 'w') == is_store:
                    # a load of group[k] inside the writer used only to reach .attrs is not a data read
                    record(n.slice, n, prefix='attr:' if is_attrs else '')
        if isinstance(n, ast.Call) and isinstance(n.func, ast.Attribute) and isinstance(n.func.value, ast.Name) \
                and n.func.value.id == group and n.func.attr in ('create_group', 'create_dataset', 'require_group') \
                and n.args and mode == 'w':
            record(n.args[0], n)
        if isinstance(n, ast.Compare) and len(n.ops) == 1 and isinstance(n.ops[0], (ast.In, ast.NotIn)) \
                and isinstance(n.comparators[0], ast.Name) and n.comparators[0].id == group and mode == 'r':
            record(n.left, n)
    return out
