"""
E6 ``eqhash`` -- value-type laws that are visible in the shape of ``__eq__``/``__ne__``/``__hash__``.
"""
import ast

from ..model import dotted, unparse, walk_local

TOL_FUNCS = {'allclose', 'isclose'}
EXACT_WRAPPERS = {'all', 'array_equal'}


def _self_other_field(node, selfname='self', othername='other'):
    """(who, field) when node is self.F / other.F (possibly self.F.keys(), self.F[k])."""
    n = node
    while isinstance(n, (ast.Call, ast.Subscript)) or (isinstance(n, ast.Attribute) and not isinstance(n.value, ast.Name)):
        n = n.func if isinstance(n, ast.Call) else n.value
    if isinstance(n, ast.Attribute) and isinstance(n.value, ast.Name) and n.value.id in (selfname, othername):
        return n.value.id, n.attr
    return None


class EqInfo:
    def __init__(self):
        self.exact = {}  # field -> construct text
        self.tolerance = {}  # field -> construct text
        self.other_calls = []  # method calls that take part in the comparison
        self.isinstance_guard = False
        self.unrecognised = []


def analyse_eq(fn):
    """classify the comparisons made by an ``__eq__``."""
    info = EqInfo()
    args = [a.arg for a in fn.args.args]
    if len(args) != 2:
        info.unrecognised.append('unexpected signature')
        return info
    selfname, othername = args
    aliases = {}  # local name -> (who, field) for 'for k, v in self.F.items()'

    def is_isinstance(n):
        return isinstance(n, ast.Call) and dotted(n.func) == 'isinstance' and len(n.args) == 2 \
            and isinstance(n.args[0], ast.Name) and n.args[0].id == othername

    def classify(n, negated=False):
        """n is one atomic condition."""
        if isinstance(n, ast.UnaryOp) and isinstance(n.op, ast.Not):
            return classify(n.operand, not negated)
        if is_isinstance(n):
            return 'isinstance'
        if isinstance(n, ast.Attribute) and isinstance(n.value, ast.Name) and n.value.id in (selfname, othername):
            return 'branch'  # `if self.flag:` selects a further comparison, compares nothing itself
        if isinstance(n, ast.BoolOp):
            for v in n.values:
                classify(v, negated)
            return 'bool'
        if isinstance(n, ast.Compare) and len(n.ops) == 1 and isinstance(n.ops[0], (ast.Eq, ast.NotEq)):
            l, r = n.left, n.comparators[0]
            fl, fr = _self_other_field(l, selfname, othername), _self_other_field(r, selfname, othername)
            for x in (l, r):
                if isinstance(x, ast.Name) and x.id in aliases:
                    if x is l:
                        fl = aliases[x.id]
                    else:
                        fr = aliases[x.id]
            if fl and fr and fl[1] == fr[1] and {fl[0], fr[0]} == {selfname, othername}:
                info.exact[fl[1]] = unparse(n)
                return 'exact'
        if isinstance(n, ast.Call):
            d = dotted(n.func) or ''
            last = d.split('.')[-1]
            if last in EXACT_WRAPPERS and n.args:
                return classify(n.args[0], negated)
            if last in TOL_FUNCS and len(n.args) >= 2:
                fl, fr = _self_other_field(n.args[0], selfname, othername), \
                    _self_other_field(n.args[1], selfname, othername)
                if fl and fr and fl[1] == fr[1] and {fl[0], fr[0]} == {selfname, othername}:
                    info.tolerance[fl[1]] = unparse(n)
                    return 'tol'
            if isinstance(n.func, ast.Attribute) and isinstance(n.func.value, ast.Name) \
                    and n.func.value.id in (selfname, othername):
                info.other_calls.append(unparse(n))
                return 'call'
        info.unrecognised.append(unparse(n))
        return None

    body = [st for st in fn.body if not (isinstance(st, ast.Expr) and isinstance(st.value, ast.Constant))]
    first = True
    for st in body:
        if isinstance(st, ast.Return):
            v = st.value
            if isinstance(v, ast.Constant):
                continue
            conj = v.values if isinstance(v, ast.BoolOp) and isinstance(v.op, ast.And) else [v]
            for i, c in enumerate(conj):
                k = classify(c)
                if k == 'isinstance' and first and i == 0:
                    info.isinstance_guard = True
            first = False
        elif isinstance(st, ast.If):
            # 'if <differs>: return False'
            k = classify(st.test)
            if first and isinstance(st.test, ast.UnaryOp) and isinstance(st.test.op, ast.Not) \
                    and is_isinstance(st.test.operand):
                info.isinstance_guard = True
            first = False
            for sub in st.body:
                if isinstance(sub, ast.If):
                    classify(sub.test)
        elif isinstance(st, ast.For):
            # for k, v in self.F.items(): if other.F[k] != v: return False
            it = st.iter
            f = _self_other_field(it, selfname, othername)
            if f and isinstance(st.target, ast.Tuple):
                for e in st.target.elts:
                    if isinstance(e, ast.Name):
                        aliases[e.id] = f
            for sub in ast.walk(st):
                if isinstance(sub, ast.If):
                    classify(sub.test)
            first = False
        else:
            first = False
    return info


def ne_shape(fn):
    """'neg-eq' when __ne__ is exactly the negation of self.__eq__(other) / self == other;
    otherwise a description of what it is."""
    args = [a.arg for a in fn.args.args]
    body = [st for st in fn.body if not (isinstance(st, ast.Expr) and isinstance(st.value, ast.Constant))]
    if len(args) != 2 or len(body) != 1 or not isinstance(body[0], ast.Return):
        return 'unrecognised body'
    v = body[0].value
    if isinstance(v, ast.UnaryOp) and isinstance(v.op, ast.Not):
        c = v.operand
        if isinstance(c, ast.Call) and len(c.args) == 1 and isinstance(c.args[0], ast.Name) and c.args[0].id == args[1]:
            if isinstance(c.func, ast.Attribute) and c.func.attr == '__eq__' and isinstance(c.func.value, ast.Name) \
                    and c.func.value.id == args[0]:
                return 'neg-eq'
            return 'negates %s, which is not %s.__eq__' % (unparse(c.func), args[0])
        if isinstance(c, ast.Compare) and len(c.ops) == 1 and isinstance(c.ops[0], ast.Eq) \
                and unparse(c.left) == args[0] and unparse(c.comparators[0]) == args[1]:
            return 'neg-eq'
        return 'negates something else: ' + unparse(c)
    if isinstance(v, ast.Compare) and len(v.ops) == 1 and isinstance(v.ops[0], ast.NotEq):
        return 'recursive !='
    return 'not a negation: ' + unparse(v)


def hash_fields(fn):
    """attributes of self read by __hash__."""
    selfname = fn.args.args[0].arg
    out = {}
    for n in walk_local(fn):
        if isinstance(n, ast.Attribute) and isinstance(n.value, ast.Name) and n.value.id == selfname \
                and isinstance(n.ctx, ast.Load):
            out[n.attr] = n
    return out
