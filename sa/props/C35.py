"""
C35 -- the compiled sampler behaves exactly like the reference sampler (structural clauses).

Decides for ``cluster.MonteCarloSampler_jit`` / ``MonteCarloSampler_param`` / ``MonteCarloSamplerSpec``:
  * tables: spec fields = __init__ parameters = attributes assigned (each from the parameter of the same name)
    = keys produced by MonteCarloSampler_param; copy() passes every field, in __init__ order, from the attribute
    of the same name;
  * resolve: every attribute used in the jit class is a spec field or a method; every external name used inside
    it exists in the installed numpy/numba (a missing name makes the method impossible to compile);
  * siblings: reference and compiled class expose start, E, transitions, deltaE_trial, update; both count
    clustercount with the same sign under the same occupancy value in start, and flip it with the same signs in
    update; the compiled update's set bookkeeping is a swap (invariant under exchanging the two sites together
    with the two sets); MonteCarloSampler_param's initialised branch builds the sets like the compiled start;
  * batched moves: MCmoves draws the site to occupy from the unoccupied set and the site to vacate from the
    occupied set, evaluates deltaE_trial and, if accepted, calls update with the very same pair.
Not decided: equality of traces (that is an execution).
"""
import ast

from ..model import AnalysisError, dotted, unparse, walk_local
from ..engines import resolve, owner
from ..engines.linform import rename, swap_sigma

METHODS = ('start', 'E', 'transitions', 'deltaE_trial', 'update')


def _once_per_interaction(rep, mod, classes):
    """The trial energy change adds or removes each interaction's value at most once: the statements that move
    ``interactvalue[n]`` into the running sum sit in a loop over *distinct* interaction numbers (``range(..)``, the items /
    keys of the dictionary of changed counts), not over the entries of a site's interaction list, which names an
    interaction once per cluster site that lands on the supercell site (twice for a cluster that wraps onto the same site
    in a thin cell -- ``start`` / ``update`` rely on that multiplicity for the counts)."""
    rep.rule('energy-once-per-interaction', 'deltaE_trial visits each interaction number once when summing interaction values')
    for ci in classes:
        fn = ci.methods.get('deltaE_trial')
        if fn is None:
            raise AnalysisError('anchor vanished: %s.deltaE_trial' % ci.name)
        q = '%s.deltaE_trial' % ci.name
        adds = [st for st in walk_local(fn) if isinstance(st, ast.AugAssign) and isinstance(st.target, ast.Name)
                and 'interactvalue' in unparse(st.value)]
        if not adds:
            rep.undecided('%s: the accumulation of interaction values was not located' % q)
            continue
        for st in adds:
            idx = [x for x in ast.walk(st.value) if isinstance(x, ast.Subscript) and unparse(x.value).endswith('interactvalue')]
            if not idx or not isinstance(idx[0].slice, ast.Name):
                rep.undecided('%s: index of %s not a plain name' % (q, unparse(st.value)[:40]))
                continue
            n = idx[0].slice.id
            # how is n bound at this statement?  innermost enclosing for-target, else an assignment in the enclosing loop body
            lp = getattr(st, '_parent', None)
            verdict = None
            while lp is not None and lp is not fn:
                if isinstance(lp, ast.For):
                    tn = {x.id for x in ast.walk(lp.target) if isinstance(x, ast.Name)}
                    if n in tn:
                        it = unparse(lp.iter)
                        if it.startswith('range(') or it.endswith(('.items()', '.keys()')) or it.startswith(('set(', 'sorted(set(', 'np.unique(', 'np.nonzero(', 'np.flatnonzero(')):
                            verdict = (True, 'for %s in %s' % (unparse(lp.target), it))
                        elif 'siteinteract' in it or 'interact[' in it:
                            verdict = (False, 'for %s in %s' % (unparse(lp.target), it))
                        break
                    asg = [a for a in lp.body if isinstance(a, ast.Assign) and len(a.targets) == 1 and unparse(a.targets[0]) == n]
                    if asg:
                        v = unparse(asg[0].value)
                        if 'siteinteract' in v:
                            verdict = (False, '%s = %s inside for %s in %s' % (n, v, unparse(lp.target), unparse(lp.iter)))
                        break
                lp = getattr(lp, '_parent', None)
            if verdict is None:
                rep.undecided('%s: how the interaction number %s of `%s` is enumerated was not recognised' % (q, n, unparse(st)[:50]))
                continue
            ok, how = verdict
            rep.ob('energy-once-per-interaction', mod, st, '%s: %s  [%s]' % (q, unparse(st), how), ok,
                   '' if ok else 'the value is added once per entry of a site\'s interaction list: an interaction listed twice for the site (a '
                   'cluster that wraps onto the same supercell site) is counted twice, while the reference counts it once',
                   engine='siblings', qual=q)


def run(model, rep, tier):
    rep.explanation = __doc__.strip()
    from ._common import caches_for
    caches_for(model, rep, 'C35')
    rep.not_decided = 'equality of energies / transitions / Metropolis traces between the two samplers'
    rep.rule('spec-table', 'spec fields = __init__ parameters = assigned attributes = MonteCarloSampler_param keys')
    rep.rule('copy-order', 'copy() passes self.<field>[.copy()] for every field in __init__ order')
    rep.rule('attrs-in-spec', 'every self.<attr> used in the jit class is a spec field or a method')
    rep.rule('external-names', 'external attribute chains inside the jit class exist in the installed library')
    rep.rule('method-sets', 'reference and compiled class expose the same sampler methods')
    rep.rule('sign-agreement', 'clustercount sign conventions of start/update agree between the two classes')
    rep.rule('swap-bookkeeping', 'compiled update exchanges the two sites between the sets symmetrically')
    rep.rule('batched-metropolis', 'MCmoves: trial pair drawn from the right sets, same pair evaluated and applied')
    mod = model.mod('cluster')
    jit = model.cls('cluster', 'MonteCarloSampler_jit')
    ref = model.cls('cluster', 'MonteCarloSampler')
    _once_per_interaction(rep, mod, (ref, jit))
    spec_node = mod.constants.get('MonteCarloSamplerSpec')
    if not isinstance(spec_node, ast.List):
        raise AnalysisError('anchor vanished: MonteCarloSamplerSpec list')
    spec = [e.elts[0].value for e in spec_node.elts if isinstance(e, ast.Tuple) and isinstance(e.elts[0], ast.Constant)]
    decos = jit.decorators  # noqa
    dec = [unparse(d) for d in jit.node.decorator_list]
    ok = any(d.startswith('jitclass(') and 'MonteCarloSamplerSpec' in d for d in dec)
    rep.ob('spec-table', mod, jit.node, 'MonteCarloSampler_jit decorated with jitclass(MonteCarloSamplerSpec)', ok,
           '' if ok else 'the class is not compiled with this spec', engine='tables')
    init = jit.methods.get('__init__')
    if init is None:
        raise AnalysisError('anchor vanished: MonteCarloSampler_jit.__init__')
    params = [a.arg for a in init.args.args[1:]]
    rep.floor('spec fields', len(spec), 18)
    # a field that is not a constructor parameter is internal state: it has to be given a value by __init__ (checked below)
    internal = [f for f in spec if f not in params]
    for f in spec:
        if f in params:
            rep.ob('spec-table', mod, spec_node, 'spec field %s is an __init__ parameter' % f, True, engine='tables')
    for p in params:
        rep.ob('spec-table', mod, init, '__init__ parameter %s is a spec field' % p, p in spec,
               '' if p in spec else 'parameter %s has no typed field: the jit class cannot store it' % p, engine='tables')
    assigned = {}
    for n in init.body:
        if isinstance(n, ast.Assign) and isinstance(n.targets[0], ast.Attribute) and unparse(n.targets[0].value) == 'self':
            assigned[n.targets[0].attr] = n
    for f in internal:
        n = assigned.get(f)
        rep.ob('spec-table', mod, n or init, 'internal field %s is initialised by __init__: %s' % (f, unparse(n.value)[:40] if n is not None else '<missing>'),
               n is not None, '' if n is not None else 'field %s is neither a constructor parameter nor given a value in __init__: reading it '
               'returns uninitialised memory in the compiled class' % f, engine='tables')
    for f in spec:
        if f in internal:
            continue
        n = assigned.get(f)
        ok = n is not None and unparse(n.value) == f
        rep.ob('spec-table', mod, n or init, 'self.%s = %s' % (f, unparse(n.value) if n is not None else '<missing>'), ok,
               '' if ok else 'field %s is not initialised from the parameter of the same name' % f, engine='tables')
    # MonteCarloSampler_param keys
    pf = model.func('cluster', 'MonteCarloSampler_param')
    keys = {}
    for n in walk_local(pf):
        if isinstance(n, ast.Assign) and isinstance(n.targets[0], ast.Subscript) and unparse(n.targets[0].value) == 'param' \
                and isinstance(n.targets[0].slice, ast.Constant):
            keys.setdefault(n.targets[0].slice.value, n)
    for p in params:
        rep.ob('spec-table', mod, keys.get(p, pf), "MonteCarloSampler_param provides '%s'" % p, p in keys,
               '' if p in keys else "MonteCarloSampler_jit(**param) lacks '%s': TypeError" % p, engine='tables')
    for k in keys:
        rep.ob('spec-table', mod, keys[k], "param key '%s' is accepted by __init__" % k, k in params,
               '' if k in params else "unexpected keyword '%s'" % k, engine='tables')
    # each key is assigned from the variable/attribute of the same meaning on every path: the final block
    for k, n in keys.items():
        pass
    # copy()
    cp = jit.methods.get('copy')
    if cp is None:
        raise AnalysisError('anchor vanished: MonteCarloSampler_jit.copy')
    calls = [c for c in walk_local(cp) if isinstance(c, ast.Call) and unparse(c.func) == 'MonteCarloSampler_jit']
    if len(calls) != 1:
        raise AnalysisError('MonteCarloSampler_jit.copy: constructor call not found')
    args = calls[0].args
    rep.ob('copy-order', mod, calls[0], 'copy() passes %d positional arguments for %d parameters' % (len(args), len(params)),
           len(args) == len(params) and not calls[0].keywords, '' if len(args) == len(params) else 'arity mismatch',
           engine='tables')
    for p, a in zip(params, args):
        t = unparse(a)
        ok = t in ('self.%s' % p, 'self.%s.copy()' % p)
        rep.ob('copy-order', mod, a, 'copy(): parameter %s <- %s' % (p, t), ok,
               '' if ok else 'the copy receives %s where %s is expected: fields are permuted' % (t, p), engine='tables')
    # mutable state must be copied
    for p, a in zip(params, args):
        if p in ('occ', 'clustercount', 'occupied_set', 'unoccupied_set', 'index', 'dcluster', 'jump_Q'):
            ok = unparse(a).endswith('.copy()')
            rep.ob('copy-order', mod, a, 'copy(): mutable field %s is duplicated' % p, ok,
                   '' if ok else 'the copy shares the mutable array %s with the original' % p, engine='tables')
    # attrs used
    methods = set(jit.methods)
    n_attr = 0
    for name, fn in jit.methods.items():
        for n in walk_local(fn):
            if isinstance(n, ast.Attribute) and isinstance(n.value, ast.Name) and n.value.id == 'self':
                n_attr += 1
                ok = n.attr in spec or n.attr in methods
                if not ok:
                    rep.ob('attrs-in-spec', mod, n, 'self.%s in MonteCarloSampler_jit.%s' % (n.attr, name), False,
                           'attribute %s is not a spec field: numba cannot compile the method' % n.attr, engine='resolve')
    rep.ob('attrs-in-spec', mod, jit.node, '%d attribute uses in the jit class, all spec fields or methods' % n_attr, True,
           engine='resolve')
    rep.floor('attribute uses in jit class', n_attr, 100)
    # external names
    n_ext = 0
    for node, d, ok, msg in resolve.external_chains(model, mod, jit.node):
        n_ext += 1
        rep.ob('external-names', mod, node, d, ok, msg + (': the method cannot be compiled, every call fails' if not ok else ''),
               engine='resolve')
    for node, d, ok, msg in resolve.external_chains(model, mod, pf):
        n_ext += 1
        rep.ob('external-names', mod, node, d, ok, msg, engine='resolve')
    rep.floor('external attribute chains checked', n_ext, 10)
    und = [(q, n) for q, n, l in resolve.undefined_names(mod, lambda q: q.startswith('MonteCarloSampler_jit.')
                                                           or q == 'MonteCarloSampler_param')]
    rep.ob('external-names', mod, jit.node, 'all bare names in the jit class and MonteCarloSampler_param resolve', not und,
           '' if not und else 'undefined: %s' % und, engine='resolve')
    # method sets
    for m in METHODS:
        ok = m in jit.methods and m in ref.methods
        rep.ob('method-sets', mod, jit.node, 'method %s present in both samplers' % m, ok,
               '' if ok else 'method %s missing from one of the samplers' % m, engine='siblings')
    # sign agreement
    from .C33 import _count_updates
    for m in ('start', 'update'):
        a = sorted((s, g) for s, g, _, _ in _count_updates_any(ref.methods[m]))
        b = sorted((s, g) for s, g, _, _ in _count_updates_any(jit.methods[m]))
        sa, sb = sorted(s for s, _ in a), sorted(s for s, _ in b)
        rep.ob('sign-agreement', mod, jit.methods[m], '%s: reference clustercount signs %s / compiled %s' % (m, sa, sb), sa == sb,
               '' if sa == sb else 'the two samplers change clustercount differently in %s' % m, engine='siblings')
    # jit start counts under occ == 0, like the reference
    js = [(s, g) for s, g, _, _ in _count_updates_any(jit.methods['start'])]
    rs = [(s, g) for s, g, _, _ in _count_updates_any(ref.methods['start'])]
    rep.ob('sign-agreement', mod, jit.methods['start'], 'start: counted under occupancy value %s (reference %s)' % (js, rs),
           js == rs, '' if js == rs else 'clustercount counts a different occupancy value in the compiled sampler',
           engine='siblings')
    # jit update: which site gets which sign
    ju = jit.methods['update']
    occsite, unoccsite = [a.arg for a in ju.args.args[1:3]]
    sets = {}
    for n in walk_local(ju):
        if isinstance(n, ast.Assign) and isinstance(n.targets[0], ast.Subscript) and unparse(n.targets[0].value) == 'self.occ' \
                and isinstance(n.value, ast.Constant):
            sets[unparse(n.targets[0].slice)] = n.value.value
    ok = sets == {occsite: 1, unoccsite: 0}
    rep.ob('sign-agreement', mod, ju, 'compiled update sets occ[%s]=1, occ[%s]=0' % (occsite, unoccsite), ok,
           '' if ok else 'occupancies written by update do not match its parameters', engine='siblings')
    for n in walk_local(ju):
        if isinstance(n, ast.AugAssign) and unparse(n.target).startswith('self.clustercount['):
            site = occsite if occsite in unparse(n.target) and unoccsite not in unparse(n.target.slice).replace(occsite, '') \
                else unoccsite
            site = occsite if ('[%s,' % occsite) in unparse(n.target) else unoccsite
            want = ast.Sub if site == occsite else ast.Add
            lp = getattr(n, '_parent', None)
            okl = isinstance(lp, ast.For) and unparse(lp.iter) == 'range(self.Ninteract[%s])' % site
            ok = isinstance(n.op, want) and okl
            rep.ob('sign-agreement', mod, n, 'compiled update: %s for site %s' % (unparse(n), site), ok,
                   '' if ok else 'wrong sign or wrong interaction list for the site being %s'
                   % ('occupied' if site == occsite else 'vacated'), engine='siblings')
    # swap symmetry of the set bookkeeping
    book = [n for n in ju.body if isinstance(n, ast.Assign) and (
        unparse(n.targets[0]).startswith(('self.occupied_set[', 'self.unoccupied_set[', 'self.index['))
        or (isinstance(n.targets[0], ast.Name) and unparse(n.value).startswith('self.index[')))]
    if len(book) != 6:
        raise AnalysisError('MonteCarloSampler_jit.update: set bookkeeping statements not recognised (%d)' % len(book))
    names = [unparse(n.targets[0]) for n in book if isinstance(n.targets[0], ast.Name)]
    sigma = swap_sigma([(occsite, unoccsite), (names[0], names[1]), ('self.occupied_set', 'self.unoccupied_set')])
    orig = sorted(unparse(n) for n in book)
    swapped = sorted(unparse(rename(n, sigma)) for n in book)
    rep.ob('swap-bookkeeping', mod, book[0], ' ; '.join(orig), orig == swapped,
           '' if orig == swapped else 'the bookkeeping is not symmetric under exchanging the occupied and the vacated site: '
                                      'one of the sets or the index is left stale', engine='exchange')
    # direction: the occupied site must land in occupied_set
    direction = any(unparse(n.targets[0]).startswith('self.occupied_set[') and unparse(n.value) == occsite for n in book)
    rep.ob('swap-bookkeeping', mod, book[0], 'the newly occupied site is stored in occupied_set', direction,
           '' if direction else 'sets are exchanged in the wrong direction', engine='exchange')
    # param: initialised branch vs jit.start loop
    _param_vs_start(rep, mod, pf, jit.methods['start'])
    # MCmoves
    mc = jit.methods.get('MCmoves')
    if mc is None:
        raise AnalysisError('anchor vanished: MonteCarloSampler_jit.MCmoves')
    src = {}
    for n in walk_local(mc):
        if isinstance(n, ast.Assign) and isinstance(n.targets[0], ast.Name) and isinstance(n.value, ast.Subscript):
            src[n.targets[0].id] = unparse(n.value.value)
    tr = [c for c in walk_local(mc) if isinstance(c, ast.Call) and unparse(c.func) == 'self.deltaE_trial']
    up = [c for c in walk_local(mc) if isinstance(c, ast.Call) and unparse(c.func) == 'self.update']
    if len(tr) != 1 or len(up) != 1:
        raise AnalysisError('MCmoves: trial/update calls not recognised')
    a_tr, a_up = [unparse(a) for a in tr[0].args], [unparse(a) for a in up[0].args]
    ok = a_tr == a_up and len(a_tr) == 2
    rep.ob('batched-metropolis', mod, up[0], 'deltaE_trial(%s) / update(%s)' % (', '.join(a_tr), ', '.join(a_up)), ok,
           '' if ok else 'the move applied is not the move whose energy change was evaluated', engine='siblings')
    ok = len(a_tr) == 2 and src.get(a_tr[0]) == 'self.unoccupied_set' and src.get(a_tr[1]) == 'self.occupied_set'
    # the look-up must happen inside the move loop: every accepted move changes both sets
    loopm = [n for n in mc.body if isinstance(n, ast.For)]
    inside = bool(loopm) and all(any(isinstance(x, ast.Assign) and isinstance(x.targets[0], ast.Name) and x.targets[0].id == a
                                     for x in ast.walk(loopm[0])) for a in a_tr if a.isidentifier()) and all(a.isidentifier() for a in a_tr)
    rep.ob('batched-metropolis', mod, tr[0], 'site to occupy from %s, site to vacate from %s, looked up inside the move loop'
           % (src.get(a_tr[0]), src.get(a_tr[1])), ok and inside,
           '' if ok and inside else 'trial sites are not read from the (un)occupied sets at the time of the move: after an accepted move '
                                    'the sets have changed, so a pre-computed batch applies moves to stale sites', engine='siblings')
    _transition_predicates(model, rep, mod, ref, jit)
    _trial_predicates(model, rep, mod, ref, jit)
    acc = getattr(up[0], '_parent', None)
    while acc is not None and not isinstance(acc, ast.If):
        acc = getattr(acc, '_parent', None)
    ok = acc is not None and isinstance(acc.test, ast.Compare) and isinstance(acc.test.ops[0], (ast.Lt, ast.LtE)) \
        and isinstance(acc.test.left, ast.Name) and unparse(acc.test.comparators[0]).startswith('kTlogu[')
    rep.ob('batched-metropolis', mod, acc or mc, 'accept when dE < kTlogu[i]  (= -kT ln u)', bool(ok),
           '' if ok else 'acceptance test is not the Metropolis rule dE < -kT ln(u)', engine='siblings')


def _count_updates_any(fn):
    """like C33._count_updates but accepts the compiled class's indexed form."""
    out = []
    for n in walk_local(fn):
        if isinstance(n, ast.AugAssign) and isinstance(n.target, ast.Subscript) \
                and unparse(n.target.value) == 'self.clustercount' and isinstance(n.op, (ast.Add, ast.Sub)):
            one = isinstance(n.value, ast.Constant) and n.value.value == 1
            sign = (1 if isinstance(n.op, ast.Add) else -1) if one else 0
            from .C33 import _guard_value
            out.append((sign, _guard_value(n, fn), True, n))
    return out


def _param_vs_start(rep, mod, pf, start):
    """the `else` (initialised) branch of MonteCarloSampler_param fills occupied_set/unoccupied_set/index like start."""
    def triples(scope, prefix):
        out = set()
        # the occupancy of the running site: ``occ[i]`` inside ``for i in range(...)`` -- or the value variable of
        # ``for i, occ_i in enumerate(occ)``; the site index is called ``i`` in the triples whatever its name
        for n in ast.walk(scope):
            site = None
            if isinstance(n, ast.If) and isinstance(n.test, ast.Compare) and len(n.test.ops) == 1 and isinstance(n.test.ops[0], ast.Eq) \
                    and isinstance(n.test.comparators[0], ast.Constant):
                left = n.test.left
                if isinstance(left, ast.Subscript) and unparse(left.value) == 'occ' and isinstance(left.slice, ast.Name):
                    site = left.slice.id
                elif isinstance(left, ast.Name):
                    lp = getattr(n, '_parent', None)
                    while lp is not None and site is None:
                        if isinstance(lp, ast.For) and isinstance(lp.target, ast.Tuple) and len(lp.target.elts) == 2 \
                                and unparse(lp.target.elts[1]) == left.id and unparse(lp.iter) == 'enumerate(occ)' \
                                and isinstance(lp.target.elts[0], ast.Name):
                            site = lp.target.elts[0].id
                        lp = getattr(lp, '_parent', None)
            if site is not None:
                from ..engines.linform import rename
                n = rename(n, {site: 'i'}) if site != 'i' else n
                v = n.test.comparators[0].value
                for s in n.body:
                    if isinstance(s, ast.Assign) and isinstance(s.targets[0], ast.Subscript):
                        out.add((v, unparse(s.targets[0]).replace(prefix, ''), unparse(s.value).replace(prefix, '')))
                    if isinstance(s, ast.AugAssign) and isinstance(s.target, (ast.Name, ast.Attribute)):
                        out.add((v, unparse(s.target).replace(prefix, ''), '+=' if isinstance(s.op, ast.Add) else '-='))
        return out

    a = triples(pf, '')
    b = triples(start, 'self.')
    ok = bool(a) and a == b
    rep.ob('sign-agreement', mod, pf, 'MonteCarloSampler_param (initialised) and compiled start build the sets alike: %d statements'
           % len(a), ok, '' if ok else 'set/index construction differs: only in param %s ; only in start %s'
           % (sorted(a - b), sorted(b - a)), engine='siblings')


def _eval(e, env):
    """evaluate a boolean combination of comparisons of abstract occupancies / flags with integer constants."""
    if isinstance(e, ast.BoolOp):
        vals = [_eval(v, env) for v in e.values]
        return all(vals) if isinstance(e.op, ast.And) else any(vals)
    if isinstance(e, ast.UnaryOp) and isinstance(e.op, ast.Not):
        return not _eval(e.operand, env)
    if isinstance(e, ast.Compare) and len(e.ops) == 1:
        def val(x):
            t = unparse(x)
            if t in env:
                return env[t]
            if isinstance(x, ast.Constant):
                return x.value
            if isinstance(x, ast.UnaryOp) and isinstance(x.op, ast.USub) and isinstance(x.operand, ast.Constant):
                return -x.operand.value
            raise AnalysisError('transition predicate: cannot evaluate %s' % t)
        a, b = val(e.left), val(e.comparators[0])
        op = e.ops[0]
        return {ast.Eq: a == b, ast.NotEq: a != b, ast.Lt: a < b, ast.LtE: a <= b, ast.Gt: a > b, ast.GtE: a >= b}[type(op)]
    raise AnalysisError('transition predicate: unsupported construct %s' % unparse(e))


def _transition_predicates(model, rep, mod, ref, jit):
    """allowed-transition predicates of the two samplers agree on the finite domain of (vacancy present?, occupancy of the
    initial site, occupancy of the final site): values enter only through comparisons with constants."""
    rep.rule('transition-predicate-agreement', 'reference and compiled transitions() allow exactly the same jumps on the finite occupancy domain')
    rt, jt = ref.methods['transitions'], jit.methods['transitions']
    # reference: inside `for n, ((i, j), dx) in enumerate(self.jumps)`: if self.vacancy < 0: if <skip>: continue
    lp = [n for n in rt.body if isinstance(n, ast.For)]
    if len(lp) != 1:
        raise AnalysisError('MonteCarloSampler.transitions: jump loop not found')
    tgt = lp[0].target
    pair = [t for t in ast.walk(tgt) if isinstance(t, ast.Tuple) and len(t.elts) == 2 and all(isinstance(x, ast.Name) for x in t.elts)]
    if not pair:
        raise AnalysisError('MonteCarloSampler.transitions: endpoint pair not found')
    ri, rj = pair[0].elts[0].id, pair[0].elts[1].id
    guards = []  # list of (outer condition or None, skip condition)
    for st in lp[0].body:
        if isinstance(st, ast.If):
            if any(isinstance(x, ast.Continue) for x in st.body):
                guards.append((None, st.test))
            else:
                for s2 in st.body:
                    if isinstance(s2, ast.If) and any(isinstance(x, ast.Continue) for x in s2.body):
                        guards.append((st.test, s2.test))
    # compiled: for n in range(self.Njumps): if <allowed>: ... else: inf
    jl = [n for n in jt.body if isinstance(n, ast.For)]
    if len(jl) != 1:
        raise AnalysisError('MonteCarloSampler_jit.transitions: jump loop not found')
    nvar = unparse(jl[0].target)
    ifs = [s for s in jl[0].body if isinstance(s, ast.If)]
    conts = [s for s in ifs if any(isinstance(x, ast.Continue) for x in s.body)]
    from ._common import resolve_in_block
    if len(ifs) == 1 and ifs[0].orelse and not conts:
        jtest = resolve_in_block(ifs[0], ifs[0].test)
        jit_allowed = lambda env: _eval(jtest, env)
        jnode = ifs[0]
    elif conts:
        ctests = [resolve_in_block(c, c.test) for c in conts]
        jit_allowed = lambda env: not any(_eval(c, env) for c in ctests)
        jnode = conts[0]
    else:
        raise AnalysisError('MonteCarloSampler_jit.transitions: allowed/forbidden test not recognised')
    # local aliases i, j = self.jump_ij[n, 0], self.jump_ij[n, 1]
    alias = {}
    for s_ in jl[0].body:
        if isinstance(s_, ast.Assign) and isinstance(s_.targets[0], ast.Tuple) and isinstance(s_.value, ast.Tuple):
            for t, v in zip(s_.targets[0].elts, s_.value.elts):
                alias[unparse(t)] = unparse(v)
    bad = []
    domain = [(False, 0, 0), (False, 0, 1), (False, 1, 0), (False, 1, 1), (True, -1, 0), (True, -1, 1)]
    for vac, oi, oj in domain:
        renv = {'self.vacancy': 0 if vac else -1, 'self.occ[%s]' % ri: oi, 'self.occ[%s]' % rj: oj}
        ref_allowed = not any((_eval(o, renv) if o is not None else True) and _eval(c, renv) for o, c in guards)
        jenv = {}
        for a, b in (('0', oi), ('1', oj)):
            jenv['self.occ[self.jump_ij[%s][%s]]' % (nvar, a)] = b
            jenv['self.occ[self.jump_ij[%s, %s]]' % (nvar, a)] = b
        for k, v in alias.items():
            for a, b in (('0', oi), ('1', oj)):
                if v in ('self.jump_ij[%s, %s]' % (nvar, a), 'self.jump_ij[%s][%s]' % (nvar, a)):
                    jenv['self.occ[%s]' % k] = b
        if ref_allowed != jit_allowed(jenv):
            bad.append('vacancy=%s occ(initial)=%d occ(final)=%d: reference %s, compiled %s'
                       % (vac, oi, oj, 'allows' if ref_allowed else 'forbids', 'allows' if not ref_allowed else 'forbids'))
    rep.ob('transition-predicate-agreement', mod, jnode, 'allowed-jump predicates agree on %d abstract cases' % len(domain), not bad,
           '' if not bad else '; '.join(bad), engine='siblings', qual='MonteCarloSampler_jit.transitions')
    # forbidden jumps are marked infinite
    inf = [n for n in ast.walk(jt) if isinstance(n, ast.Assign) and unparse(n.targets[0]).startswith('self.jump_Q[') and unparse(n.value) in ('np.inf', 'np.Inf', 'float("inf")', "float('inf')")]
    rep.ob('transition-predicate-agreement', mod, jt, 'forbidden jumps get an infinite barrier', bool(inf),
           '' if inf else 'forbidden transitions are not marked infinite (a stale barrier from an earlier call is reported)', engine='siblings',
           qual='MonteCarloSampler_jit.transitions')


def _trial_predicates(model, rep, mod, ref, jit):
    """the conditions under which deltaE_trial adds / subtracts an interaction value are the same function of (K = current
    count of unoccupied sites of the interaction, D = trial change of that count) in the reference and the compiled sampler.
    K and D enter only through comparisons, so the two predicates are compared on a finite grid of (D, K)."""
    import re
    from ._common import conditions_at, update_of, resolve_in_block
    rep.rule('trial-predicate-agreement', 'reference and compiled deltaE_trial add / subtract an interaction under the same conditions '
                                          'on its count K and trial change D')

    def table(fn, q):
        out = []
        rets = [r for r in walk_local(fn) if isinstance(r, ast.Return) and isinstance(r.value, ast.Name)]
        if not rets:
            return None
        acc = rets[-1].value.id
        for st in ast.walk(fn):
            u = update_of(st) if isinstance(st, (ast.Assign, ast.AugAssign)) else None
            if not u or u[0] != acc or u[1] not in ('Add', 'Sub') or 'interactvalue' not in unparse(u[2]):
                continue
            conds = []
            for c in conditions_at(fn, st):
                e = ast.parse(c, mode='eval').body
                # write block-local temporaries out (ccount = self.clustercount[interact])
                p_ = st
                while getattr(p_, '_parent', None) is not None and not isinstance(p_._parent, (ast.For, ast.While, ast.FunctionDef)):
                    p_ = p_._parent
                t = unparse(resolve_in_block(p_, e)) if p_ is not None else c
                for blk_stmt in (getattr(p_, '_parent', None).body if getattr(p_, '_parent', None) is not None else []):
                    if isinstance(blk_stmt, ast.Assign) and isinstance(blk_stmt.targets[0], ast.Name) and blk_stmt.lineno < st.lineno \
                            and re.search(r'clustercount|dcluster', unparse(blk_stmt.value)):
                        t = re.sub(r'\b%s\b' % re.escape(blk_stmt.targets[0].id), '(%s)' % unparse(blk_stmt.value), t)
                t = re.sub(r'\(?self\.clustercount\[(?:[^\[\]]|\[[^\]]*\])*\]\)?', 'K', t)
                t = re.sub(r'\(?self\.dcluster\[(?:[^\[\]]|\[[^\]]*\])*\]\)?', 'D', t)
                t = re.sub(r'\bdcount\b', 'D', t)
                t = re.sub(r'\w+ >= self\.Nenergy', 'False', t)
                t = re.sub(r'\w+ < self\.Nenergy', 'True', t)
                if re.search(r'\b[KD]\b', t):
                    conds.append(t)
            out.append((1 if u[1] == 'Add' else -1, conds, st))
        return out
    tr, tj = table(ref.methods['deltaE_trial'], 'ref'), table(jit.methods['deltaE_trial'], 'jit')
    if not tr or not tj:
        rep.undecided('deltaE_trial: the statements accumulating the trial energy were not located')
        return

    def evaluate(tab):
        res = {}
        for D in (-2, -1, 1, 2):
            for K in (0, 1, 2, 3):
                if D > 0 and K < D:
                    continue   # unreachable: the D entries of the site being filled are unoccupied sites counted in K
                tot = 0
                for sign, conds, st in tab:
                    try:
                        if all(eval(c, {'__builtins__': {}}, {'K': K, 'D': D}) for c in conds):
                            tot += sign
                    except Exception:
                        return None
                res[(D, K)] = tot
        return res
    a, b = evaluate(tr), evaluate(tj)
    if a is None or b is None:
        rep.undecided('deltaE_trial: a condition on the counts could not be evaluated on the finite grid')
        return
    bad = sorted(k for k in a if a[k] != b[k])
    rep.ob('trial-predicate-agreement', mod, tj[0][2], 'deltaE_trial add/subtract conditions agree on %d (D, K) cases' % len(a), not bad,
           '' if not bad else 'for (trial change D, current count K) = %s the compiled sampler %s while the reference %s: the trial energy '
           'differs from the realised change' % (bad[0], 'adds %+d x value' % b[bad[0]], 'adds %+d x value' % a[bad[0]]),
           engine='siblings', qual='MonteCarloSampler_jit.deltaE_trial')


CL = 'onsager/cluster.py'
BREAKERS = [
    (CL, "            elif self.clustercount[n] == self.dcluster[n]:\n                dE += self.interactvalue[n]", "            elif self.clustercount[n] == 1:\n                dE += self.interactvalue[n]", 'trial-predicate-agreement'),
    (CL, "    ('index', int64[:])\n]", "    ('indexx', int64[:])\n]", 'spec-table'),
    (CL, "                                     self.occ.copy(), self.clustercount.copy(), self.dcluster.copy(),", "                                     self.clustercount.copy(), self.occ.copy(), self.dcluster.copy(),", 'copy-order'),
    (CL, "                self.jump_Q[n] = np.inf", "                self.jump_Q[n] = np.Inf", 'external-names'),
    (CL, "        self.occ[occsite] = 1\n        self.occ[unoccsite] = 0\n        # change the cluster counts:\n        for m in range(self.Ninteract[occsite]):\n            self.clustercount[self.siteinteract[occsite, m]] -= 1",
     "        self.occ[occsite] = 1\n        self.occ[unoccsite] = 0\n        # change the cluster counts:\n        for m in range(self.Ninteract[occsite]):\n            self.clustercount[self.siteinteract[occsite, m]] += 1", 'sign-agreement'),
    (CL, "        self.index[unoccsite] = i  # index of unoccsite in unoccupied_set", "        self.index[unoccsite] = j  # index of unoccsite in unoccupied_set", 'swap-bookkeeping'),
    (CL, "            if dE < kTlogu[i]:\n                self.update(occ_trial, unocc_trial)", "            if dE < kTlogu[i]:\n                self.update(unocc_trial, occ_trial)", 'batched-metropolis'),
    (CL, "    param['Nunocc'] = Nunocc\n", "", 'spec-table'),
    (CL, "            if self.occ[self.jump_ij[n][0]] == -1 or \\\n                    (self.occ[self.jump_ij[n][0]] == 1 and self.occ[self.jump_ij[n][1]] == 0):",
     "            if (self.occ[self.jump_ij[n][0]] == 1 and self.occ[self.jump_ij[n][1]] == 0):", 'transition-predicate-agreement'),
]
NEUTRALS = []
