"""
C01 -- vacancy-mediated transport coefficients are exact in the dilute limit (structural clauses only).

Not decidable statically: equality with the exact Markov chain (numerical).  Decided:
  * exchange: the construction of the omega0/omega1/omega2 symmetric and escape rates, the LIMB back-fill and the
    symmetrised probabilities in Lij are invariant under exchanging the two endpoints of a jump -- a construction
    that is not exchange-symmetric violates detailed balance as soon as energies are non-uniform, which unit-rate
    tests cannot see; each escape-rate element is built from its *own* endpoint (endpoint coherence);
  * tables: thermodict keys + LIMB keys = parameters of preene2betafree; its return order = positional order of
    Lij; _symmetricandescaperates' return order = the order Lij unpacks; its arguments reach the parameters of
    the same meaning;
  * omega-family provenance: generatematrices passes (omK_jn, omK_jt[, omega2=True iff K=2]) coherently, and every
    contraction np.dot(A, B) / element-wise product in Lij combines an expansion and a rate vector of the same
    omega family (family = provenance of the array's last axis, not its name);
  * mirror blocks: the omega1 and omega2 loops of makeLIMBpreene / maketracerpreene each stay within one family;
  * index families (engine axes): every subscript, comparison, zip, element-wise operation and np.dot contraction in
    __init__ / generate / generatematrices / makeLIMBpreene / maketracerpreene / _symmetricandescaperates / Lij and in the
    VectorStarSet expansions combines indices and axes of the same family (site, Wyckoff set, thermodynamic star,
    kinetic star, vector star, omega0/1/2 jump, state, Cartesian), and every index map (thermo2kin, kin2vacancy,
    vstar2kin, kin2vstar, kineticsvWyckoff, omK_jt, omK_SP ...) is built with the families the frozen table records.
"""
import ast

from ..model import AnalysisError, dotted, unparse, walk_local
from ..engines import exchange, families, shape
from ..engines.linform import swap_sigma, rename, canon


def run(model, rep, tier):
    rep.explanation = __doc__.strip()
    from ._common import caches_for
    caches_for(model, rep, 'C01')
    from ._common import scale_free_tests
    scale_free_tests(model, rep, [('OnsagerCalc', 'VacancyMediated', 'Lij')])
    from ._common import inverse_map_placed
    inverse_map_placed(model, rep, [('OnsagerCalc', 'VacancyMediated', '__init__', 'invmap')])
    rep.not_decided = 'numerical equality of Lss/Lsv/L1vv with the exact one-solute/one-vacancy Markov chain; ' \
                      'correctness of the star / vector-star expansions themselves'
    rep.rule('exchange-symmetric', 'fragment is invariant under swapping the two endpoints of a jump')
    rep.rule('endpoint-coherent', 'an escape-rate element indexed by one endpoint is built from that endpoint only')
    rep.rule('plumbing', 'dictionary keys / return orders / parameter orders of the data pipeline agree')
    rep.rule('family-provenance', 'generatematrices binds each expansion from a coherent (network, jumptype, omega2) call')
    rep.rule('contraction-family', 'np.dot / element-wise products in Lij combine equal omega families')
    rep.rule('mirror-block', 'omega1 and omega2 loops each stay within their own family')
    mod = model.mod('OnsagerCalc')
    ci = model.cls('OnsagerCalc', 'VacancyMediated')
    _rates(model, rep, mod, ci)
    _limb(model, rep, mod, ci)
    _symmprob(model, rep, mod, ci)
    _plumbing(model, rep, mod, ci)
    _families(model, rep, mod, ci)
    _axes_rule(model, rep)


# ---------------------------------------------------------------- index families
def _axes_rule(model, rep):
    from . import _axes, _axes_schema as S
    methods = S.VM_METHODS + [m for m in S.STAR_METHODS if m[1] == 'VectorStarSet' and m[2] != 'generate']
    eng, interps, per = _axes.run_axes(model, rep, methods, 'index-family obligations (vacancy-mediated pipeline)', 170)
    n = _axes.check_returned_dict(rep, model, interps[('VacancyMediated', 'makeLIMBpreene')], 'OnsagerCalc', S.PREENE_KEYS, 'makeLIMBpreene')
    rep.floor('makeLIMBpreene returned arrays typed', n, 4)


# ---------------------------------------------------------------- rate construction
def _rate_loops(fn):
    """the three loops of _symmetricandescaperates keyed by family."""
    out = {}
    for n in fn.body:
        if isinstance(n, ast.For):
            t = unparse(n.iter)
            for key, fam in families.PAIRS.items():
                if key in t:
                    out[fam] = n
    return out


def _pair_in_target(target):
    for e in ast.walk(target):
        if isinstance(e, ast.Tuple) and len(e.elts) == 2 and all(isinstance(x, ast.Name) for x in e.elts) and e is not target:
            return e.elts[0].id, e.elts[1].id
    return None


def _rates(model, rep, mod, ci):
    fn = ci.methods.get('_symmetricandescaperates')
    if fn is None:
        raise AnalysisError('anchor vanished: VacancyMediated._symmetricandescaperates')
    loops = _rate_loops(fn)
    if set(loops) != {'om0', 'om1', 'om2'}:
        raise AnalysisError('_symmetricandescaperates: omega0/omega1/omega2 loops not all found (%s)' % sorted(loops))
    for fam, lp in sorted(loops.items()):
        pair = _pair_in_target(lp.target)
        if pair is None:
            raise AnalysisError('_symmetricandescaperates: endpoint pair of the %s loop not found' % fam)
        pairs = [pair]
        for st in lp.body:
            if isinstance(st, ast.Assign) and isinstance(st.targets[0], ast.Tuple) and len(st.targets[0].elts) == 2 \
                    and all(isinstance(x, ast.Name) for x in st.targets[0].elts):
                pairs.append((st.targets[0].elts[0].id, st.targets[0].elts[1].id))
        inner = [st for st in lp.body if isinstance(st, ast.For) and isinstance(st.target, ast.Name)]
        if len(inner) == 2:
            pairs.append((inner[0].target.id, inner[1].target.id))
        sigma = swap_sigma(pairs)
        ok, a, b = exchange.symmetric_block(lp.body, sigma)
        rep.ob('exchange-symmetric', mod, lp, '%s block under (%s)' % (fam, ', '.join('%s<->%s' % p for p in pairs)), ok,
               '' if ok else 'the %s rates are not built symmetrically in the two endpoints: only in original %s ; only in image %s'
               % (fam, sorted(set(a) - set(b))[:2], sorted(set(b) - set(a))[:2]), engine='exchange',
               qual='VacancyMediated._symmetricandescaperates')
        # endpoint coherence
        g1, g2 = {p[0] for p in pairs}, {p[1] for p in pairs}
        flat = []
        for st in lp.body:
            if isinstance(st, ast.For):
                flat.append((st.target, st.iter, st))
                for s2 in st.body:
                    flat += [(t, v, s2) for t, v in exchange.split_assign(s2)]
            else:
                flat += [(t, v, st) for t, v in exchange.split_assign(st)]
        n = 0
        for t, v, st in flat:
            tn, vn = exchange.names_in(t), exchange.names_in(v)
            for mine, other in ((g1, g2), (g2, g1)):
                if tn & mine and not tn & other:
                    n += 1
                    bad = sorted(vn & other)
                    rep.ob('endpoint-coherent', mod, st, '%s: %s <- %s' % (fam, unparse(t), unparse(v)[:70]), not bad,
                           '' if not bad else 'element belonging to endpoint {%s} is computed from the other endpoint\'s %s: '
                                              'forward and backward rates are exchanged' % (', '.join(sorted(tn & mine)), bad),
                           engine='exchange', qual='VacancyMediated._symmetricandescaperates')
        rep.count('endpoint-coherence statements', n)


def _limb(model, rep, mod, ci):
    fn = ci.methods.get('makeLIMBpreene')
    if fn is None:
        raise AnalysisError('anchor vanished: VacancyMediated.makeLIMBpreene')
    n = 0
    for lp in [x for x in fn.body if isinstance(x, ast.For)]:
        it = unparse(lp.iter)
        fams = {f for k, f in list(families.TYPES.items()) + list(families.PAIRS.items()) if k in it}
        if not fams:
            continue
        sp = None
        for tnode, src in shape.bindings(lp.target, lp.iter):
            if not isinstance(src, shape.Pos) and unparse(src) in families.PAIRS and isinstance(tnode, ast.Name):
                sp = tnode.id
        if sp is None:
            raise AnalysisError('makeLIMBpreene: star-pair variable not found in %s' % it)
        sigma = swap_sigma([('%s[0]' % sp, '%s[1]' % sp)])
        for st in lp.body:
            for t, v in exchange.split_assign(st):
                n += 1
                ok, a, b = exchange.symmetric_expr(v, sigma)
                rep.ob('exchange-symmetric', mod, st, 'LIMB %s = %s under %s[0]<->%s[1]' % (unparse(t), unparse(v)[:70], sp, sp), ok,
                       '' if ok else 'the back-filled transition state depends on which endpoint is listed first', engine='exchange',
                       qual='VacancyMediated.makeLIMBpreene')
        _mirror(rep, mod, fn, lp, fams)
    rep.floor('LIMB back-fill right-hand sides', n, 4)
    tr = ci.methods.get('maketracerpreene')
    if tr is None:
        raise AnalysisError('anchor vanished: VacancyMediated.maketracerpreene')
    for lp in [x for x in tr.body if isinstance(x, ast.For)]:
        it = unparse(lp.iter)
        fams = {f for k, f in list(families.TYPES.items()) + list(families.PAIRS.items()) if k in it}
        if fams:
            _mirror(rep, mod, tr, lp, fams)


def _alloc_family(fn, name):
    for n in walk_local(fn):
        if isinstance(n, ast.Assign) and isinstance(n.targets[0], ast.Name) and n.targets[0].id == name \
                and isinstance(n.value, ast.Call) and n.value.args:
            t = unparse(n.value.args[0])
            for net, f in families.NETS.items():
                if t == 'len(%s)' % net:
                    return f
    return None


def _mirror(rep, mod, fn, lp, fams):
    ok = len(fams) == 1
    fam = sorted(fams)[0]
    rep.ob('mirror-block', mod, lp, '%s: loop over %s stays in one family' % (fn.name, unparse(lp.iter)[:70]), ok,
           '' if ok else 'loop mixes %s' % sorted(fams), engine='tables', qual='VacancyMediated.' + fn.name)
    for st in lp.body:
        for t, v in exchange.split_assign(st):
            root = t
            while isinstance(root, ast.Subscript):
                root = root.value
            if isinstance(root, ast.Name):
                af = _alloc_family(fn, root.id)
                if af is not None:
                    rep.ob('mirror-block', mod, st, '%s: %s (sized by %s) written in the %s loop' % (fn.name, unparse(t), af, fam),
                           af == fam, '' if af == fam else 'array of the %s classes is filled from the %s jump types' % (af, fam),
                           engine='tables', qual='VacancyMediated.' + fn.name)


def _symmprob(model, rep, mod, ci):
    fn = ci.methods.get('Lij')
    if fn is None:
        raise AnalysisError('anchor vanished: VacancyMediated.Lij')
    n = 0
    # every comprehension over a star-pair / Wyckoff-pair list that unpacks the two endpoints
    for lc in walk_local(fn):
        if not isinstance(lc, (ast.ListComp, ast.GeneratorExp)) or len(lc.generators) != 1:
            continue
        g = lc.generators[0]
        if unparse(g.iter) in families.PAIRS and isinstance(g.target, ast.Tuple) and len(g.target.elts) == 2 \
                and all(isinstance(e, ast.Name) for e in g.target.elts):
            a, b = [e.id for e in g.target.elts]
            ok, x, y = exchange.symmetric_expr(lc.elt, swap_sigma([(a, b)]))
            n += 1
            rep.ob('exchange-symmetric', mod, lc, 'element %s over %s under %s<->%s' % (unparse(lc.elt), unparse(g.iter), a, b),
                   ok, '' if ok else 'symmetrised probability depends on the direction of the jump', engine='exchange',
                   qual='VacancyMediated.Lij')
    rep.floor('symmetrised probability vectors in Lij', n, 3)


# ---------------------------------------------------------------- plumbing
def _plumbing(model, rep, mod, ci):
    for m in ('tags2preene', 'makeLIMBpreene', 'preene2betafree', 'Lij', '_symmetricandescaperates'):
        if m not in ci.methods:
            raise AnalysisError('anchor vanished: VacancyMediated.%s' % m)
    t2p, limb, p2b, lij, sym = (ci.methods[m] for m in ('tags2preene', 'makeLIMBpreene', 'preene2betafree', 'Lij',
                                                        '_symmetricandescaperates'))
    # thermodict keys: the literal, constant-key stores and literal updates; any other way of adding keys (a loop over computed
    # names, dict.fromkeys, ...) makes the key set unknown to this rule
    td, dynamic = None, False
    for n in walk_local(t2p):
        if isinstance(n, ast.Assign) and unparse(n.targets[0]) == 'thermodict' and isinstance(n.value, ast.Dict):
            td = (td or set()) | {k.value for k in n.value.keys if isinstance(k, ast.Constant)}
            dynamic = dynamic or any(not isinstance(k, ast.Constant) for k in n.value.keys)
        elif isinstance(n, ast.Assign) and unparse(n.targets[0]) == 'thermodict':
            td = td or set()
            dynamic = True
        elif isinstance(n, ast.Assign):
            for t in n.targets:
                for x in ([t] if not isinstance(t, ast.Tuple) else t.elts):
                    if isinstance(x, ast.Subscript) and unparse(x.value) == 'thermodict':
                        if isinstance(x.slice, ast.Constant):
                            td = (td or set()) | {x.slice.value}
                        else:
                            dynamic = True
        elif isinstance(n, ast.Call) and unparse(n.func) in ('thermodict.update', 'thermodict.setdefault'):
            a = n.args[0] if n.args else None
            if isinstance(a, ast.Dict) and all(isinstance(k, ast.Constant) for k in a.keys):
                td = (td or set()) | {k.value for k in a.keys}
            elif isinstance(a, ast.Call) and unparse(a.func).endswith('makeLIMBpreene'):
                pass
            elif unparse(n.func) == 'thermodict.setdefault' and isinstance(a, ast.Constant):
                td = (td or set()) | {a.value}
            else:
                dynamic = True
    if td is None:
        raise AnalysisError('tags2preene: thermodict literal not found')
    if dynamic:
        rep.undecided('tags2preene: thermodict receives keys that are computed at run time; the plumbing of its keys is not decided')
        return
    lk = set()
    for n in walk_local(limb):
        if isinstance(n, ast.Return) and isinstance(n.value, ast.Dict):
            lk = {k.value for k in n.value.keys if isinstance(k, ast.Constant)}
    params = [a.arg for a in p2b.args.args]
    want = set(params) - {'kT'}
    ok = td | lk == want and not (td & lk)
    rep.ob('plumbing', mod, t2p, 'thermodict keys %s + LIMB keys %s = preene2betafree parameters' % (sorted(td), sorted(lk)), ok,
           '' if ok else 'missing %s ; unexpected %s' % (sorted(want - td - lk), sorted((td | lk) - want)), engine='tables')
    lparams = [a.arg for a in limb.args.args[1:]]
    ok = set(lparams) <= td
    rep.ob('plumbing', mod, limb, 'makeLIMBpreene parameters %s are thermodict keys' % lparams, ok,
           '' if ok else 'makeLIMBpreene(**thermodict) lacks %s' % sorted(set(lparams) - td), engine='tables')
    # the array returned under a prefactor key is computed from prefactors only, under an energy key from energies only
    # (data dependence; the omega1 / omega2 family of each array is decided by the index-family rule)
    ldeps = shape.param_deps(limb)
    nkeys = 0
    for n in walk_local(limb):
        if isinstance(n, ast.Return) and isinstance(n.value, ast.Dict):
            for k, v in zip(n.value.keys, n.value.values):
                if not (isinstance(k, ast.Constant) and isinstance(k.value, str) and k.value[:3] in ('pre', 'ene')):
                    continue
                kind, otherkind = k.value[:3], ('ene' if k.value[:3] == 'pre' else 'pre')
                d = {q for q in ldeps(v) if q[:3] in ('pre', 'ene')}
                okk = any(q.startswith(kind) for q in d) and not any(q.startswith(otherkind) for q in d)
                nkeys += 1
                rep.ob('plumbing', mod, v, "makeLIMBpreene returns {'%s': <built from %s>}" % (k.value, sorted(d)), okk,
                       '' if okk else 'a %s is returned under the key of a %s' % ('prefactor/energy mix' if d else 'constant', k.value),
                       engine='tables', qual='VacancyMediated.makeLIMBpreene')
    rep.floor('makeLIMBpreene returned keys', nkeys, 4)
    # preene2betafree return order = Lij positional parameters
    ret = [n for n in walk_local(p2b) if isinstance(n, ast.Return)]
    if len(ret) != 1 or not isinstance(ret[0].value, ast.Tuple):
        raise AnalysisError('preene2betafree: tuple return not found')
    lpos = [a.arg for a in lij.args.args[1:1 + len(ret[0].value.elts)]]
    # each returned free energy is computed from the energies / prefactors of the species Lij expects at that position
    # (data dependence on the parameters eneX / preX; temporaries and statement order do not matter)
    deps = shape.param_deps(p2b)
    for e, lp in zip(ret[0].value.elts, lpos):
        x = lp[2:] if lp.startswith('bF') else lp   # V, S, SV, T0, T1, T2
        d = {q for q in deps(e) if q.startswith(('ene', 'pre'))}
        own = {'ene' + x, 'pre' + x}
        # transition states and the solute are referenced to the vacancy (and solute) minimum: those inputs are allowed
        allowed = own | {'eneV', 'preV'} | ({'eneS', 'preS'} if x in ('T1', 'T2') else set())
        okx = own <= d and d <= allowed
        rep.ob('plumbing', mod, e, 'preene2betafree return position for Lij(%s): %s built from %s' % (lp, unparse(e)[:60], sorted(d)), okx,
               '' if okx else 'Lij(*preene2betafree(...)) binds to %s a free energy built from %s' % (lp, sorted(d)), engine='tables',
               qual='VacancyMediated.preene2betafree')
    rep.floor('preene2betafree returned free energies', len(lpos), 6)
    # _symmetricandescaperates: return order vs unpack order in Lij; args vs params
    fams, order, retn = families.vector_families(model)
    call = None
    for n in walk_local(lij):
        if isinstance(n, ast.Assign) and isinstance(n.value, ast.Call) and unparse(n.value.func) == 'self._symmetricandescaperates':
            call = n
    if call is None:
        raise AnalysisError('Lij: call of _symmetricandescaperates not found')
    targets = [unparse(e) for e in call.targets[0].elts] if isinstance(call.targets[0], ast.Tuple) else []
    # positions, not names: what Lij calls the k-th returned array is its own business; the family each position carries is
    # taken from how the callee builds it and checked where Lij contracts it (contraction-family)
    ok = len(targets) == len(order)
    rep.ob('plumbing', mod, call, '_symmetricandescaperates returns %d arrays ; Lij unpacks %d' % (len(order), len(targets)), ok,
           '' if ok else 'Lij does not unpack what _symmetricandescaperates returns', engine='tables')
    sparams = [a.arg for a in sym.args.args[1:]]
    args = [unparse(a) for a in call.value.args]
    # positional correspondence by meaning: the k-th argument must be the Lij-level array of the same family
    ok = len(args) == len(sparams) and all(a == p or (p == 'bFSVkinetic' and a == 'bFSVkin') for a, p in zip(args, sparams))
    rep.ob('plumbing', mod, call, '_symmetricandescaperates(%s) for parameters (%s)' % (', '.join(args), ', '.join(sparams)), ok,
           '' if ok else 'an array is passed in the position of another one', engine='tables')
    # each rate loop reads the transition-state array of its own family: zip(..., self.omK_SP, bFTK)
    loops = _rate_loops(sym)
    for fam, lp in sorted(loops.items()):
        want = {'om0': 'bFT0', 'om1': 'bFT1', 'om2': 'bFT2'}[fam]
        used = {n.id for n in ast.walk(lp.iter) if isinstance(n, ast.Name) and n.id.startswith('bFT')}
        rep.ob('plumbing', mod, lp, '%s loop iterates over %s' % (fam, sorted(used)), used == {want},
               '' if used == {want} else '%s rates are computed from the transition states of another family' % fam, engine='tables',
               qual='VacancyMediated._symmetricandescaperates')
        # and writes only arrays of its own family
        for st in ast.walk(lp):
            if isinstance(st, ast.Assign):
                for t, v in exchange.split_assign(st):
                    root = t
                    while isinstance(root, ast.Subscript):
                        root = root.value
                    if isinstance(root, ast.Name):
                        i = order.index(root.id) if root.id in order else -1
                        if i >= 0 and fams[i] is not None:
                            rep.ob('mirror-block', mod, st, '%s loop writes %s (family %s)' % (fam, root.id, fams[i]), fams[i] == fam,
                                   '' if fams[i] == fam else 'the %s loop fills an array of the %s classes' % (fam, fams[i]),
                                   engine='tables', qual='VacancyMediated._symmetricandescaperates')


# ---------------------------------------------------------------- families
def _families(model, rep, mod, ci):
    attr_fam, calls = families.attribute_families(model)
    for c, meth, net, jt, om2 in calls:
        ok = net is not None and (meth == 'bareexpansions' or True) and jt == net
        rep.ob('family-provenance', mod, c, unparse(c)[:110], ok,
               '' if ok else 'jump network of family %s is paired with the jump types of family %s' % (net, jt), engine='tables',
               qual='VacancyMediated.generatematrices')
        if meth in ('rateexpansions', 'biasexpansions'):
            ok2 = om2 == (net == 'om2')
            rep.ob('family-provenance', mod, c, '%s(... omega2=%s) for the %s network' % (meth, om2, net), ok2,
                   '' if ok2 else 'origin-state treatment (omega2 flag) does not match the network passed', engine='tables',
                   qual='VacancyMediated.generatematrices')
    rep.floor('expansion calls in generatematrices', len(calls), 6)
    rep.floor('expansion attributes typed', len(attr_fam), 16)
    vfam, order, _ = families.vector_families(model)
    lij = ci.methods['Lij']
    # Lij's own names for the returned arrays, position by position
    names = list(order)
    for n_ in walk_local(lij):
        if isinstance(n_, ast.Assign) and isinstance(n_.value, ast.Call) and unparse(n_.value.func) == 'self._symmetricandescaperates' \
                and isinstance(n_.targets[0], ast.Tuple) and len(n_.targets[0].elts) == len(order):
            names = [unparse(e) for e in n_.targets[0].elts]
    local = {o: f for o, f in zip(names, vfam) if f}
    # symmetrised probabilities: family of the iterable
    for st in walk_local(lij):
        if isinstance(st, ast.Assign) and isinstance(st.targets[0], ast.Name) and isinstance(st.value, ast.Call) \
                and st.value.args and isinstance(st.value.args[0], ast.ListComp):
            it = unparse(st.value.args[0].generators[0].iter)
            if it in families.PAIRS:
                local[st.targets[0].id] = families.PAIRS[it]
    ty = families.FamilyTyper(attr_fam, local)
    n = 0
    for c in walk_local(lij):
        if isinstance(c, ast.Call) and dotted(c.func) in ('np.dot', 'numpy.dot') and len(c.args) == 2:
            a, b = ty.fam(c.args[0]), ty.fam(c.args[1])
            if a is None and b is None:
                continue
            n += 1
            if a is None or b is None:
                rep.undecided('Lij: family of one operand of %s not resolved (%s / %s)' % (unparse(c)[:70], a, b))
                continue
            ok = a == b
            rep.ob('contraction-family', mod, c, 'np.dot(%s [%s], %s [%s])' % (unparse(c.args[0])[:50], a, unparse(c.args[1])[:50], b),
                   ok, '' if ok else 'an expansion over the %s classes is contracted with a vector over the %s classes '
                                     '(equal lengths hide this for some crystals)' % (a, b), engine='tables',
                   qual='VacancyMediated.Lij')
    for e, a, b in ty.mismatches:
        rep.ob('contraction-family', mod, e, 'element-wise %s [%s vs %s]' % (unparse(e)[:80], a, b), False,
               'arrays over different omega classes are combined element-wise', engine='tables', qual='VacancyMediated.Lij')
    rep.floor('typed contractions in Lij', n, 14)


OC = 'onsager/OnsagerCalc.py'
BREAKERS = [
    (OC, "omega0escape[v2, j] = np.exp(-bF + bFV[v2])", "omega0escape[v2, j] = np.exp(-bF + bFV[v1])", 'exchange-symmetric'),
    (OC, "omF, omB = np.exp(-bFT + bFSVkinetic[st1]), np.exp(-bFT + bFSVkinetic[st2])\n            omega1[j]",
     "omF, omB = np.exp(-bFT + bFSVkinetic[st1]), np.exp(-bFT + bFSVkinetic[st1])\n            omega1[j]", 'exchange-symmetric'),
    (OC, "for vst2 in self.kin2vstar[st2]: omega2escape[vst2, j] = omB", "for vst2 in self.kin2vstar[st2]: omega2escape[vst2, j] = omF",
     'endpoint-coherent'),
    (OC, "np.dot(self.om1_om0, omega0)", "np.dot(self.om1_om0, omega1)", 'contraction-family'),
    (OC, "D0ss = np.dot(self.Dom2, omega2 * symmprobSV2) / self.N", "D0ss = np.dot(self.Dom2, omega2 * symmprobSV1) / self.N",
     'contraction-family'),
    (OC, "return bFV, bFS, bFSV, bFT0, bFT1, bFT2", "return bFV, bFS, bFSV, bFT0, bFT2, bFT1", 'plumbing'),
    (OC, "self.vkinetic.biasexpansions(self.om2_jn, self.om2_jt, omega2=True)", "self.vkinetic.biasexpansions(self.om2_jn, self.om1_jt, omega2=True)",
     'family-provenance'),
    (OC, "self.vkinetic.rateexpansions(self.om2_jn, self.om2_jt, omega2=True)", "self.vkinetic.rateexpansions(self.om2_jn, self.om2_jt)",
     'family-provenance'),
    (OC, "eneT1[j] = eneT0[jt] + 0.5 * (eneSVkin[SP[0]] + eneSVkin[SP[1]])", "eneT1[j] = eneT0[jt] + eneSVkin[SP[0]]", 'exchange-symmetric'),
    (OC, "for j, jt in zip(itertools.count(), self.om2_jt): preT2[j], eneT2[j] = preT0[jt], eneT0[jt]",
     "for j, jt in zip(itertools.count(), self.om1_jt): preT2[j], eneT2[j] = preT0[jt], eneT0[jt]", 'mirror-block'),
    (OC, "symmprobSV1 = np.array([np.sqrt(prob[i] * prob[f]) for i,f in self.om1_SP])",
     "symmprobSV1 = np.array([prob[i] for i,f in self.om1_SP])", 'exchange-symmetric'),
]
NEUTRALS = [
    (OC, "omega0[j] = np.sqrt(omega0escape[v1, j] * omega0escape[v2, j])", "omega0[j] = np.sqrt(omega0escape[v2, j] * omega0escape[v1, j])"),
    (OC, "eneT1[j] = eneT0[jt] + 0.5 * (eneSVkin[SP[0]] + eneSVkin[SP[1]])", "eneT1[j] = 0.5 * eneSVkin[SP[1]] + eneT0[jt] + 0.5 * eneSVkin[SP[0]]"),
]
