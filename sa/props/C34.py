"""
C34 -- kinetic barriers obey detailed balance (structural clauses).

Not decided: the barrier values.  Decided (exchange antisymmetry):
  * jumpnetworkevaluator: the energy-cluster terms centred on the initial site and on the final site are mirror images
    under (initial <-> final) with opposite weight: forward barrier - backward barrier then equals E(final) - E(initial)
    by construction; the initial-centred list carries the minus sign (orientation), each list excludes the clusters that
    contain the *other* endpoint, initial terms are evaluated at the initial cell and final terms at the final cell;
  * jumpnetworkevaluator_vacancy: the four-term list (vacancy clusters at initial/final, solute clusters at
    final/initial) is invariant under (initial <-> final, cell, index map, excluded endpoint) with the weight negated;
  * both store 0.5 * value for energy clusters and the plain value for transition-state clusters (which are sign-free and
    registered for both orientations in the non-vacancy evaluator);
  * bookkeeping: every jump appends its displacement, its constant term and its range end in lock-step; the energy range
    is appended last; the reverse endpoint sites are +/- the same lattice vector.
"""
import ast

from ..model import AnalysisError, dotted, unparse, walk_local
from ..engines import pattern, exchange
from ..engines.linform import canon, rename, swap_sigma


def _comp_canon(lc, sigma=None, negate=None):
    """canonical (element, iterable, conditions) of a list comprehension after an optional renaming."""
    from ..engines.linform import linform, lin_str
    node = rename(lc, sigma) if sigma else lc
    g = node.generators[0]
    elts = node.elt.elts if isinstance(node.elt, ast.Tuple) else [node.elt]
    out = []
    for e in elts:
        if negate:
            e = rename(e, {negate: '(-%s)' % negate})
        names = {n.id for n in ast.walk(e) if isinstance(n, ast.Name)}
        out.append(lin_str(linform(e)) if (negate and negate in names) or isinstance(e, ast.UnaryOp) else canon(e))
    return (tuple(out), canon(g.iter), tuple(sorted(canon(i) for i in g.ifs)))


def _sum_terms(e):
    if isinstance(e, ast.BinOp) and isinstance(e.op, ast.Add):
        return _sum_terms(e.left) + _sum_terms(e.right)
    return [e]


def run(model, rep, tier):
    rep.explanation = __doc__.strip()
    from ._common import caches_for
    caches_for(model, rep, 'C34')
    rep.not_decided = 'the barrier values; that transitions() reports the reverse transition with the opposite displacement'
    rep.rule('antisymmetric-weights', 'initial- and final-centred interaction lists mirror each other with opposite weight')
    rep.rule('orientation', 'the initial-centred interactions carry the minus sign and are evaluated at the initial cell')
    rep.rule('half-weight', 'energy clusters enter with 0.5 * value, transition-state clusters with value')
    rep.rule('jump-bookkeeping', 'per jump: displacement, constant term and range end are appended in lock-step')
    mod = model.mod('supercell')
    ci = model.cls('supercell', 'ClusterSupercell')
    je = ci.methods.get('jumpnetworkevaluator')
    jv = ci.methods.get('jumpnetworkevaluator_vacancy')
    if je is None or jv is None:
        raise AnalysisError('anchor vanished: ClusterSupercell.jumpnetworkevaluator(_vacancy)')
    # ---- memoisation inside the evaluators must be keyed on everything the stored value depends on
    from ..engines import memo
    rep.rule('cache-key-complete', 'a memo inside the evaluators is keyed on every loop variable the stored value depends on')
    nmemo = 0
    for fn, q in ((je, 'jumpnetworkevaluator'), (jv, 'jumpnetworkevaluator_vacancy')):
        for node, d, key, vdeps, kdeps in memo.local_memo_stores(fn):
            nmemo += 1
            missing = sorted(vdeps - kdeps)
            rep.ob('cache-key-complete', mod, node, '%s: memo %s[%s]' % (q, d, unparse(key)), not missing,
                   '' if not missing else 'the stored lists depend on %s but the key does not: another jump with the same key reuses the '
                                          'interaction lists of the wrong sites, so forward and backward barriers no longer differ by the '
                                          'energy difference' % ', '.join(missing), engine='memo', qual='ClusterSupercell.' + q)
    rep.count('local memo caches in the evaluators', nmemo)
    # ---- every cluster is split into its mobile and its spectator sites by the two index tables (a partition)
    rep.rule('site-partition', 'cluster sites are split by `ci in self.indexmobile` / `ci in self.indexspectator` everywhere')
    nsplit = 0
    for q, fn in sorted(ci.methods.items()):
        for n in walk_local(fn):
            if not (isinstance(n, ast.Assign) and isinstance(n.targets[0], ast.Name)):
                continue
            comps = [c for c in ast.walk(n.value) if isinstance(c, ast.ListComp) and c.generators[0].ifs]
            for c in comps:
                cond = unparse(c.generators[0].ifs[0])
                if not cond.endswith('in self.indexspectator'):
                    continue
                # the statement just before/after in the same block builds the mobile list from the same source
                blk = getattr(n, '_parent', None)
                body = [b for fld in ('body', 'orelse') for b in getattr(blk, fld, []) or []]
                if n not in body:
                    continue
                k = body.index(n)
                sib = [b for b in body[max(0, k - 1):k + 2] if b is not n and isinstance(b, ast.Assign)]
                src = unparse(c.generators[0].iter)
                for b in sib:
                    for c2 in [x for x in ast.walk(b.value) if isinstance(x, ast.ListComp) and x.generators[0].ifs
                               and unparse(x.generators[0].iter) == src]:
                        nsplit += 1
                        v2 = unparse(c2.generators[0].target)
                        ok = unparse(c2.generators[0].ifs[0]) == '%s.ci in self.indexmobile' % v2
                        rep.ob('site-partition', mod, b, '%s: %s' % (q, unparse(b)[:110]), ok,
                               '' if ok else 'the mobile part of a cluster is not "every site that is not a spectator": sites of another mobile '
                                             'species are dropped (treated as always occupied) in the barrier but not in the energy',
                               engine='siblings', qual='ClusterSupercell.' + q)
    rep.floor('mobile/spectator splits', nsplit, 7)
    # ---- non-vacancy evaluator
    lists = {}
    for n in walk_local(je):
        if isinstance(n, ast.Assign) and isinstance(n.value, ast.ListComp) and isinstance(n.value.elt, ast.Tuple) \
                and len(n.value.elt.elts) == 3 and isinstance(n.value.generators[0].iter, ast.Subscript) \
                and unparse(n.value.generators[0].iter.value) == 'clusterinteract':
            lists[unparse(n.value.generators[0].iter.slice)] = n
    if len(lists) != 2:
        raise AnalysisError('jumpnetworkevaluator: the two endpoint-centred interaction lists were not found')
    # endpoint names: keys of clusterinteract used; excluded sites from the conditions
    (k0, n0), (k1, n1) = sorted(lists.items(), key=lambda kv: kv[1].lineno)
    ex0 = [unparse(c.left) for c in n0.value.generators[0].ifs if isinstance(c, ast.Compare)]
    ex1 = [unparse(c.left) for c in n1.value.generators[0].ifs if isinstance(c, ast.Compare)]
    if len(ex0) != 1 or len(ex1) != 1:
        rep.ob('antisymmetric-weights', mod, n1, 'jumpnetworkevaluator: exclusions %s / %s' % (ex0, ex1), False,
               'one of the two lists does not exclude the clusters containing the other endpoint: the two sides of the jump count '
               'different clusters and detailed balance is lost', engine='exchange', qual='ClusterSupercell.jumpnetworkevaluator')
        raise AnalysisError('jumpnetworkevaluator: endpoint exclusion conditions not recognised')
    valname = unparse(n0.value.generators[0].target.elts[2])
    sigma = swap_sigma([(k0, k1), (ex0[0], ex1[0])])
    a = _comp_canon(n0.value, sigma, negate=valname)
    b = _comp_canon(n1.value)
    ok = a == b
    rep.ob('antisymmetric-weights', mod, n1, 'jumpnetworkevaluator: %s  <->  %s under (%s<->%s, %s<->%s, %s -> -%s)'
           % (unparse(n0.targets[0]), unparse(n1.targets[0]), k0, k1, ex0[0], ex1[0], valname, valname), ok,
           '' if ok else 'the final-centred list is not the mirror image of the initial-centred list with the weight negated: '
                         'Q(i->j) - Q(j->i) differs from E(j) - E(i)', engine='exchange', qual='ClusterSupercell.jumpnetworkevaluator')
    # orientation: which list is negative; which endpoint is the initial site (cs_i0 built from the same key at zero lattice vector)
    from ..engines.linform import linform as _lf
    neg0 = _lf(n0.value.elt.elts[2]) == {valname: -1}
    init_key = None
    for bnd in pattern.find(je, '_N_c0 = cluster.ClusterSite(_N_k, np.zeros(self.crys.dim, dtype=int))'):
        init_key = bnd['_N_k']
    ok = neg0 and init_key == k0
    rep.ob('orientation', mod, n0, 'jumpnetworkevaluator: list centred on the initial site %s has weight %s' % (k0, unparse(n0.value.elt.elts[2])), ok,
           '' if ok else 'the sign convention is reversed: barriers change by +E(initial) - E(final)', engine='exchange',
           qual='ClusterSupercell.jumpnetworkevaluator')
    # exclusion: the initial list excludes clusters containing the final endpoint seen from the initial cell (+dR) and vice versa
    ends = {}
    for bnd in pattern.find(je, '_N_cs = cluster.ClusterSite(_N_k, _E_R)'):
        ends[bnd['_N_cs']] = (bnd['_N_k'], bnd['_E_R'])
    e0, e1 = ends.get(ex0[0]), ends.get(ex1[0])
    from ..engines.linform import linform
    ok = e0 is not None and e1 is not None and e0[0] == k1 and e1[0] == k0 and linform(ast.parse(e0[1], mode='eval').body) == \
        linform(ast.parse('-(%s)' % e1[1], mode='eval').body)
    rep.ob('orientation', mod, n0, 'excluded endpoints: %s = site %s at %s ; %s = site %s at %s' % (ex0[0], e0 and e0[0], e0 and e0[1], ex1[0],
                                                                                           e1 and e1[0], e1 and e1[1]), bool(ok),
           '' if ok else 'each list must drop the clusters containing the other endpoint, located at +/- the same lattice vector',
           engine='exchange', qual='ClusterSupercell.jumpnetworkevaluator')
    # cells: initial terms with Ri, final terms with Rj = Ri + dR
    loop = [n for n in walk_local(je) if isinstance(n, ast.For) and isinstance(n.iter, ast.BinOp)]
    ok = False
    if loop:
        terms = _sum_terms(loop[0].iter)
        if len(terms) == 2 and all(isinstance(t, ast.ListComp) for t in terms):
            pairs = {unparse(t.generators[0].iter): unparse(t.elt) for t in terms}
            r_of = {}
            for t in terms:
                cell = [x for x in ast.walk(t.elt) if isinstance(x, ast.Tuple) and len(x.elts) == 1]
                r_of[unparse(t.generators[0].iter)] = unparse(cell[0].elts[0]) if cell else None
            ri, rj = r_of.get(unparse(n0.targets[0])), r_of.get(unparse(n1.targets[0]))
            ok = ri is not None and rj is not None and pattern.has(je, '_N_rj = _N_ri + _N_dR', _N_ri=ri, _N_rj=rj) and \
                pattern.has(je, 'for _N_ri in self.Rveclist:\n    _E_b'.replace('_E_b', 'pass')) is not None
    located = bool(loop) and len(_sum_terms(loop[0].iter)) == 2 and all(isinstance(t, ast.ListComp) for t in _sum_terms(loop[0].iter))
    if not located:
        rep.undecided('jumpnetworkevaluator: the loop over initial-centred + final-centred interaction lists was not located')
        ok = True
    rep.ob('orientation', mod, loop[0] if loop else je, 'initial-centred terms are evaluated at Ri, final-centred terms at Rj = Ri + dR', ok,
           '' if ok else 'interaction lists are evaluated at the wrong cell', engine='exchange', qual='ClusterSupercell.jumpnetworkevaluator')
    # ---- vacancy evaluator: four-term map
    cm = [n for n in walk_local(jv) if isinstance(n, ast.Assign) and unparse(n.targets[0]) == 'clusterinteract_map']
    if len(cm) != 1:
        raise AnalysisError('jumpnetworkevaluator_vacancy: clusterinteract_map not found')
    terms = _sum_terms(cm[0].value)
    if len(terms) != 4 or not all(isinstance(t, ast.ListComp) for t in terms):
        raise AnalysisError('jumpnetworkevaluator_vacancy: expected four list comprehensions, found %d' % len(terms))
    # slots from the tuple elements: (ms, ss, weight, cell, map)
    cells = sorted({unparse(t.elt.elts[3]) for t in terms})
    maps = sorted({unparse(t.elt.elts[4]) for t in terms})
    keys = sorted({unparse(t.generators[0].iter.slice) for t in terms})
    excl = sorted({unparse(c.left) for t in terms for c in t.generators[0].ifs if isinstance(c, ast.Compare)})
    vname = unparse(terms[0].generators[0].target.elts[2])
    if not (len(cells) == len(maps) == len(keys) == len(excl) == 2):
        rep.ob('antisymmetric-weights', mod, cm[0], 'jumpnetworkevaluator_vacancy: cells %s maps %s sites %s exclusions %s' % (cells, maps, keys, excl),
               False, 'the four-term list does not use exactly two cells / maps / sites / excluded endpoints: it cannot be antisymmetric '
                      'under exchanging the endpoints', engine='exchange', qual='ClusterSupercell.jumpnetworkevaluator_vacancy')
        raise AnalysisError('jumpnetworkevaluator_vacancy: slots of the four-term map not recognised')
    sig = swap_sigma([tuple(cells), tuple(maps), tuple(keys), tuple(excl)])
    orig = sorted(_comp_canon(t) for t in terms)
    img = sorted(_comp_canon(t, sig, negate=vname) for t in terms)
    ok = orig == img
    rep.ob('antisymmetric-weights', mod, cm[0], 'jumpnetworkevaluator_vacancy: four-term map under (%s, %s, %s, %s swapped, %s -> -%s)'
           % ('<->'.join(keys), '<->'.join(cells), '<->'.join(maps), '<->'.join(excl), vname, vname), ok,
           '' if ok else 'the four interaction lists are not antisymmetric under exchanging the endpoints: detailed balance is broken for '
                         'vacancy jumps', engine='exchange', qual='ClusterSupercell.jumpnetworkevaluator_vacancy')
    # orientation: vacancy cluster at the initial site (the vacancy, cell R_vac, identity map) is negative
    first = terms[0]
    ok = unparse(first.generators[0].iter.value) == 'vacclusterinteract' and _lf(first.elt.elts[2]) == {vname: -1} \
        and unparse(first.elt.elts[3]) == 'R_vac' and unparse(first.elt.elts[4]) == 'init_map'
    ok = ok and pattern.has(jv, '_N_rev = _N_init.copy()') and pattern.has(jv, '_N_rev[_N_i] = _N_j') and pattern.has(jv, '_N_rev[_N_j] = _N_i')
    rep.ob('orientation', mod, first, 'vacancy clusters at the initial site: weight -%s at R_vac with the unswapped map; rev_map swaps i and j' % vname, ok,
           '' if ok else 'sign convention or the endpoint-swapping map is wrong', engine='exchange', qual='ClusterSupercell.jumpnetworkevaluator_vacancy')
    # ---- half weights
    for fn, q in ((je, 'jumpnetworkevaluator'), (jv, 'jumpnetworkevaluator_vacancy')):
        halves = [t for t in ast.walk(fn) if isinstance(t, ast.Tuple) and len(t.elts) == 3 and unparse(t.elts[0]) == 'mobilesites'
                  and unparse(t.elts[1]) == 'specsites']
        en = [t for t in halves if _in_dict(t, ('clusterinteract', 'vacclusterinteract'))]
        ts = [t for t in halves if _in_dict(t, ('TSclusterinteract',))]
        ok = bool(en) and all(canon(t.elts[2]) == canon(ast.parse('0.5 * value', mode='eval').body) for t in en)
        if not en:
            rep.undecided('%s: entries stored for the energy clusters were not located' % q)
            ok = True
        rep.ob('half-weight', mod, fn, '%s: %d energy-cluster entries stored with 0.5 * value' % (q, len(en)), ok,
               '' if ok else 'some energy cluster does not enter with half its value on each side', engine='exchange', qual='ClusterSupercell.' + q)
        ok = bool(ts) and all(unparse(t.elts[2]) == 'value' for t in ts)
        if not ts:
            rep.undecided('%s: entries stored for the transition-state clusters were not located' % q)
            ok = True
        rep.ob('half-weight', mod, fn, '%s: %d transition-state entries stored with value' % (q, len(ts)), ok,
               '' if ok else 'transition-state cluster weight changed', engine='exchange', qual='ClusterSupercell.' + q)
    # TS both orientations in the non-vacancy evaluator
    b0 = pattern.find(je, '_N_t0 = (_N_TS[0] - _N_R0, _N_TS[1] - _N_R0)')
    b1 = pattern.find(je, '_N_t1 = (_N_TS[1] - _N_R1, _N_TS[0] - _N_R1)')
    ok = bool(b0) and bool(b1) and pattern.has(je, '_N_R0 = _N_TS[0].R') and pattern.has(je, '_N_R1 = _N_TS[1].R')
    if not b0 and not b1:
        rep.undecided('jumpnetworkevaluator: the keys under which a TS cluster is registered were not located')
        ok = True
    rep.ob('half-weight', mod, je, 'jumpnetworkevaluator: a TS cluster is registered for both orientations of its transition', ok,
           '' if ok else 'forward and backward jumps see different transition-state clusters', engine='exchange',
           qual='ClusterSupercell.jumpnetworkevaluator')
    # ---- bookkeeping
    for fn, q in ((je, 'jumpnetworkevaluator'), (jv, 'jumpnetworkevaluator_vacancy')):
        ja = pattern.find(fn, 'jumps.append(((_N_i, _N_j), _N_dx))')
        okj = len(ja) == 1
        blk = getattr(getattr(ja[0]['_node'], '_parent', None), '_parent', None) if okj else None
        seq = pattern.has(fn, 'interact.append(_N_E0)') and pattern.has(fn, 'interactrange.append(Ninteract)') \
            and pattern.has(fn, 'interactrange.append(Ninteract0)')
        last = fn.body[-2] if len(fn.body) > 1 else None
        okl = last is not None and pattern.has(last, 'interactrange.append(Ninteract0)')
        rep.ob('jump-bookkeeping', mod, fn, '%s: one jumps.append per transition, constant term and range end appended, energy range last' % q,
               okj and seq and okl, '' if okj and seq and okl else 'jump list and interaction ranges get out of step', engine='owner',
               qual='ClusterSupercell.' + q)
        # endpoints of the jump: i at the initial cell/site, j at initial cell + dR / final site
        if okj:
            i_, j_ = ja[0]['_N_i'], ja[0]['_N_j']
            oki = bool(pattern.find(fn, '_N_i = self.index(_N_R, _N_c0)[0]', _N_i=i_)) and bool(pattern.find(fn, '_N_j = self.index(_N_Rj, _N_c1)[0]', _N_j=j_))
            rep.ob('jump-bookkeeping', mod, ja[0]['_node'], '%s: (i, j) are the supercell indices of the two endpoints' % q, oki,
                   '' if oki else 'jump endpoints are not indexed from their cells', engine='owner', qual='ClusterSupercell.' + q)


def _in_dict(t, names):
    """tuple t is appended to / stored in one of the named dictionaries."""
    p = getattr(t, '_parent', None)
    while p is not None and not isinstance(p, (ast.Assign, ast.Expr)):
        p = getattr(p, '_parent', None)
    if p is None:
        return False
    txt = unparse(p)
    return any(txt.startswith(n + '[') for n in names)


SC = 'onsager/supercell.py'
BREAKERS = [
    (SC, "clusterinteract_cj0 = [(ms, ss, val) for (ms, ss, val) in clusterinteract[cj0] if cs_i not in ms]",
     "clusterinteract_cj0 = [(ms, ss, -val) for (ms, ss, val) in clusterinteract[cj0] if cs_i not in ms]", 'antisymmetric-weights'),
    (SC, "clusterinteract_ci0 = [(ms, ss, -val) for (ms, ss, val) in clusterinteract[ci0] if cs_j not in ms]\n                clusterinteract_cj0 = [(ms, ss, val) for (ms, ss, val) in clusterinteract[cj0] if cs_i not in ms]",
     "clusterinteract_ci0 = [(ms, ss, val) for (ms, ss, val) in clusterinteract[ci0] if cs_j not in ms]\n                clusterinteract_cj0 = [(ms, ss, -val) for (ms, ss, val) in clusterinteract[cj0] if cs_i not in ms]", 'orientation'),
    (SC, "clusterinteract_cj0 = [(ms, ss, val) for (ms, ss, val) in clusterinteract[cj0] if cs_i not in ms]",
     "clusterinteract_cj0 = [(ms, ss, val) for (ms, ss, val) in clusterinteract[cj0]]", 'antisymmetric-weights'),
    (SC, "                            clusterinteract[cs.ci].append((mobilesites, specsites, 0.5 * value))\n                        else:\n                            clusterinteract[cs.ci] = [(mobilesites, specsites, 0.5 * value)]\n        # \"flatten\" the TS clusters. To simplify, we put in both forward and backward jumps\n        TSclusterinteract = {}\n        for TSclusterlist, value in zip(TSclusters, TSvalues):\n            for TSclust in TSclusterlist:\n                TS = TSclust.transitionstate()",
     "                            clusterinteract[cs.ci].append((mobilesites, specsites, value))\n                        else:\n                            clusterinteract[cs.ci] = [(mobilesites, specsites, 0.5 * value)]\n        # \"flatten\" the TS clusters. To simplify, we put in both forward and backward jumps\n        TSclusterinteract = {}\n        for TSclusterlist, value in zip(TSclusters, TSvalues):\n            for TSclust in TSclusterlist:\n                TS = TSclust.transitionstate()",
     'half-weight'),
    (SC, "[(ms, ss, +val, Rj, rev_map) for (ms, ss, val) in vacclusterinteract[cj0]]", "[(ms, ss, +val, Rj, init_map) for (ms, ss, val) in vacclusterinteract[cj0]]", 'antisymmetric-weights'),
    (SC, "[(ms, ss, -val, Rj, init_map) for (ms, ss, val) in clusterinteract[cj0]\n                                       if cs_i not in ms]",
     "[(ms, ss, -val, Rj, init_map) for (ms, ss, val) in clusterinteract[cj0]\n                                       if cs_j not in ms]", 'antisymmetric-weights'),
    (SC, "                cs_i = cluster.ClusterSite(ci0, -dR)\n                cs_j = cluster.ClusterSite(cj0, dR)\n                # construct sublists", "                cs_i = cluster.ClusterSite(ci0, dR)\n                cs_j = cluster.ClusterSite(cj0, dR)\n                # construct sublists", 'orientation'),
]
NEUTRALS = []
