#!/bin/sh
# usage: tools/try_tree.sh <tree> [props...]   -- run the quick checks on another checkout without writing evidence
T=$1; shift
cd /verif && ONSAGER_REPO=$T SA_NOWRITE=1 /venv/bin/python -m sa.cli all "$@" --tier quick 2>&1 | grep -v "^C[0-9][0-9] tier=" 
