"""
C21 -- jump networks are complete, closed and obstruction-aware (structural clauses).

Not decided: completeness with respect to the cutoff (a geometric search).  Decided:
  * reversal pairing: every jump appended to a class is appended together with its reverse, the site pair swapped and
    the displacement negated;
  * the lattice form of a jump, round(invlatt . dx - basis[j] + basis[i]), is the same linear form at the four places
    that compute it (Crystal.jumpnetwork2lattice, PairState.fromcrys, cluster.makeTSclusters, ClusterSupercell.evalTScluster);
  * the search range of lattice translations is the same formula wherever neighbours within a cutoff are enumerated
    (Crystal.jumpnetwork, cluster.makeclusters);
  * obstruction pruning removes classes while walking the class list backwards (or over a copy), tests the class
    representative, and never tests the mobile species against itself;
  * the symmetry expansion of a new jump runs over every operation of the crystal, images both endpoints with the same
    operation and recomputes the displacement from the imaged endpoints;
  * dimension-generic.
"""
import ast
from ..model import ast_copy as _ast_copy

from ..model import AnalysisError, dotted, unparse, walk_local
from ..engines import pattern, flow
from ..engines.linform import linform, rename, canon, lin_str
from ._common import dim_generic, resolve_local

FORMULA_SITES = [  # (module, function, renaming to the canonical names crys / i / j / dx / chem)
    ('crystal', 'Crystal.jumpnetwork2lattice', {'self': 'crys'}),
    ('crystalStars', 'PairState.fromcrys', {'ij[0]': 'i', 'ij[1]': 'j'}),
    ('cluster', 'makeTSclusters', {}),
    ('supercell', 'ClusterSupercell.evalTScluster', {'self.crys': 'crys'}),
]


def run(model, rep, tier):
    rep.explanation = __doc__.strip()
    from ._common import caches_for
    caches_for(model, rep, 'C21')
    rep.not_decided = 'that every jump below the cutoff is found and that exactly the obstructed ones are removed (geometry)'
    rep.rule('reversal-pairing', 'X.append((pair, dx)) is accompanied by X.append((reversed pair, -dx))')
    rep.rule('lattice-vector-formula', 'the four computations of the lattice vector of a jump are one linear form')
    rep.rule('search-range-formula', 'the translation search range is the same formula in every neighbour enumeration')
    rep.rule('safe-pruning', 'classes are removed while iterating backwards; the representative is tested; own species skipped')
    rep.rule('symmetry-expansion', 'a new jump is imaged by every operation, endpoints together, displacement recomputed')
    mod = model.mod('crystal')
    fn = model.func('crystal', 'Crystal.jumpnetwork')
    # ---- reversal pairing
    pairs = 0
    for b in pattern.find(fn, '_N_l.append((_N_t, _N_dx))'):
        pairs += 1
        blk = getattr(b['_node'], '_parent', None)
        ok = pattern.has(blk, '_N_l.append(((_N_t[1], _N_t[0]), -_N_dx))', **{k: v for k, v in b.items() if k.startswith('_N_')})
        rep.ob('reversal-pairing', mod, b['_node'], 'Crystal.jumpnetwork: %s with its reverse' % unparse(b['_node']), ok,
               '' if ok else 'the reverse jump (sites swapped, displacement negated) is not added to the same class: the class is '
                             'not closed under reversal', engine='owner', qual='Crystal.jumpnetwork')
    rep.floor('forward appends in Crystal.jumpnetwork', pairs, 1)
    # ---- lattice vector formula
    ref = None
    for mname, q, sig in FORMULA_SITES:
        m = model.mod(mname)
        f = model.func(mname, q)
        # the rounded expression, with geometric temporaries (locals bound once to something built from invlatt / basis)
        # written out
        geo = lambda d: any(k in unparse(d) for k in ('invlatt', '.basis'))
        cands = [c for c in ast.walk(f) if isinstance(c, ast.Call) and (dotted(c.func) or '').endswith('round') and c.args
                 and 'invlatt' in unparse(resolve_local(f, c.args[0], only=geo))]
        if len(cands) != 1:
            raise AnalysisError('%s.%s: lattice-vector formula not found' % (mname, q))
        lf = linform(rename(resolve_local(f, cands[0].args[0], only=geo), sig))
        par = getattr(cands[0], '_parent', None)
        isint = isinstance(par, ast.Attribute) and par.attr == 'astype'
        if ref is None:
            ref = lf
            want = {'np.dot(crys.invlatt, dx)': 1, 'crys.basis[chem][i]': 1, 'crys.basis[chem][j]': -1}
            ok = {k: int(v) for k, v in lf.items()} == want and isint
            rep.ob('lattice-vector-formula', m, cands[0], '%s: R = round(%s)' % (q, lin_str(lf)), ok,
                   '' if ok else 'not invlatt.dx + basis[i] - basis[j] rounded to integers', engine='siblings', qual=q)
        else:
            ok = lf == ref and isint
            rep.ob('lattice-vector-formula', m, cands[0], '%s: R = round(%s)' % (q, lin_str(lf)), ok,
                   '' if ok else 'differs from Crystal.jumpnetwork2lattice (%s): the same jump gets two lattice vectors' % lin_str(ref),
                   engine='siblings', qual=q)
    # ---- search range
    forms = {}
    for mname, q, sig in (('crystal', 'Crystal.jumpnetwork', {'self': 'crys'}), ('cluster', 'makeclusters', {})):
        f = model.func(mname, q)
        a = [n for n in walk_local(f) if isinstance(n, ast.Assign) and unparse(n.targets[0]) == 'nmax']
        if len(a) != 1:
            raise AnalysisError('%s.%s: nmax definition not found' % (mname, q))
        forms[q] = (canon(rename(_anon_comp(a[0].value), sig)), a[0], model.mod(mname))
    (ca, na, ma), (cb, nb, mb) = forms['Crystal.jumpnetwork'], forms['makeclusters']
    ok = ca == cb
    rep.ob('search-range-formula', ma, na, 'jumpnetwork nmax = %s' % unparse(na.value), ok,
           '' if ok else 'differs from cluster.makeclusters (%s): one of the two enumerations misses neighbours inside the cutoff'
           % unparse(nb.value), engine='siblings', qual='Crystal.jumpnetwork')
    # r2 is the squared cutoff and the acceptance window is 0 < dx.dx < r2
    okw = pattern.has(fn, '_N_r2 = cutoff * cutoff') and (pattern.has(fn, 'np.dot(_N_dx, _N_dx) > 0 and np.dot(_N_dx, _N_dx) < _N_r2', 'expr')
                                                         or pattern.has(fn, '0 < np.dot(_N_dx, _N_dx) < _N_r2', 'expr'))
    rep.ob('search-range-formula', mod, fn, 'jumpnetwork accepts 0 < |dx|^2 < cutoff^2', okw, '' if okw else 'acceptance window changed',
           engine='siblings', qual='Crystal.jumpnetwork')
    # ---- pruning
    bad = list(flow.unsafe_pops(fn))
    rep.ob('safe-pruning', mod, fn, 'Crystal.jumpnetwork: removal of obstructed classes iterates safely', not bad,
           '' if not bad else bad[0][2], engine='flow', qual='Crystal.jumpnetwork')
    pops = [c for c in ast.walk(fn) if isinstance(c, ast.Call) and isinstance(c.func, ast.Attribute) and c.func.attr in ('pop', 'remove')]
    rep.floor('class removals in Crystal.jumpnetwork', len(pops), 1)
    okr = pattern.has(fn, '_N_t = _N_trans[0]')
    rep.ob('safe-pruning', mod, fn, 'the obstruction test uses the class representative trans[0]', okr,
           '' if okr else 'representative of the class not used', engine='flow', qual='Crystal.jumpnetwork')
    own = pattern.find(fn, '[_E_a if _N_c != chem else -1.0 for _N_c in range(self.Nchem)]', 'expr') + \
        pattern.find(fn, '[_E_a if _N_c != chem else -1.0 for _N_c, _N_x in enumerate(closestdistance)]', 'expr')
    skip = pattern.has(fn, 'if _N_m < 0:\n    continue')
    rep.ob('safe-pruning', mod, fn, 'the mobile species itself is given a negative distance and skipped', len(own) == 2 and skip,
           '' if len(own) == 2 and skip else 'the jumping atom is tested as an obstacle of its own jump', engine='flow',
           qual='Crystal.jumpnetwork')
    # ---- symmetry expansion
    exp = [lp for lp in walk_local(fn) if isinstance(lp, ast.For) and unparse(lp.iter) == 'self.G']
    ok = False
    if exp:
        g = unparse(exp[0].target)
        b1 = pattern.find(exp[0], '_N_R1, _N_i1 = self.g_pos(_N_g, _N_c, (chem, _N_i))', _N_g=g)
        b2 = pattern.find(exp[0], '_N_R2, _N_i2 = self.g_pos(_N_g, _N_n, (chem, _N_j))', _N_g=g)
        b2 = [x for x in b2 if b1 and x['_N_R2'] != b1[0]['_N_R1']]
        # the final site is imaged from the candidate translation (the enclosing loop variable), the initial one from zero
        encl = getattr(exp[0], '_parent', None)
        while encl is not None and not isinstance(encl, ast.For):
            encl = getattr(encl, '_parent', None)
        nvar = unparse(encl.target) if encl is not None else None
        zero = [x for x in pattern.find(fn, '_N_c = np.zeros(self.dim, dtype=int)')]
        b2 = [x for x in b2 if x['_N_n'] == nvar]
        b1 = [x for x in b1 if zero and x['_N_c'] == zero[0]['_N_c']]
        if b1 and b2:
            ok = pattern.has(exp[0], '_N_dx = self.pos2cart(_N_R2, _N_i2) - self.pos2cart(_N_R1, _N_i1)',
                             _N_R1=b1[0]['_N_R1'], _N_i1=b1[0]['_N_i1'], _N_R2=b2[0]['_N_R2'], _N_i2=b2[0]['_N_i2']) and \
                pattern.has(exp[0], '_N_tup = (_N_i1[1], _N_i2[1])', _N_i1=b1[0]['_N_i1'], _N_i2=b2[0]['_N_i2'])
    rep.ob('symmetry-expansion', mod, exp[0] if exp else fn, 'for g in self.G: image both endpoints with g, dx = x(final image) - x(initial image)',
           ok, '' if ok else 'a class is not the full orbit of its first jump (or the displacement is not recomputed from the images)',
           engine='flow', qual='Crystal.jumpnetwork')
    dim_generic(model, rep, [('crystal', 'Crystal.jumpnetwork'), ('crystal', 'Crystal.jumpnetwork2lattice'), ('crystal', 'Crystal.sitelist')],
                min_functions=3)


def _anon_comp(e):
    """comprehension variables renamed _0, _1, ... (sibling formulas are compared up to the name of the running index)"""
    import copy
    e = _ast_copy(e)
    names = {}
    for c in ast.walk(e):
        if isinstance(c, ast.comprehension):
            for t in ast.walk(c.target):
                if isinstance(t, ast.Name) and t.id not in names:
                    names[t.id] = '_%d' % len(names)
    for n in ast.walk(e):
        if isinstance(n, ast.Name) and n.id in names:
            n.id = names[n.id]
    return e


CR = 'onsager/crystal.py'
BREAKERS = [
    (CR, "                                    trans.append(((tup[1], tup[0]), -dx))", "                                    trans.append(((tup[1], tup[0]), dx))", 'reversal-pairing'),
    (CR, "                                    trans.append(((tup[1], tup[0]), -dx))", "                                    pass", 'reversal-pairing'),
    (CR, "np.round(np.dot(self.invlatt, dx) + self.basis[chem][i] - self.basis[chem][j]).astype(int))", "np.round(np.dot(self.invlatt, dx) - self.basis[chem][i] + self.basis[chem][j]).astype(int))",
     'lattice-vector-formula'),
    ('onsager/cluster.py', "R = np.round(np.dot(crys.invlatt, dx) - crys.basis[chem][j] + crys.basis[chem][i]).astype(int)",
     "R = np.round(np.dot(crys.invlatt, dx)).astype(int)", 'lattice-vector-formula'),
    (CR, "                    for ntrans in range(len(lis)-1,-1,-1):\n                        trans = lis[ntrans]", "                    for ntrans in range(len(lis)):\n                        trans = lis[ntrans]",
     'safe-pruning'),
    (CR, "        nmax = [int(np.round(np.sqrt(r2/self.metric[i, i]))) + 1\n                for i in range(self.dim)]\n        nranges = [range(-n, n+1) for n in nmax]\n        supervect = [np.array(ntup) for ntup in itertools.product(*nranges)]\n        lis = []",
     "        nmax = [int(np.ceil(cutoff/np.sqrt(self.metric[i, i])))\n                for i in range(self.dim)]\n        nranges = [range(-n, n+1) for n in nmax]\n        supervect = [np.array(ntup) for ntup in itertools.product(*nranges)]\n        lis = []",
     'search-range-formula'),
    (CR, "                                R2, ind2 = self.g_pos(g, n, (chem, j))", "                                R2, ind2 = self.g_pos(g, center, (chem, j))", 'symmetry-expansion'),
]
NEUTRALS = [
    (CR, "np.round(np.dot(self.invlatt, dx) + self.basis[chem][i] - self.basis[chem][j]).astype(int))", "np.round(self.basis[chem][i] + np.dot(self.invlatt, dx) - self.basis[chem][j]).astype(int))"),
]
