#!/bin/bash
# usage: tools/try4.sh Cxx v [props...] -- like try3.sh for round-4 seeds under /tmp/seed4 (scratch tree /tmp/sw/Cxxv)
id=$1; v=$2; shift 2
t=/tmp/sw/$id$v
if [ ! -d $t ]; then mkdir -p $t && git -C /repo archive HEAD | tar -x -C $t && ( cd $t && patch -s -p1 < $( [ -f /verif/seeded/$id$v/patch.diff ] && echo /verif/seeded/$id$v/patch.diff || echo /tmp/seed4/$id/patch_$v.diff ) ) || { echo "cannot build $t"; exit 2; }; fi
props=${@:-$(jq -r '.checks[].property_id' /verif/MANIFEST.json)}
cd /verif
for p in $props; do
  ( out=$(ONSAGER_REPO=$t SA_NOWRITE=1 /venv/bin/python -m sa.cli check $p --tier quick 2>&1)
    echo "$out" | grep -A1 "^VIOLATION\|^ANALYSIS-ERROR" | grep -v "^VIOLATION\|^--" | cut -c1-330 | sed "s/^/$p: /" ) &
done
wait
echo "[$id$v done]"
