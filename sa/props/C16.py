"""
C16 -- Taylor-expansion arithmetic commutes with evaluation (structural clauses).

Not decided: the index tables and the algebra themselves (evaluating them is execution).  Decided:
  * override: every Taylor3D member that contains three-dimensional constructs is overridden by Taylor2D or cannot be
    reached from anything Taylor2D exposes; inherited methods construct results through type(self)/cls only;
  * purity: the non-in-place forms of the coefficient operations never write through their operands, and do not hand
    the operand back as the result;
  * the in-place and the copying branch of truncation use complementary predicates over *all* entries;
  * class-level index tables are written only by the make* / __initTaylor?Dindexing__ routines;
  * no accumulation through an array-valued index.
This matters because the only test module for this file does not import.
"""
import ast

from ..model import AnalysisError, dotted, unparse, walk_local
from ..engines import pattern
from ..engines.linform import canon
from . import _taylor

OPS = ['negcoeff', 'scalarproductcoeff', 'sumcoeff', 'tensorproductcoeff', 'coeffproductcoeff', 'reducecoeff', 'collectcoeff',
       'separatecoeff', 'truncatecoeff']
TABLES = {'pow2ind', 'ind2pow', 'powlrange', 'Lproj', 'directmult', 'powercoeff', 'Npower', 'Lmax', 'NYlm', 'NFC', 'Ylm2ind', 'ind2Ylm',
          'FC2ind', 'ind2FC', 'Ylmpow', 'powYlm', 'FCpow', 'powFC', '__INITIALIZED__', 'internalarrays'}


def _ieval(e, env):
    """integer value of an arithmetic expression over the names in env; None if anything else occurs."""
    if isinstance(e, ast.Constant) and isinstance(e.value, int) and not isinstance(e.value, bool):
        return e.value
    if isinstance(e, ast.Name):
        return env.get(e.id)
    if isinstance(e, ast.UnaryOp) and isinstance(e.op, (ast.USub, ast.UAdd)):
        v = _ieval(e.operand, env)
        return None if v is None else (-v if isinstance(e.op, ast.USub) else v)
    if isinstance(e, ast.BinOp) and isinstance(e.op, (ast.Add, ast.Sub, ast.Mult, ast.FloorDiv, ast.Mod)):
        a, b = _ieval(e.left, env), _ieval(e.right, env)
        if a is None or b is None or (isinstance(e.op, (ast.FloorDiv, ast.Mod)) and b == 0):
            return None
        return {ast.Add: a + b, ast.Sub: a - b, ast.Mult: a * b, ast.FloorDiv: a // b if b else None, ast.Mod: a % b if b else None}[type(e.op)]
    return None


def _range_cover(it):
    """``it``: range(...) / reversed(range(...)) / range(...)[::-1] over a single free name v.  Returns (v, None) when for
    every v in 0..8 the values are exactly 0..v-1, (v, (v0, missing values)) for the first v0 where some are skipped, None when
    the expression is not of that kind."""
    if isinstance(it, ast.Call) and unparse(it.func) == 'reversed' and len(it.args) == 1:
        it = it.args[0]
    if isinstance(it, ast.Subscript) and unparse(it.slice) == '::-1':
        it = it.value
    if not (isinstance(it, ast.Call) and unparse(it.func) == 'range' and 1 <= len(it.args) <= 3 and not it.keywords):
        return None
    free = sorted({x.id for a in it.args for x in ast.walk(a) if isinstance(x, ast.Name)})
    if len(free) != 1:
        return None
    v = free[0]
    for val in range(0, 9):
        args = [_ieval(a, {v: val}) for a in it.args]
        if any(a is None for a in args) or (len(args) == 3 and args[2] == 0):
            return None
        got = set(range(*args))
        miss = sorted(set(range(val)) - got)
        if miss:
            return v, (val, miss)
    return v, None


def run(model, rep, tier):
    rep.explanation = __doc__.strip()
    from ._common import caches_for
    caches_for(model, rep, 'C16')
    rep.not_decided = 'correctness of the index tables and of the coefficient algebra (evaluation is execution)'
    nspec, nctor = _taylor.override_rule(model, rep)
    rep.floor('3D-specific Taylor3D members', nspec, 9)
    rep.floor('type(self)/cls construction sites', nctor, 12)
    n = _taylor.purity_rule(model, rep, OPS)
    rep.floor('coefficient operations analysed', n, 9)
    _taylor.fancy_rule(model, rep)
    mod = model.mod('PowerExpansion')
    t3 = model.cls('PowerExpansion', 'Taylor3D')
    # ---- truncation branches
    rep.rule('truncate-branches-agree', 'in-place truncation removes exactly the entries the copying branch drops')
    tc = t3.methods['truncatecoeff']
    keep = pattern.find(tc, '[(_N_n, _N_l, _N_c.copy()) for _N_n, _N_l, _N_c in _N_a if _E_pred]', 'expr')
    keep_ok = bool(keep) and keep[0]['_E_pred'].replace(' ', '') in ('%s<=Nmax' % keep[0]['_N_n'], 'Nmax>=%s' % keep[0]['_N_n'],
                                                                      'not%s>Nmax' % keep[0]['_N_n'], 'not(%s>Nmax)' % keep[0]['_N_n'])
    # locate: the in-place removal (a loop around a pop on the operand, or a slice assignment of the filtered list)
    from ._common import conditions_at
    ok = None
    if keep:
        a = keep[0]['_N_a']
        pops = [c for c in walk_local(tc) if isinstance(c, ast.Call) and isinstance(c.func, ast.Attribute) and c.func.attr == 'pop'
                and unparse(c.func.value) == a]
        sl = [st for st in walk_local(tc) if isinstance(st, ast.Assign) and isinstance(st.targets[0], ast.Subscript) and unparse(st.targets[0].value) == a
              and isinstance(st.targets[0].slice, ast.Slice)]
        if pops:
            c = pops[0]
            lp = c
            while lp is not None and not isinstance(lp, (ast.For, ast.While)):
                lp = getattr(lp, '_parent', None)
            # verify: every index is visited, from the back, and an entry goes exactly when its n exceeds Nmax
            full = isinstance(lp, ast.For) and unparse(lp.iter) in ('range(len(%s) - 1, -1, -1)' % a, 'reversed(range(len(%s)))' % a,
                                                                     'range(len(%s))[::-1]' % a)
            i_ = unparse(lp.target) if isinstance(lp, ast.For) else None
            conds = conditions_at(tc, c)
            ok = bool(full) and c.args and unparse(c.args[0]) == i_ and ('%s[%s][0] > Nmax' % (a, i_) in conds or 'Nmax < %s[%s][0]' % (a, i_) in conds)
        elif sl:
            ok = pattern.has(sl[0], '[_N_t for _N_t in %s if _N_t[0] <= Nmax]' % a, 'expr')
    if ok is None:
        rep.undecided('truncatecoeff: copying filter / in-place removal not recognised')
        ok = True
    elif keep and not keep_ok:
        ok = False
    rep.ob('truncate-branches-agree', mod, tc, 'truncatecoeff: copy keeps n <= Nmax ; in place pops every index with n > Nmax (full reverse scan)', ok,
           '' if ok else 'the in-place branch does not examine every entry with the complementary predicate: truncate(N, inplace=True) and '
                         'truncate(N) disagree on unsorted coefficient lists', engine='siblings', qual='Taylor3D.truncatecoeff')
    # ---- separation projects onto every lower l
    rep.rule('separate-projects-every-l', 'separatecoeff extracts the l0 component of an (n, l) term for every l0 < l')
    sc = t3.methods.get('separatecoeff')
    if sc is None:
        raise AnalysisError('anchor vanished: Taylor3D.separatecoeff')
    loops = [lp for lp in walk_local(sc) if isinstance(lp, ast.For) and isinstance(lp.target, ast.Name)
             and any(isinstance(x, ast.Subscript) and unparse(x.value).endswith('.Lproj') and unparse(x.slice) == lp.target.id
                     for x in ast.walk(lp))]
    if not loops:
        rep.undecided('separatecoeff: the loop over lower l components (indexing Lproj with its own variable) was not located')
    for lp in loops:
        cover = _range_cover(lp.iter)
        if cover is None:
            rep.undecided('separatecoeff: loop range %s not evaluated' % unparse(lp.iter)[:60])
            continue
        var, missing = cover
        rep.ob('separate-projects-every-l', mod, lp, 'separatecoeff: for %s in %s' % (lp.target.id, unparse(lp.iter)), not missing,
               '' if not missing else 'for %s = %d the loop skips l0 = %s: a general (n, l) coefficient block holds components of every '
               'l0 < l (both parities), and the skipped ones are dropped when the block is replaced by its pure-l projection, so '
               'separate() changes the value of the expansion' % (var, missing[0], missing[1]), engine='bounds',
               qual='Taylor3D.separatecoeff')
    # ---- class tables
    rep.rule('table-owners', 'class-level index tables are assigned only in make* / __initTaylor?Dindexing__')
    nbad = 0
    for cname in ('Taylor3D', 'Taylor2D'):
        ci = model.cls('PowerExpansion', cname)
        for name, fn in ci.methods.items():
            owner_ok = name.startswith('make') or name.startswith('__initTaylor')
            for n in walk_local(fn):
                tg = []
                if isinstance(n, ast.Assign):
                    for t in n.targets:
                        tg += t.elts if isinstance(t, ast.Tuple) else [t]
                elif isinstance(n, ast.AugAssign):
                    tg = [n.target]
                for t in tg:
                    root = t
                    while isinstance(root, ast.Subscript):
                        root = root.value
                    if isinstance(root, ast.Attribute) and unparse(root.value) in ('cls', 'Taylor3D', 'Taylor2D', 'type(self)', 'self.__class__') \
                            and root.attr in TABLES and not owner_ok:
                        nbad += 1
                        rep.ob('table-owners', mod, n, '%s.%s writes class table %s' % (cname, name, root.attr), False,
                               'a shared index table is modified outside its constructor: every expansion of the class is affected',
                               engine='owner', qual='%s.%s' % (cname, name))
    rep.ob('table-owners', mod, t3.node, 'class tables are written only by their constructors (%d foreign writes)' % nbad, nbad == 0,
           nontrivial=False, engine='owner')


PE = 'onsager/PowerExpansion.py'
BREAKERS = [
    (PE, "                    ca.append((an, almax, c * apow))", "                    apow *= c\n                    ca.append((an, almax, apow))", 'operand-purity'),
    (PE, "            return [(n, l, c.copy()) for (n, l, c) in acoeff if n <= Nmax]", "            return [(n, l, c.copy()) for (n, l, c) in acoeff if n < Nmax]", 'truncate-branches-agree'),
    (PE, "            for ind in range(len(acoeff) - 1, -1, -1):\n                if acoeff[ind][0] > Nmax:\n                    acoeff.pop(ind)",
     "            while len(acoeff) > 0 and acoeff[-1][0] > Nmax:\n                acoeff.pop()", 'truncate-branches-agree'),
    (PE, "        return type(self)(self.rotatecoeff(self.coefflist, powtrans))", "        return Taylor3D(self.rotatecoeff(self.coefflist, powtrans))", 'no-concrete-class'),
]
BREAKERS += [
    # shallow copies keep the operand's arrays: the later in-place accumulation edits the operand
    (PE, "            c = [(an, almax, alpha * apow) for (an, almax, apow) in acoeff]", "            c = list(acoeff)", 'operand-purity'),
    (PE, "            c = [(an, almax, alpha * apow) for (an, almax, apow) in acoeff]", "            c = [(an, almax, apow) for (an, almax, apow) in acoeff]", 'operand-purity'),
    (PE, "            c = [(an, almax, alpha * apow) for (an, almax, apow) in acoeff]", "            c = acoeff[:]", 'operand-purity'),
]
BREAKERS += [
    (PE, "            for l0 in range(l):", "            for l0 in range(l - 2, -1, -2):", 'separate-projects-every-l'),
    (PE, "            for l0 in range(l):", "            for l0 in range(1, l):", 'separate-projects-every-l'),
]
NEUTRALS = [
    (PE, "            for l0 in range(l):", "            for l0 in reversed(range(0, l)):"),
    (PE, "            c = [(an, almax, alpha * apow) for (an, almax, apow) in acoeff]", "            c = [(an, almax, apow * alpha) for (an, almax, apow) in list(acoeff)]"),
]
