#!/bin/bash
# usage: tools/formscan.sh  -- for every claimed check and both tree forms: noisy neutral trees and caught seeds (experiment; SA_FORM overrides)
cd /verif
export SA_NOWRITE=1
trees_neutral="/repo $(ls -d /tmp/nw/N* /tmp/nw2/M* 2>/dev/null)"
trees_seed="$(ls -d /tmp/sw/C* 2>/dev/null)"
one() { # prop form tree
  ONSAGER_REPO=$3 SA_FORM=$2 /venv/bin/python -m sa.cli check $1 --tier quick 2>&1 | grep -c "^VIOLATION\|^ANALYSIS-ERROR"
}
export -f one
for p in $(jq -r '.checks[].property_id' MANIFEST.json); do
  for form in raw normal; do
    noisy=""; for t in $trees_neutral; do echo "$p $form $t"; done | xargs -P 16 -I{} bash -c 'set -- {}; n=$(one $1 $2 $3); [ "$n" != 0 ] && echo -n "$(basename $3) "' > /tmp/fs_$p$form.noisy
    for t in $trees_seed; do echo "$p $form $t"; done | xargs -P 16 -I{} bash -c 'set -- {}; n=$(ONSAGER_REPO=$3 SA_FORM=$2 /venv/bin/python -m sa.cli check $1 --tier quick 2>&1 | grep -c "^VIOLATION"); [ "$n" != 0 ] && echo -n "$(basename $3) "' > /tmp/fs_$p$form.caught
    echo "$p $form NOISY[$(cat /tmp/fs_$p$form.noisy)] CAUGHT[$(cat /tmp/fs_$p$form.caught)]"
  done
done
