#!/bin/sh
# usage: tools/neutral_all.sh [props...]  -- run the quick checks on the clean tree and on every neutral-refactor tree
# (/tmp/nw/<N> is created from neutral/<N>/refactor.diff when missing); prints only alarms / analysis errors
mkdir -p /tmp/nw
echo "=== clean"; /verif/tools/try_tree.sh /repo "$@" | grep -v KNOWN-FINDING | cut -c1-260
for d in /verif/neutral/N*; do
  n=$(basename $d)
  if [ ! -d /tmp/nw/$n ]; then
    /verif/tools/mkscratch.sh
  fi
  echo "=== $n"; /verif/tools/try_tree.sh /tmp/nw/$n "$@" | grep -v KNOWN-FINDING | cut -c1-260
done
