"""
C20 -- site symmetry analysis gives exact orbits and invariant bases (structural clauses only).

Not decided: that the bases are orthonormal and span *exactly* the invariant subspace (outcome of eigen-analysis and of the
intersection routines CombineVectorBasis / CombineTensorBasis -- numerical), and that adding an orbit leaves the group
unchanged (outcome of the symmetry search).  Decided -- necessary conditions that are visible in the shape of the
generators in ``Crystal`` and that unit tests on cubic / hexagonal crystals cannot tell apart from their broken variants:
  * genpoint: the point group of site (c, i) is drawn from *every* operation of the space group and keeps exactly those whose
    index map fixes that very site (``g.indexmap[c][i] == i``), each shifted by the lattice translation that brings the
    image back (``g - g_pos(g, origin, (c, i))[0]``);
  * genWyckoffsets: the orbit of an atom is its image under every operation (no filter), one orbit per atom index;
  * Wyckoffpos: every operation contributes an image; an image is kept unless it is close -- in the crystal's periodic sense
    (``__isclose__`` / a difference reduced with ``inhalf``) -- to one already kept, compared against *all* kept images;
  * VectorBasis / SymmTensorBasis of a site: the intersection runs over every operation of the site's point group (no
    filter), starting from the operation's own eigen-analysis;
  * FullVectorBasis: the vector attached to the image site is the image of the representative's vector under the same
    operation, for every operation of the group (equivariance of the constructed basis functions);
  * the site routines hand out fresh objects (engine ``cache``).
"""
import ast

from ..model import AnalysisError, dotted, unparse, walk_local
from ._common import cache_discipline, conditions_at, resolve_local

GROUP = 'self.G'


def _comps(fn):
    return [n for n in walk_local(fn) if isinstance(n, (ast.ListComp, ast.SetComp, ast.GeneratorExp))]


def _gen_over(comp, it_text):
    """the generator of ``comp`` that iterates over ``it_text`` (after frozenset/list/tuple wrappers), or None"""
    for g in comp.generators:
        it = g.iter
        while isinstance(it, ast.Call) and unparse(it.func) in ('list', 'tuple', 'frozenset', 'set', 'sorted') and len(it.args) == 1:
            it = it.args[0]
        if unparse(it) == it_text:
            return g
    return None


def run(model, rep, tier):
    rep.explanation = __doc__.strip()
    rep.not_decided = 'orthonormality and exactness of the invariant bases (numerical eigen-analysis / intersections); invariance of the ' \
                      'group under addbasis (outcome of the symmetry search)'
    cache_discipline(model, rep, [('crystal', 'Crystal', ['genpoint', 'genWyckoffsets', 'Wyckoffpos', 'VectorBasis', 'SymmTensorBasis',
                                                          'FullVectorBasis', 'vectlist'])])
    rep.rule('point-group-fixes-site', 'pointG[c][i] = every operation of G whose index map fixes (c, i), shifted back onto the site')
    rep.rule('wyckoff-orbit-whole-group', 'the orbit of an atom is its image under every operation of G; one orbit per atom')
    rep.rule('orbit-complete-no-duplicates', 'Wyckoffpos images every operation and drops an image only if periodically close to one already kept')
    rep.rule('site-basis-whole-point-group', 'site vector / tensor bases intersect the invariant spaces of every operation of the site point group')
    rep.rule('full-basis-equivariant', 'FullVectorBasis: image site <- image vector, under the same operation, for every operation of G')
    mod = model.mod('crystal')
    ci = model.cls('crystal', 'Crystal')
    for m in ('genpoint', 'genWyckoffsets', 'Wyckoffpos', 'VectorBasis', 'SymmTensorBasis', 'FullVectorBasis'):
        if m not in ci.methods:
            raise AnalysisError('anchor vanished: Crystal.%s' % m)
    n = 0
    n += _genpoint(rep, mod, ci.methods['genpoint'])
    n += _wyckoffsets(rep, mod, ci.methods['genWyckoffsets'])
    n += _wyckoffpos(rep, mod, ci.methods['Wyckoffpos'])
    for m, leaf, comb in (('VectorBasis', 'VectorBasis', 'CombineVectorBasis'), ('SymmTensorBasis', 'SymmTensorBasis', 'CombineTensorBasis')):
        n += _sitebasis(rep, mod, ci.methods[m], m, leaf, comb)
    n += _fullbasis(rep, mod, ci.methods['FullVectorBasis'])
    rep.floor('symmetry-orbit constructions examined', n, 6)


# ---------------------------------------------------------------- genpoint
def _genpoint(rep, mod, fn):
    q = 'Crystal.genpoint'
    cands = [(c, _gen_over(c, GROUP)) for c in _comps(fn)]
    cands = [(c, g) for c, g in cands if g is not None]
    if not cands:
        rep.undecided('%s: the comprehension over self.G was not located' % q)
        return 0
    comp, gen = cands[0]
    gname = unparse(gen.target)
    # the site indices: the variables of the enclosing comprehensions / loops over the basis
    outer = []
    p = getattr(comp, '_parent', None)
    while p is not None and p is not fn:
        if isinstance(p, (ast.ListComp, ast.GeneratorExp, ast.SetComp)):
            outer += [g for g in p.generators]
        p = getattr(p, '_parent', None)
    cvar = ivar = None
    for g in outer:
        it = unparse(g.iter)
        if it.startswith('enumerate(self.basis') and isinstance(g.target, ast.Tuple):
            cvar = unparse(g.target.elts[0])
        elif it.startswith('range(len(') and isinstance(g.target, ast.Name):
            ivar = g.target.id
        elif it.startswith('range(') and 'Nchem' in it or it == 'range(len(self.basis))':
            cvar = unparse(g.target)
    if cvar is None or ivar is None:
        rep.undecided('%s: the chemistry / atom index variables around the comprehension were not identified' % q)
        return 0
    tests = [unparse(t).replace(' ', '') for t in gen.ifs]
    want = {'%s.indexmap[%s][%s]==%s' % (gname, cvar, ivar, ivar), '%s==%s.indexmap[%s][%s]' % (ivar, gname, cvar, ivar)}
    ok = len(tests) == 1 and tests[0] in want
    rep.ob('point-group-fixes-site', mod, comp, '%s: for %s in self.G if %s' % (q, gname, ' and '.join(unparse(t) for t in gen.ifs) or '<no test>'), ok,
           '' if ok else 'the operations kept for site (%s, %s) are not exactly those whose index map fixes that site: the "point group" '
           'contains operations that move the site, or lacks some that fix it' % (cvar, ivar), engine='pattern', qual=q)
    elt = unparse(comp.elt).replace(' ', '')
    oke = elt.startswith(gname + '-self.g_pos(' + gname + ',') and ('(%s,%s))[0]' % (cvar, ivar)) in elt
    rep.ob('point-group-fixes-site', mod, comp.elt, '%s: element %s' % (q, unparse(comp.elt)[:70]), oke,
           '' if oke else 'the operation is not shifted by the lattice translation of the image of its own site (%s, %s): the stored '
           'operation does not map the site onto itself' % (cvar, ivar), engine='pattern', qual=q)
    return 1


# ---------------------------------------------------------------- genWyckoffsets
def _wyckoffsets(rep, mod, fn):
    q = 'Crystal.genWyckoffsets'
    cands = [(c, _gen_over(c, GROUP)) for c in _comps(fn)]
    cands = [(c, g) for c, g in cands if g is not None]
    if not cands:
        rep.undecided('%s: the comprehension over self.G was not located' % q)
        return 0
    comp, gen = cands[0]
    gname = unparse(gen.target)
    ok = not gen.ifs and len(comp.generators) == 1
    rep.ob('wyckoff-orbit-whole-group', mod, comp, '%s: images under %s' % (q, 'every operation of self.G' if ok else 'a filtered subset of self.G'), ok,
           '' if ok else 'the orbit is taken under a subset of the group: symmetry-equivalent atoms end up in different Wyckoff sets',
           engine='pattern', qual=q)
    # element (chem, g.indexmap[chem][index]) of the atom being mapped; the atom runs over every atom index
    outer = getattr(comp, '_parent', None)
    while outer is not None and not isinstance(outer, (ast.ListComp, ast.GeneratorExp, ast.SetComp)):
        outer = getattr(outer, '_parent', None)
    if outer is None or len(outer.generators) != 1:
        rep.undecided('%s: the comprehension over the atoms was not located' % q)
        return 1
    og = outer.generators[0]
    a = unparse(og.target)
    whole = unparse(og.iter) == 'self.atomindices' and not og.ifs
    rep.ob('wyckoff-orbit-whole-group', mod, outer, '%s: one orbit per %s in %s' % (q, a, unparse(og.iter)), whole,
           '' if whole else 'not every atom gets its orbit', engine='pattern', qual=q)
    elt = unparse(comp.elt).replace(' ', '')
    if isinstance(og.target, ast.Tuple) and len(og.target.elts) == 2:
        c_, i_ = [unparse(x) for x in og.target.elts]
    else:
        c_, i_ = '%s[0]' % a, '%s[1]' % a
    oke = elt == '(%s,%s.indexmap[%s][%s])' % (c_, gname, c_, i_)
    rep.ob('wyckoff-orbit-whole-group', mod, comp.elt, '%s: member %s' % (q, unparse(comp.elt)), oke,
           '' if oke else 'the member recorded is not (chemistry, image of the atom under the operation)', engine='pattern', qual=q)
    return 1


# ---------------------------------------------------------------- Wyckoffpos
def _wyckoffpos(rep, mod, fn):
    q = 'Crystal.Wyckoffpos'
    # locate: where images are produced (g_vect over self.G), and the accepting append
    prod = [(c, _gen_over(c, GROUP)) for c in _comps(fn)]
    prod = [(c, g) for c, g in prod if g is not None]
    loops = [lp for lp in walk_local(fn) if isinstance(lp, ast.For) and unparse(lp.iter) == GROUP]
    if not prod and not loops:
        rep.undecided('%s: the iteration over self.G was not located' % q)
        return 0
    filt = (prod and prod[0][1].ifs) or False
    rep.ob('orbit-complete-no-duplicates', mod, prod[0][0] if prod else loops[0], '%s: images under every operation of self.G' % q, not filt,
           '' if not filt else 'only a subset of the group is applied: the orbit is incomplete', engine='pattern', qual=q)
    apps = [c for c in walk_local(fn) if isinstance(c, ast.Call) and isinstance(c.func, ast.Attribute) and c.func.attr == 'append']
    if len(apps) != 1:
        rep.undecided('%s: the accepting append was not located (array form of the duplicate test?)' % q) if not _array_dedupe(rep, mod, fn, q) else None
        return 1
    app = apps[0]
    lis = unparse(app.func.value)
    u = unparse(app.args[0]) if app.args else None
    conds = conditions_at(fn, app)
    tests = []
    for c in conds:
        e = ast.parse(c, mode='eval').body
        tests.append(e)
    # the duplicate test: some comparison of the candidate with the members of the accepted list
    dup = [e for e in tests if any(isinstance(x, ast.Name) and x.id == lis for x in ast.walk(e))]
    if not dup:
        rep.ob('orbit-complete-no-duplicates', mod, app, '%s: %s.append(%s) is not guarded by a comparison with %s' % (q, lis, u, lis), False,
               'every image is kept: the list contains one entry per operation, duplicates included', engine='pattern', qual=q)
        return 1
    t = unparse(dup[0])
    periodic = '__isclose__' in t or 'inhalf' in t
    negated = isinstance(dup[0], ast.UnaryOp) and isinstance(dup[0].op, ast.Not)
    anyall = 'any(' in t and (lis + ']' in t or 'in ' + lis in t)
    ok = periodic and negated and anyall
    rep.ob('orbit-complete-no-duplicates', mod, app, '%s: kept when %s' % (q, t[:90]), ok,
           '' if ok else ('the duplicate test does not compare positions modulo lattice translations (no __isclose__ / inhalf): an image that '
                          'lands within the tolerance of a cell face is kept next to its periodic copy' if not periodic else
                          'the candidate is not compared with every image already kept, or the test is not negated'),
           engine='pattern', qual=q)
    return 1


def _array_dedupe(rep, mod, fn, q):
    """the vectorised form: all images in one array, an index selection by a closeness test.  Verified only for the comparator."""
    close = [c for c in walk_local(fn) if isinstance(c, ast.Call) and (dotted(c.func) or '').split('.')[-1] in ('isclose', 'allclose')]
    if not close:
        return False
    for c in close:
        t = unparse(c)
        periodic = 'inhalf' in t or '__isclose__' in t
        rep.ob('orbit-complete-no-duplicates', mod, c, '%s: duplicate test %s' % (q, t[:80]), periodic,
               '' if periodic else 'the duplicate test does not compare positions modulo lattice translations (no __isclose__ / inhalf): an '
               'image that lands within the tolerance of a cell face is kept next to its periodic copy', engine='pattern', qual=q)
    return True


# ---------------------------------------------------------------- site bases
def _sitebasis(rep, mod, fn, m, leaf, comb):
    q = 'Crystal.' + m
    ind = fn.args.args[1].arg if len(fn.args.args) > 1 else 'ind'
    comps = [c for c in _comps(fn) if any('self.pointG' in unparse(resolve_local(fn, g.iter)) for g in c.generators)]
    if not comps:
        rep.undecided('%s: the comprehension over the site point group was not located' % q)
        return 0
    comp = comps[0]
    gen = comp.generators[0]
    it = unparse(resolve_local(fn, gen.iter)).replace(' ', '')
    ok_it = it == 'self.pointG[%s[0]][%s[1]]' % (ind, ind)
    ok = ok_it and not gen.ifs and len(comp.generators) == 1
    rep.ob('site-basis-whole-point-group', mod, comp, '%s: intersection over %s%s' % (q, it, ' if ' + ' and '.join(unparse(t) for t in gen.ifs) if gen.ifs else ''), ok,
           '' if ok else ('some operations of the site point group are left out: the basis returned is invariant under a subgroup only and is '
                          'too large (e.g. improper operations constrain polar vectors and, through their axes, tensors as well)' if ok_it else
                          'the operations are not those of the point group of site %s' % ind), engine='pattern', qual=q)
    g = unparse(gen.target)
    elt = unparse(comp.elt).replace(' ', '')
    oke = elt == '%s(*%s.eigen())' % (leaf, g)
    rep.ob('site-basis-whole-point-group', mod, comp.elt, '%s: each operation contributes %s' % (q, unparse(comp.elt)), oke,
           '' if oke else 'the invariant space of an operation is not taken from its own eigen-analysis by %s' % leaf, engine='pattern', qual=q)
    red = [c for c in walk_local(fn) if isinstance(c, ast.Call) and unparse(c.func) in ('reduce', 'functools.reduce')]
    okr = bool(red) and unparse(red[0].args[0]) == comb
    rep.ob('site-basis-whole-point-group', mod, red[0] if red else fn, '%s: combined with %s' % (q, unparse(red[0].args[0]) if red else '?'), okr,
           '' if okr else 'the per-operation spaces are not intersected with %s' % comb, engine='pattern', qual=q)
    return 1


# ---------------------------------------------------------------- FullVectorBasis
def _fullbasis(rep, mod, fn):
    q = 'Crystal.FullVectorBasis'
    loops = [lp for lp in walk_local(fn) if isinstance(lp, ast.For) and unparse(lp.iter) == GROUP]
    if not loops:
        rep.undecided('%s: the loop over self.G was not located' % q)
        return 0
    n = 0
    for lp in loops:
        g = unparse(lp.target)
        stores = [st for st in lp.body if isinstance(st, ast.Assign) and isinstance(st.targets[0], ast.Subscript)]
        if len(stores) != 1:
            rep.undecided('%s: the store inside the loop over self.G was not recognised' % q)
            continue
        st = stores[0]
        idx = unparse(st.targets[0].slice).replace(' ', '')
        val = unparse(st.value).replace(' ', '')
        # index: image of the representative site under g ; value: image of the representative's vector under the same g
        import re
        mi = re.fullmatch(re.escape(g) + r'\.indexmap\[(\w+)\]\[(.+)\]', idx)
        mv = re.fullmatch(r'self\.g_direc\(' + re.escape(g) + r',(\w+)\)', val)
        ok = bool(mi) and bool(mv) and not conditions_at(fn, st) - conditions_at(fn, lp)
        n += 1
        rep.ob('full-basis-equivariant', mod, st, '%s: for %s in self.G: [%s] = %s' % (q, g, idx, val), ok,
               '' if ok else 'the vector stored on the image site is not the image (under the same operation) of the representative\'s vector, '
               'or some operations are skipped: the basis function is not equivariant', engine='pattern', qual=q)
    return min(n, 1)


CR = 'onsager/crystal.py'
BREAKERS = [
    (CR, "                            if g.indexmap[atomtypeindex][atomindex] == atomindex])", "                            ])", 'point-group-fixes-site'),
    (CR, "                            if g.indexmap[atomtypeindex][atomindex] == atomindex])",
     "                            if g.indexmap[atomtypeindex][0] == 0])", 'point-group-fixes-site'),
    (CR, "        return frozenset([frozenset([(ind[0], g.indexmap[ind[0]][ind[1]])\n                                     for g in self.G])",
     "        return frozenset([frozenset([(ind[0], g.indexmap[ind[0]][ind[1]])\n                                     for g in self.G if GroupOp.optype(g.rot) > 0])",
     'wyckoff-orbit-whole-group'),
    (CR, "            if not np.any([self.__isclose__(u, u1) for u1 in lis]):", "            if not np.any([np.allclose(u, u1) for u1 in lis]):",
     'orbit-complete-no-duplicates'),
    (CR, "            if not np.any([self.__isclose__(u, u1) for u1 in lis]):", "            if not (lis and self.__isclose__(u, lis[-1])):",
     'orbit-complete-no-duplicates'),
    (CR, "                      [SymmTensorBasis(*g.eigen()) for g in self.pointG[ind[0]][ind[1]]])",
     "                      [SymmTensorBasis(*g.eigen()) for g in self.pointG[ind[0]][ind[1]]\n                       if GroupOp.optype(g.rot) > 0])",
     'site-basis-whole-point-group'),
    (CR, "                      [VectorBasis(*g.eigen()) for g in self.pointG[ind[0]][ind[1]]])",
     "                      [VectorBasis(*g.eigen()) for g in self.pointG[ind[0]][0]])", 'site-basis-whole-point-group'),
    (CR, "                        vb[g.indexmap[c][s[0]]] = self.g_direc(g, v)", "                        vb[g.indexmap[c][s[0]]] = v", 'full-basis-equivariant'),
]
NEUTRALS = [
    (CR, "            if not np.any([self.__isclose__(u, u1) for u1 in lis]):", "            if not any(self.__isclose__(u, u1) for u1 in lis):"),
    (CR, "                            if g.indexmap[atomtypeindex][atomindex] == atomindex])",
     "                            if atomindex == g.indexmap[atomtypeindex][atomindex]])"),
]
