"""
C11 -- interstitial derivative outputs are true derivatives (structural clauses).

Not decided: that the outputs equal derivatives (numerical).  Decided (def-use / must-pass-through):
  * every populated site dipole is  g_tensor(g, ProjectTensorBasis(dipole, basis))  where dipole, basis, sites and
    group operations come from ONE zip over (input dipoles, the representative's symmetric-tensor basis, the site
    list, the stored group operations) and (site, g) from one zip over (sites, groupops); same for jump dipoles;
  * representative coherence: tensor bases and group operations are both built for the first member of each class,
    and the stored operation maps the representative ONTO the member (not the reverse);
  * elastodiffusion and losstensors consume only the populated lists: the raw dipole arguments reach nothing but
    len() and the two populating calls; site dipoles are addressed by the jump's endpoint sites or contracted with
    the site probabilities; the per-jump dipole is drawn from the populated jump list in step with the jumps;
  * ProjectTensorBasis projects onto each basis element with that same element;
  * the routines are dimension-generic.
"""
import ast

from ..model import AnalysisError, dotted, unparse, walk_local
from ..engines.linform import canon
from ._common import dim_generic


def _stabiliser(model, rep):
    """the operations whose tensor bases are intersected for a jump (generateJumpSymmTensorBasis) are the operations that
    generateJumpGroupOps would accept as mapping the representative jump onto *itself*: same predicate with the member set
    to the representative -- including the branch for the reversed jump -- over the same set of operations.  (Sites:
    generateSiteSymmTensorBasis takes crys.SymmTensorBasis of the representative that generateSiteGroupOps maps from.)"""
    from ..model import Model
    from ..engines.linform import canon, rename
    rep.rule('stabiliser-matches-transport', 'the jump tensor basis is intersected over exactly the operations that map the representative '
                                             'jump onto itself or onto its reverse, as the transporting operations are chosen')
    nm = model.normal()      # temporaries written out, tuple assignments split, trailing ifs turned into guards
    mod = nm.mod('OnsagerCalc')
    ci = nm.cls('OnsagerCalc', 'Interstitial')
    ops, bas = ci.methods['generateJumpGroupOps'], ci.methods['generateJumpSymmTensorBasis']

    def rep_binding(fn):
        for n in walk_local(fn):
            if isinstance(n, ast.Assign) and isinstance(n.targets[0], ast.Tuple) and isinstance(n.value, ast.Subscript) \
                    and unparse(n.value.slice) == '0' and len(n.targets[0].elts) == 2 and isinstance(n.targets[0].elts[0], ast.Tuple):
                (a, b), c = n.targets[0].elts[0].elts, n.targets[0].elts[1]
                return unparse(a), unparse(b), unparse(c)
        return None
    r_ops, r_bas = rep_binding(ops), rep_binding(bas)
    if r_ops is None or r_bas is None:
        raise AnalysisError('generateJumpGroupOps / generateJumpSymmTensorBasis: binding of the representative jump not found')
    # predicate and domain in the transport routine: the condition holding where an operation is appended, inside `for g in <domain>`
    from ._common import conditions_at
    app = [c for c in walk_local(ops) if isinstance(c, ast.Call) and isinstance(c.func, ast.Attribute) and c.func.attr == 'append'
           and len(c.args) == 1 and isinstance(c.args[0], ast.Name)]
    pred_ops = dom_ops = member = gname = None
    for c in app:
        g_ = c.args[0].id
        p = getattr(c, '_parent', None)
        while p is not None and p is not ops:
            if isinstance(p, ast.For) and unparse(p.target) == g_ and dom_ops is None:
                dom_ops, gname = unparse(p.iter), g_
                conds = [t for t in conditions_at(ops, c) if 'cartrot' in t]
                if len(conds) == 1:
                    pred_ops = ast.parse(conds[0], mode='eval').body
            elif isinstance(p, ast.For) and dom_ops is not None and member is None and isinstance(p.target, ast.Tuple) and len(p.target.elts) == 2 \
                    and isinstance(p.target.elts[0], ast.Tuple):
                (a, b), cc = p.target.elts[0].elts, p.target.elts[1]
                member = (unparse(a), unparse(b), unparse(cc))
            p = getattr(p, '_parent', None)
    comp = [c for c in walk_local(bas) if isinstance(c, (ast.ListComp, ast.GeneratorExp)) and c.generators[0].ifs
            and 'cartrot' in ' '.join(unparse(t) for t in c.generators[0].ifs)]
    if pred_ops is None or member is None or len(comp) != 1:
        raise AnalysisError('generateJumpGroupOps / generateJumpSymmTensorBasis: selection predicates not found')
    gen = comp[0].generators[0]
    gb = unparse(gen.target)
    pred_bas = gen.ifs[0] if len(gen.ifs) == 1 else ast.BoolOp(op=ast.And(), values=list(gen.ifs))
    sigma = {r_ops[0]: r_bas[0], r_ops[1]: r_bas[1], r_ops[2]: r_bas[2], member[0]: r_bas[0], member[1]: r_bas[1], member[2]: r_bas[2], gname: gb}
    want = canon(rename(pred_ops, sigma))
    got = canon(rename(pred_bas, {}))
    okd = unparse(gen.iter) == dom_ops
    ok = want == got and okd
    rep.ob('stabiliser-matches-transport', mod, comp[0], 'basis intersected over {g in %s : %s}' % (unparse(gen.iter), unparse(pred_bas)[:120]), ok,
           '' if ok else 'the operations used for the symmetric tensor basis of a jump are not those that generateJumpGroupOps accepts as '
           'mapping the representative jump onto itself or its reverse (%s over %s): the projection keeps components that symmetry forbids, '
           'or drops allowed ones' % ('other predicate' if want != got else 'same predicate', 'another set of operations' if not okd else 'the same operations'),
           engine='siblings', qual='Interstitial.generateJumpSymmTensorBasis')
    # sites: representative of the basis = representative the transporting operations start from
    sb, so = ci.methods['generateSiteSymmTensorBasis'], ci.methods['generateSiteGroupOps']
    calls = [c for c in walk_local(sb) if isinstance(c, ast.Call) and unparse(c.func) == 'self.crys.SymmTensorBasis' and len(c.args) == 1]
    okb = len(calls) == 1 and isinstance(calls[0].args[0], ast.Tuple) and unparse(calls[0].args[0].elts[0]) == 'self.chem' \
        and unparse(calls[0].args[0].elts[1]).endswith('[0]') and 'self.sitelist' in unparse(sb)
    rep.ob('stabiliser-matches-transport', mod, sb, 'site basis = crys.SymmTensorBasis of the first member of each Wyckoff set', okb,
           '' if okb else 'the site tensor basis is not that of the representative site', engine='siblings', qual='Interstitial.generateSiteSymmTensorBasis')


def run(model, rep, tier):
    rep.explanation = __doc__.strip()
    from ._common import caches_for
    caches_for(model, rep, 'C11')
    rep.not_decided = 'that the activation-barrier and elastodiffusion outputs equal the derivatives of D (numerical)'
    rep.rule('project-then-transport', 'populated dipole = g_tensor(g, ProjectTensorBasis(input, representative basis)) with aligned zips')
    rep.rule('representative-coherent', 'bases and group operations refer to the same representative; operation maps representative onto member')
    rep.rule('consume-populated-only', 'raw dipole arguments reach only len() and the populating calls; populated lists are addressed by site')
    rep.rule('projection-shape', 'ProjectTensorBasis = sum_b b * <tensor, b>')
    mod = model.mod('OnsagerCalc')
    ci = model.cls('OnsagerCalc', 'Interstitial')
    need = ('siteDipoles', 'jumpDipoles', 'generateSiteGroupOps', 'generateJumpGroupOps', 'generateSiteSymmTensorBasis',
            'generateJumpSymmTensorBasis', 'elastodiffusion', 'losstensors', '__init__')
    for m in need:
        if m not in ci.methods:
            raise AnalysisError('anchor vanished: Interstitial.%s' % m)
    _stabiliser(model, rep)
    # ---- siteDipoles
    sd = ci.methods['siteDipoles']
    p = sd.args.args[1].arg
    loops = [n for n in sd.body if isinstance(n, ast.For)]
    ok = False
    detail = ''
    if len(loops) == 1 and isinstance(loops[0].iter, ast.Call) and dotted(loops[0].iter.func) == 'zip':
        its = [unparse(a) for a in loops[0].iter.args]
        tn = [unparse(t) for t in loops[0].target.elts] if isinstance(loops[0].target, ast.Tuple) else []
        okz = its == [p, 'self.siteSymmTensorBasis', 'self.sitelist', 'self.sitegroupops'] and len(tn) == 4
        detail = 'zip(%s) -> (%s)' % (', '.join(its), ', '.join(tn))
        if okz:
            d_, b_, s_, g_ = tn
            body = loops[0].body
            proj = [n for n in body if isinstance(n, ast.Assign) and isinstance(n.value, ast.Call)
                    and unparse(n.value.func) == 'crystal.ProjectTensorBasis' and [unparse(a) for a in n.value.args] == [d_, b_]]
            inner = [n for n in body if isinstance(n, ast.For)]
            if len(proj) == 1 and len(inner) == 1 and unparse(inner[0].iter) == 'zip(%s, %s)' % (s_, g_):
                sym = unparse(proj[0].targets[0])
                i_, gg = [unparse(t) for t in inner[0].target.elts]
                st = inner[0].body
                ok = len(st) == 1 and isinstance(st[0], ast.Assign) and unparse(st[0].targets[0]).endswith('[%s]' % i_) \
                    and unparse(st[0].value) == 'self.crys.g_tensor(%s, %s)' % (gg, sym)
    rep.ob('project-then-transport', mod, sd, 'siteDipoles: %s ; lis[site] = g_tensor(g, Project(dipole, basis))' % detail, ok,
           '' if ok else 'a site dipole is stored without symmetric projection on the representative, or transported with an '
                         'operation / basis that belongs to another class', engine='flow', qual='Interstitial.siteDipoles')
    # ---- jumpDipoles
    jd = ci.methods['jumpDipoles']
    p = jd.args.args[1].arg
    src = unparse(jd)
    proj = [n for n in jd.body if isinstance(n, ast.Assign) and isinstance(n.value, ast.ListComp)]
    ok = False
    if len(proj) == 1:
        lc = proj[0].value
        g = lc.generators[0]
        tn = [unparse(t) for t in g.target.elts] if isinstance(g.target, ast.Tuple) else []
        okp = unparse(g.iter) == 'zip(%s, self.jumpSymmTensorBasis)' % p and len(tn) == 2 \
            and unparse(lc.elt) == 'crystal.ProjectTensorBasis(%s, %s)' % (tn[0], tn[1])
        sym = unparse(proj[0].targets[0])
        ret = [n for n in jd.body if isinstance(n, ast.Return)]
        if okp and len(ret) == 1 and isinstance(ret[0].value, ast.ListComp):
            outer = ret[0].value
            og = outer.generators[0]
            otn = [unparse(t) for t in og.target.elts] if isinstance(og.target, ast.Tuple) else []
            if unparse(og.iter) == 'zip(self.jumpgroupops, %s)' % sym and len(otn) == 2 and isinstance(outer.elt, ast.ListComp):
                inner = outer.elt
                ig = inner.generators[0]
                ok = unparse(ig.iter) == otn[0] and unparse(inner.elt) == 'self.crys.g_tensor(%s, %s)' % (unparse(ig.target), otn[1])
    rep.ob('project-then-transport', mod, jd, 'jumpDipoles: project with zip(input, jumpSymmTensorBasis), transport with zip(jumpgroupops, projected)',
           ok, '' if ok else 'a transition dipole is not projected on its representative basis or not transported by its own '
                             'operations', engine='flow', qual='Interstitial.jumpDipoles')
    # ---- representative coherence (alpha-insensitive patterns)
    from ..engines import pattern
    sg = ci.methods['generateSiteGroupOps']
    # normal form: the representative ``sites[0]`` is written where it is used, ``==`` / ``!=`` operands are in canonical order;
    # the rule: some comparison relates  g.indexmap[chem][<class>[0]]  to the loop variable running over the same <class>
    ok = False
    for c in ast.walk(sg):
        if isinstance(c, ast.Compare) and len(c.ops) == 1 and isinstance(c.ops[0], (ast.Eq, ast.NotEq)):
            for a, m in ((c.left, c.comparators[0]), (c.comparators[0], c.left)):
                for b in pattern.find(a, '_N_g.indexmap[self.chem][_N_sites[0]]', 'expr'):
                    if b['_node'] is a and isinstance(m, ast.Name) and any(
                            isinstance(x, ast.For) and isinstance(x.target, ast.Name) and x.target.id == m.id
                            and unparse(x.iter) == b['_N_sites'] for x in ast.walk(sg)):
                        ok = True
    rep.ob('representative-coherent', mod, sg, 'site operations: g.indexmap[chem][representative] == member, representative = first of the class',
           ok, '' if ok else 'stored operation does not map the representative onto the member site', engine='flow',
           qual='Interstitial.generateSiteGroupOps')
    sb = ci.methods['generateSiteSymmTensorBasis']
    ok = pattern.has(sb, '[self.crys.SymmTensorBasis((self.chem, _N_s[0])) for _N_s in self.sitelist]', 'expr')
    rep.ob('representative-coherent', mod, sb, 'site tensor bases are those of the first site of each class', ok,
           '' if ok else 'basis is not the representative\'s', engine='flow', qual='Interstitial.generateSiteSymmTensorBasis')
    jg = ci.methods['generateJumpGroupOps']
    ok = False
    for b in pattern.find(jg, '(_N_i0, _N_j0), _N_dx0 = _N_jumps[0]'):
        fwd = pattern.find(jg, '_N_g.indexmap[self.chem][_N_i0] == _N_i and _N_g.indexmap[self.chem][_N_j0] == _N_j and '
                               'np.allclose(_N_dx, np.dot(_N_g.cartrot, _N_dx0), atol=self.threshold)', 'expr',
                           _N_i0=b['_N_i0'], _N_j0=b['_N_j0'], _N_dx0=b['_N_dx0'])
        for f in fwd:
            rev = pattern.has(jg, '_N_g.indexmap[self.chem][_N_i0] == _N_j and _N_g.indexmap[self.chem][_N_j0] == _N_i and '
                                  'np.allclose(_N_dx, -np.dot(_N_g.cartrot, _N_dx0), atol=self.threshold)', 'expr',
                              **{k: v for k, v in f.items() if k.startswith('_N_')})
            ok = ok or rev
    rep.ob('representative-coherent', mod, jg, 'jump operations: image of the first jump of the class, forward or reversed (with -dx), equals the member',
           ok, '' if ok else 'stored operation does not map the representative jump onto the member', engine='flow',
           qual='Interstitial.generateJumpGroupOps')
    jb = ci.methods['generateJumpSymmTensorBasis']
    ok = pattern.has(jb, '(_N_i, _N_j), _N_dx = _N_jumps[0]') and any(
        isinstance(c, ast.Call) and unparse(c.func) == 'reduce' and c.args and unparse(c.args[0]) == 'crystal.CombineTensorBasis'
        for c in ast.walk(jb))
    rep.ob('representative-coherent', mod, jb, 'jump tensor bases: intersection over the stabiliser of the first jump of each class', ok,
           '' if ok else 'basis is not the representative\'s', engine='flow', qual='Interstitial.generateJumpSymmTensorBasis')
    init = ci.methods['__init__']
    want = {'self.sitegroupops': 'self.generateSiteGroupOps()', 'self.jumpgroupops': 'self.generateJumpGroupOps()',
            'self.siteSymmTensorBasis': 'self.generateSiteSymmTensorBasis()', 'self.jumpSymmTensorBasis': 'self.generateJumpSymmTensorBasis()'}
    got = {unparse(n.targets[0]): unparse(n.value) for n in init.body if isinstance(n, ast.Assign) and unparse(n.targets[0]) in want}
    rep.ob('representative-coherent', mod, init, '__init__ stores the four generated lists under their own names', got == want,
           '' if got == want else 'lists are stored under each other\'s names: %s' % got, engine='tables', qual='Interstitial.__init__')
    # ---- consumers
    for name, raws in (('elastodiffusion', ('dipole', 'dipoleT')), ('losstensors', ('dipole',))):
        fn = ci.methods[name]
        pop = {}
        for n in fn.body:
            if isinstance(n, ast.Assign) and isinstance(n.value, ast.Call) and unparse(n.value.func) in ('self.siteDipoles', 'self.jumpDipoles'):
                pop[unparse(n.value.func)] = (unparse(n.targets[0]), unparse(n.value.args[0]))
        ok = pop.get('self.siteDipoles', (None, None))[1] == 'dipole' and (name != 'elastodiffusion' or pop.get('self.jumpDipoles', (None, None))[1] == 'dipoleT')
        rep.ob('consume-populated-only', mod, fn, '%s populates %s' % (name, pop), ok,
               '' if ok else 'the populating routines are not called with the matching arguments', engine='flow', qual='Interstitial.' + name)
        # reaching uses of the raw parameters: before any rebinding loop
        rebind_line = {}
        for n in walk_local(fn):
            if isinstance(n, ast.For):
                for x in ast.walk(n.target):
                    if isinstance(x, ast.Name) and x.id in raws:
                        rebind_line[x.id] = min(rebind_line.get(x.id, 10 ** 9), n.lineno)
        def harmless(n, depth=0):
            """the load ``n`` of an unsymmetrised input reaches only len(), str.format() or a populating call -- directly, or
            through a literal table iterated by a for loop (``for what, values in (('dipoles', dipole), ...)``) whose
            corresponding loop variable is itself used harmlessly"""
            par = getattr(n, '_parent', None)
            if isinstance(par, ast.Call) and (dotted(par.func) == 'len' or unparse(par.func) in ('self.siteDipoles', 'self.jumpDipoles')
                                              or (isinstance(par.func, ast.Attribute) and par.func.attr == 'format')):
                return True
            if isinstance(par, ast.Tuple) and depth < 2:
                row, table = par, getattr(par, '_parent', None)
                lp = getattr(table, '_parent', None)
                if isinstance(table, ast.Tuple) and isinstance(lp, ast.For) and lp.iter is table and isinstance(lp.target, ast.Tuple) \
                        and len(lp.target.elts) == len(row.elts) and all(isinstance(r_, ast.Tuple) and len(r_.elts) == len(row.elts) for r_ in table.elts):
                    tgt = lp.target.elts[row.elts.index(n)]
                    if isinstance(tgt, ast.Name):
                        uses = [x for st in lp.body for x in ast.walk(st) if isinstance(x, ast.Name) and x.id == tgt.id and isinstance(x.ctx, ast.Load)]
                        return all(harmless(u, depth + 1) for u in uses)
            return False

        for r in raws:
            bad = []
            for n in walk_local(fn):
                if isinstance(n, ast.Name) and n.id == r and isinstance(n.ctx, ast.Load) and n.lineno < rebind_line.get(r, 10 ** 9):
                    if harmless(n):
                        continue
                    bad.append(n.lineno)
            rep.ob('consume-populated-only', mod, fn, '%s: raw argument %s reaches only len() and the populating call' % (name, r), not bad,
                   '' if not bad else 'the unsymmetrised input %s is used directly at line(s) %s' % (r, bad), engine='flow',
                   qual='Interstitial.' + name)
        # subscripts of the populated site list
        sname = pop.get('self.siteDipoles', (None,))[0]
        if sname:
            ends = set()
            for n in walk_local(fn):
                if isinstance(n, ast.For) and isinstance(n.target, ast.Tuple):
                    for t in ast.walk(n.target):
                        if isinstance(t, ast.Tuple) and len(t.elts) == 2 and all(isinstance(x, ast.Name) for x in t.elts) and isinstance(getattr(t, '_parent', None), ast.Tuple):
                            ends |= {t.elts[0].id, t.elts[1].id}
            nsub = 0
            for n in walk_local(fn):
                if isinstance(n, ast.Subscript) and unparse(n.value) == sname:
                    nsub += 1
                    ok = isinstance(n.slice, ast.Name) and n.slice.id in ends
                    rep.ob('consume-populated-only', mod, n, '%s: %s' % (name, unparse(n)), ok,
                           '' if ok else 'site dipoles are addressed by something else than the jump\'s own endpoint sites '
                                         '(e.g. the class representative): equivalent sites with differently oriented dipoles get '
                                         'the wrong tensor', engine='flow', qual='Interstitial.' + name)
            # whole-list uses must be contractions over the site axis
            for n in walk_local(fn):
                if isinstance(n, ast.Name) and n.id == sname and isinstance(n.ctx, ast.Load):
                    par = getattr(n, '_parent', None)
                    if isinstance(par, ast.Subscript) and par.value is n:
                        continue
                    ok = isinstance(par, ast.Call) and dotted(par.func) == 'np.tensordot' and ('rho' in unparse(par.args[0]))
                    rep.ob('consume-populated-only', mod, par if par is not None else n, '%s: %s' % (name, unparse(par)[:80]), ok,
                           '' if ok else 'the populated site list is averaged / used without the site probabilities', engine='flow',
                           qual='Interstitial.' + name)
        if name == 'elastodiffusion':
            jname = pop.get('self.jumpDipoles', (None,))[0]
            outer = [n for n in fn.body if isinstance(n, ast.For) and isinstance(n.iter, ast.Call) and unparse(n.iter.args[0]) == 'self.jumpnetwork']
            ok = False
            if len(outer) == 1:
                its = [unparse(a) for a in outer[0].iter.args]
                tns = [unparse(t) for t in outer[0].target.elts]
                if jname in its:
                    var = tns[its.index(jname)]
                    inner = [n for n in outer[0].body if isinstance(n, ast.For)]
                    if len(inner) == 1:
                        iits = [unparse(a) for a in inner[0].iter.args]
                        ok = var in iits and iits[0] == tns[0]
            rep.ob('consume-populated-only', mod, fn, 'elastodiffusion: per-jump dipole drawn from %s in step with the jump network' % jname, ok,
                   '' if ok else 'transition dipoles are not iterated together with their jumps', engine='flow',
                   qual='Interstitial.elastodiffusion')
    # ---- ProjectTensorBasis
    cm = model.mod('crystal')
    pt = model.func('crystal', 'ProjectTensorBasis')
    ret = [n for n in walk_local(pt) if isinstance(n, ast.Return)]
    a, b = [x.arg for x in pt.args.args]
    want = canon(ast.parse('sum((x * np.sum(%s * x) for x in %s))' % (a, b), mode='eval').body)
    got = None
    if ret:
        v = ret[0].value
        if isinstance(v, ast.Call) and v.args and isinstance(v.args[0], ast.GeneratorExp):
            var = unparse(v.args[0].generators[0].target)
            from ..engines.linform import rename
            got = canon(rename(v, {var: 'x'}))
    rep.ob('projection-shape', cm, pt, 'ProjectTensorBasis returns %s' % (unparse(ret[0].value) if ret else '?'), got == want,
           '' if got == want else 'not the orthogonal projection sum_b b <tensor, b>', engine='siblings', qual='ProjectTensorBasis')
    dim_generic(model, rep, [('OnsagerCalc', 'Interstitial.siteDipoles'), ('OnsagerCalc', 'Interstitial.jumpDipoles'),
                             ('OnsagerCalc', 'Interstitial.elastodiffusion'), ('OnsagerCalc', 'Interstitial.losstensors'),
                             ('OnsagerCalc', 'Interstitial.diffusivity'), ('crystal', 'ProjectTensorBasis'),
                             ('crystal', 'Crystal.g_tensor')], min_functions=7)


OC = 'onsager/OnsagerCalc.py'
BREAKERS = [
    ('onsager/OnsagerCalc.py', "                               np.allclose(dx, np.dot(g.cartrot, dx), atol=self.threshold)) or\n                               (g.indexmap[self.chem][i] == j and\n                                g.indexmap[self.chem][j] == i and\n                                np.allclose(dx, -np.dot(g.cartrot, dx), atol=self.threshold))]))",
     "                               np.allclose(dx, np.dot(g.cartrot, dx), atol=self.threshold))]))", 'stabiliser-matches-transport'),
    (OC, "            symmdipole = crystal.ProjectTensorBasis(dipole, basis)\n", "            symmdipole = dipole\n", 'project-then-transport'),
    (OC, "                lis[i] = self.crys.g_tensor(g, symmdipole)", "                lis[i] = self.crys.g_tensor(g, dipole)", 'project-then-transport'),
    (OC, "for dipole, basis, sites, groupops in zip(dipoles, self.siteSymmTensorBasis,\n                                                  self.sitelist, self.sitegroupops):",
     "for dipole, basis, sites, groupops in zip(dipoles, self.siteSymmTensorBasis,\n                                                  self.sitelist, itertools.repeat(self.sitegroupops[0])):", 'project-then-transport'),
    (OC, "                    if g.indexmap[self.chem][i0] == i:\n                        oplist.append(g)", "                    if g.indexmap[self.chem][i] == i0:\n                        oplist.append(g)",
     'representative-coherent'),
    (OC, "dipoleave = np.tensordot(rho, sitedipoles, [(0), (0)])", "dipoleave = sum(rho[sites].sum() * sitedipoles[sites[0]] for sites in self.sitelist)",
     'consume-populated-only'),
    (OC, "domega_ij[i, i] += rate * (dipole - sitedipoles[i])", "domega_ij[i, i] += rate * (dipole - sitedipoles[i])\n                unused = dipoleT[0]", None),
    ('onsager/crystal.py', "return sum(b * np.sum(tensor * b) for b in basis)", "return sum(b * np.sum(tensor) for b in basis)", 'projection-shape'),
]
NEUTRALS = []
