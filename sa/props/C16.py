"""
C16 -- Taylor-expansion arithmetic commutes with evaluation (structural clauses).

Not decided: the index tables and the algebra themselves (evaluating them is execution).  Decided:
  * override: every Taylor3D member that contains three-dimensional constructs is overridden by Taylor2D or cannot be
    reached from anything Taylor2D exposes; inherited methods construct results through type(self)/cls only;
  * purity: the non-in-place forms of the coefficient operations never write through their operands, and do not hand
    the operand back as the result;
  * the in-place and the copying branch of truncation use complementary predicates over *all* entries;
  * class-level index tables are written only by the make* / __initTaylor?Dindexing__ routines;
  * no accumulation through an array-valued index.
This matters because the only test module for this file does not import.
"""
import ast

from ..model import AnalysisError, dotted, unparse, walk_local
from ..engines import pattern
from ..engines.linform import canon
from . import _taylor

OPS = ['negcoeff', 'scalarproductcoeff', 'sumcoeff', 'tensorproductcoeff', 'coeffproductcoeff', 'reducecoeff', 'collectcoeff',
       'separatecoeff', 'truncatecoeff']
TABLES = {'pow2ind', 'ind2pow', 'powlrange', 'Lproj', 'directmult', 'powercoeff', 'Npower', 'Lmax', 'NYlm', 'NFC', 'Ylm2ind', 'ind2Ylm',
          'FC2ind', 'ind2FC', 'Ylmpow', 'powYlm', 'FCpow', 'powFC', '__INITIALIZED__', 'internalarrays'}


def run(model, rep, tier):
    rep.explanation = __doc__.strip()
    from ._common import caches_for
    caches_for(model, rep, 'C16')
    rep.not_decided = 'correctness of the index tables and of the coefficient algebra (evaluation is execution)'
    nspec, nctor = _taylor.override_rule(model, rep)
    rep.floor('3D-specific Taylor3D members', nspec, 9)
    rep.floor('type(self)/cls construction sites', nctor, 12)
    n = _taylor.purity_rule(model, rep, OPS)
    rep.floor('coefficient operations analysed', n, 9)
    _taylor.fancy_rule(model, rep)
    mod = model.mod('PowerExpansion')
    t3 = model.cls('PowerExpansion', 'Taylor3D')
    # ---- truncation branches
    rep.rule('truncate-branches-agree', 'in-place truncation removes exactly the entries the copying branch drops')
    tc = t3.methods['truncatecoeff']
    keep = pattern.find(tc, '[(_N_n, _N_l, _N_c.copy()) for _N_n, _N_l, _N_c in _N_a if _E_pred]', 'expr')
    keep_ok = bool(keep) and keep[0]['_E_pred'].replace(' ', '') in ('%s<=Nmax' % keep[0]['_N_n'], 'Nmax>=%s' % keep[0]['_N_n'],
                                                                      'not%s>Nmax' % keep[0]['_N_n'], 'not(%s>Nmax)' % keep[0]['_N_n'])
    # locate: the in-place removal (a loop around a pop on the operand, or a slice assignment of the filtered list)
    from ._common import conditions_at
    ok = None
    if keep:
        a = keep[0]['_N_a']
        pops = [c for c in walk_local(tc) if isinstance(c, ast.Call) and isinstance(c.func, ast.Attribute) and c.func.attr == 'pop'
                and unparse(c.func.value) == a]
        sl = [st for st in walk_local(tc) if isinstance(st, ast.Assign) and isinstance(st.targets[0], ast.Subscript) and unparse(st.targets[0].value) == a
              and isinstance(st.targets[0].slice, ast.Slice)]
        if pops:
            c = pops[0]
            lp = c
            while lp is not None and not isinstance(lp, (ast.For, ast.While)):
                lp = getattr(lp, '_parent', None)
            # verify: every index is visited, from the back, and an entry goes exactly when its n exceeds Nmax
            full = isinstance(lp, ast.For) and unparse(lp.iter) in ('range(len(%s) - 1, -1, -1)' % a, 'reversed(range(len(%s)))' % a,
                                                                     'range(len(%s))[::-1]' % a)
            i_ = unparse(lp.target) if isinstance(lp, ast.For) else None
            conds = conditions_at(tc, c)
            ok = bool(full) and c.args and unparse(c.args[0]) == i_ and ('%s[%s][0] > Nmax' % (a, i_) in conds or 'Nmax < %s[%s][0]' % (a, i_) in conds)
        elif sl:
            ok = pattern.has(sl[0], '[_N_t for _N_t in %s if _N_t[0] <= Nmax]' % a, 'expr')
    if ok is None:
        rep.undecided('truncatecoeff: copying filter / in-place removal not recognised')
        ok = True
    elif keep and not keep_ok:
        ok = False
    rep.ob('truncate-branches-agree', mod, tc, 'truncatecoeff: copy keeps n <= Nmax ; in place pops every index with n > Nmax (full reverse scan)', ok,
           '' if ok else 'the in-place branch does not examine every entry with the complementary predicate: truncate(N, inplace=True) and '
                         'truncate(N) disagree on unsorted coefficient lists', engine='siblings', qual='Taylor3D.truncatecoeff')
    # ---- class tables
    rep.rule('table-owners', 'class-level index tables are assigned only in make* / __initTaylor?Dindexing__')
    nbad = 0
    for cname in ('Taylor3D', 'Taylor2D'):
        ci = model.cls('PowerExpansion', cname)
        for name, fn in ci.methods.items():
            owner_ok = name.startswith('make') or name.startswith('__initTaylor')
            for n in walk_local(fn):
                tg = []
                if isinstance(n, ast.Assign):
                    for t in n.targets:
                        tg += t.elts if isinstance(t, ast.Tuple) else [t]
                elif isinstance(n, ast.AugAssign):
                    tg = [n.target]
                for t in tg:
                    root = t
                    while isinstance(root, ast.Subscript):
                        root = root.value
                    if isinstance(root, ast.Attribute) and unparse(root.value) in ('cls', 'Taylor3D', 'Taylor2D', 'type(self)', 'self.__class__') \
                            and root.attr in TABLES and not owner_ok:
                        nbad += 1
                        rep.ob('table-owners', mod, n, '%s.%s writes class table %s' % (cname, name, root.attr), False,
                               'a shared index table is modified outside its constructor: every expansion of the class is affected',
                               engine='owner', qual='%s.%s' % (cname, name))
    rep.ob('table-owners', mod, t3.node, 'class tables are written only by their constructors (%d foreign writes)' % nbad, nbad == 0,
           nontrivial=False, engine='owner')


PE = 'onsager/PowerExpansion.py'
BREAKERS = [
    (PE, "                    ca.append((an, almax, c * apow))", "                    apow *= c\n                    ca.append((an, almax, apow))", 'operand-purity'),
    (PE, "            return [(n, l, c.copy()) for (n, l, c) in acoeff if n <= Nmax]", "            return [(n, l, c.copy()) for (n, l, c) in acoeff if n < Nmax]", 'truncate-branches-agree'),
    (PE, "            for ind in range(len(acoeff) - 1, -1, -1):\n                if acoeff[ind][0] > Nmax:\n                    acoeff.pop(ind)",
     "            while len(acoeff) > 0 and acoeff[-1][0] > Nmax:\n                acoeff.pop()", 'truncate-branches-agree'),
    (PE, "        return type(self)(self.rotatecoeff(self.coefflist, powtrans))", "        return Taylor3D(self.rotatecoeff(self.coefflist, powtrans))", 'no-concrete-class'),
]
BREAKERS += [
    # shallow copies keep the operand's arrays: the later in-place accumulation edits the operand
    (PE, "            c = [(an, almax, alpha * apow) for (an, almax, apow) in acoeff]", "            c = list(acoeff)", 'operand-purity'),
    (PE, "            c = [(an, almax, alpha * apow) for (an, almax, apow) in acoeff]", "            c = [(an, almax, apow) for (an, almax, apow) in acoeff]", 'operand-purity'),
    (PE, "            c = [(an, almax, alpha * apow) for (an, almax, apow) in acoeff]", "            c = acoeff[:]", 'operand-purity'),
]
NEUTRALS = [
    (PE, "            c = [(an, almax, alpha * apow) for (an, almax, apow) in acoeff]", "            c = [(an, almax, apow * alpha) for (an, almax, apow) in list(acoeff)]"),
]
