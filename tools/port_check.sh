#!/bin/bash
# usage: tools/port_check.sh Cxx [raw|normal]   -- development check of one property in one tree form:
#   clean tree and every neutral refactor must be silent; every seeded change recorded as caught by Cxx must still be caught
p=$1; form=${2:-}
[ -n "$form" ] && export SA_FORM=$form
export SA_NOWRITE=1
cd /verif
run() { ONSAGER_REPO=$1 /venv/bin/python -m sa.cli check $p --tier quick 2>&1; }
{
for t in /repo /tmp/nw/N*; do
  ( out=$(run $t); n=$(echo "$out" | grep -c "^VIOLATION\|^ANALYSIS-ERROR"); 
    if [ "$n" != 0 ]; then echo "NOISY  $(basename $t): $(echo "$out" | grep -A1 "^VIOLATION\|^ANALYSIS-ERROR" | grep -v "^VIOLATION\|^--" | cut -c1-200 | head -${PC_LINES:-3} | tr '\n' '|')"; else echo "quiet  $(basename $t)"; fi ) &
done
for s in $(/venv/bin/python - $p <<'PY'
import json,glob,sys
for f in sorted(glob.glob('/verif/seeded/C*/meta.json')):
    m=json.load(open(f))
    if any(d['check']==sys.argv[1] for d in m['detected_by']): print(m['id'])
PY
); do
  ( out=$(run /tmp/sw/$s); n=$(echo "$out" | grep -c "^VIOLATION");
    if [ "$n" = 0 ]; then echo "MISSED seed $s $(echo "$out" | grep ANALYSIS-ERROR | cut -c1-200)"; else echo "caught seed $s [$(echo "$out" | grep -o "\[[a-z0-9-]*\]" | sort -u | tr '\n' ' ')]"; fi ) &
done
wait
} | sort
