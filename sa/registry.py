"""Per-property metadata used to generate MANIFEST.json (python -m sa.registry)."""
import json
import os

VERIF = os.path.dirname(os.path.dirname(os.path.abspath(__file__)))

NOT_APPLICABLE = {
    'C03': 'symmetry, positive semidefiniteness and point-group invariance are properties of computed numbers for '
           'arbitrary crystals and rates (the correction term is a numerical solve); no construct makes them true by '
           'shape, so static analysis cannot decide them',
    'C05': 'a variational inequality between two numerical evaluations; nothing structural in the source corresponds to it',
    'C08': 'numerical agreement of two algorithms and finiteness at extreme rates: quantifies over floating-point values',
    'C09': 'numerical invariance under re-description of the cell; reduction and centering are numerical searches',
    'C19': 'outcome of a numerical lattice reduction over arbitrary supercells; not a shape property',
    'C25': 'orthonormality / completeness of numerically constructed bases',
}

# rules added in seeding rounds 4-5 (DESIGN.md §7.8), appended to the technique of the checks that run them
_UNITS = '; abstract interpretation of the scaling degree under a uniform rate scaling (units engine: no test compares a rate-dimensioned quantity with a pure number)'
_CACHE = '; cache / memo discipline (key completeness, entries neither returned nor mutated, remembered values and cache containers reset by every writer of their sources, module-level caches, guard keys owned)'
EXTRA_TECHNIQUE = {
    'C01': _UNITS + '; inverse-index-map placement rule' + _CACHE,
    'C02': _UNITS + '; inverse-index-map placement rule',
    'C04': _UNITS + '; reference class of the energy factors multiplying rates; inverse-index-map placement rule',
    'C06': '; inverse-index-map placement rule' + _CACHE,
    'C10': _UNITS + '; inverse-index-map placement rule; alias analysis of what a repeated-call guard compares against',
    'C12': _UNITS,
    'C13': '; constructor calls in loaders pass every option the constructor reads',
    'C15': '; shared-mutable-default lint (dict.fromkeys / repetition / chained assignment)',
    'C16': '; integer evaluation of the projection loop range (every l0 < l)',
    'C23': '; lattice-vector / in-cell split consistency rule',
    'C29': '; host-fill coverage rule (loop over every atom index)',
    'C31': '; lifetime of the seen-set versus the list of orbits it guards; module-level cache key completeness',
    'C32': '; index-domain rule (mobile flag holds where a looked-up index meets the vacancy index)',
    'C35': '; once-per-interaction rule for the trial energy sum',
    'C36': '; hash-by-value rule (no memory representation of a value-compared field)',
}

# id -> (technique, level text, level note, design ref)
CLAIMS = {
    'C20': ('whole-group / exact-filter rules on the comprehensions and loops of Crystal.genpoint, genWyckoffsets, Wyckoffpos, '
            'VectorBasis, SymmTensorBasis and FullVectorBasis (located by what they iterate over, verified by their filters, '
            'elements and the conditions holding at the accepting statement), cache discipline of the site routines',
            'Static, exhaustive over the six generators: decides that a site point group is drawn from every operation of the '
            'space group and keeps exactly those whose index map fixes the site (shifted back onto it), that Wyckoff orbits and '
            'Wyckoffpos images are taken under every operation, that an image is dropped only when periodically close to one '
            'already kept, that site vector / tensor bases intersect over every operation of the site point group starting from '
            'each operation\'s own eigen-analysis, that FullVectorBasis places the image vector on the image site under the same '
            'operation, and that nothing handed out is cached storage. Necessary conditions only: orthonormality and exactness '
            'of the invariant bases (numerical eigen-analysis, CombineVectorBasis / CombineTensorBasis) and the effect of addbasis '
            'on the group are NOT decided.',
            'trusts CPython ast', 'DESIGN.md §4 C20'),
    'C12': ('sibling comparison of the rate-matrix assembly with diffusivity / elastodiffusion (normal form), data-flow rules for the '
            'matrix handed to the symmetric eigen-solver, small axis typing ({site, mode}) of the mode-strength contraction, '
            'relative-threshold rule for the equilibrium mode, conservation rule for the merged / appended mode tensors',
            'Static, exhaustive over Interstitial.losstensors: decides that the matrix diagonalised is the symmetrised rate matrix '
            'as assembled in diffusivity, untouched before it goes to eigh, that rates are the negated eigenvalues paired with '
            'eigenvector columns, that the equilibrium mode is recognised relative to the rate scale, that a mode strength is '
            'the site-by-site product eigenvector*sqrt(rho) contracted with the populated site dipoles and the loss tensor its '
            'tensor square, and that every mode is merged into a mode of equal rate or appended. Necessary conditions of the '
            'sum rule; positivity, semidefiniteness and the sum rule itself are numerical and NOT decided.',
            'trusts CPython ast; the behaviour-preserving normal form (validated by tools/normtest.sh)', 'DESIGN.md §4 C12'),
    'C22': ('conservation / tiling rules on the structured AST of reducekptmesh (base weight, consecutive shell slices, exactly-one '
            'alternative per point under the conditions holding at each statement), whole-group orbit rule, degree agreement of the '
            'match test with the tolerance, fold-loop pattern of fullkptmesh, cache discipline (alias + key analysis) of the mesh '
            'routines',
            'Static, exhaustive over Crystal.reducekptmesh / fullkptmesh: decides that every full-mesh point contributes the base '
            'weight 1/N to exactly one reduced point (so weights are positive and sum to one), that orbits are taken under every '
            'operation of the group and compared in the same degree as the tolerance, that every point is folded with every BZ '
            'vector, and that no mesh is handed out from (or edited in) a cache. Brillouin-zone membership of the computed points '
            'and exactness of the quadrature are numerical and NOT decided.',
            'trusts CPython ast', 'DESIGN.md §4 C22'),
    'C27': ('conditions-holding-at analysis of the acceptance in equivalencemap (full scatter through the operation\'s own index map '
            'compared with the target), scatter / chemorder pairing in __imul__, permutation-test dominance in gengroup, '
            'None-on-failure rule, cache discipline incl. invalidation of remembered derived values',
            'Static, exhaustive over Supercell.gengroup / __imul__ / equivalencemap: decides that an operation is kept only if its '
            'index map is a permutation built from every site, that occupations and ordered site lists move through the same '
            'map, that an equivalence is accepted only when the complete transformed occupation equals the target and that the '
            'reordering is read off the images, that (None, ...) is returned when nothing is accepted, and that any remembered '
            'value is reset by every writer of its sources. Completeness of the group and of the search is NOT decided.',
            'trusts CPython ast', 'DESIGN.md §4 C27'),
    'C07': ('linear-form comparison of the two star-set ranges, membership / exchange-symmetry shape of the omega1 pruning '
            'predicate, lock-step lint of the three parallel lists, data-flow rules for the LIMB back-fill (coverage of every '
            'kinetic star, symmetric end-state combination, reference classes by the balance engine on the normal form), '
            'statement-order rule in tags2preene, memoryless-setter analysis of generate',
            'Static, exhaustive over VacancyMediated.generate / makeLIMBpreene / tags2preene: decides that the kinetic range is '
            'the thermodynamic range plus one shell, that the outer shell is found by membership and an omega1 class is '
            'pruned only when both stars are outer, that the back-fill gives every kinetic star the isolated-solute term and '
            'only thermodynamic stars the interaction, symmetrically in the two end states and in the documented reference '
            'class, that user data for states are read before and for omega1/omega2 after the back-fill, and that generate '
            'keeps nothing from the previous range. Each is a necessary condition of range independence; the numerical '
            'equality of the tensors of two calculators is NOT decided.',
            'trusts CPython ast; reference-class table of the balance engine (shared with C04)', 'DESIGN.md §4 C07'),
    'C16': ('override/reachability analysis over the Taylor2D method-resolution order, path-specialised may-alias purity analysis '
            '(inplace=False), sibling predicate agreement of the truncation branches, class-table owner lint, array-valued '
            'accumulation lint',
            'Static, exhaustive over PowerExpansion.py: decides that every 3D-specific Taylor3D member is overridden or '
            'unreachable from Taylor2D, that inherited methods never name the concrete class, that the copying forms of the '
            'nine coefficient operations never write through (or return) their operands, that in-place and copying truncation '
            'agree, that class tables have a single writer, and that no accumulation goes through an array-valued index. The '
            'index tables and the algebra are NOT decided (evaluating them is execution).',
            'trusts CPython ast; numpy value-semantics table of the alias engine', 'DESIGN.md §4 C16'),
    'C17': ('same engines as C16 restricted to the rotation / inversion anchors, plus sibling agreement of the truncation filters '
            'inside the inverse series',
            'Static, exhaustive over rotatedirections / rotatecoeff / rotate / irotate / inversecoeff / inv: decides override, '
            'construction through type(self), operand purity, absence of array-valued accumulation in the table builders, and '
            'that every truncation filter of the inverse series tests the shifted power alike. Exactness of rotation and '
            'inversion is NOT decided.',
            'trusts CPython ast', 'DESIGN.md §4 C17'),
    'C29': ('def-use on zip alignments (representative pairing), sibling pattern for the placement index, who-may-write lint, '
            'statement-order patterns for NEB atom order, must-reach rule for the small-cell warning',
            'Static, exhaustive over both makesupercells: decides that tag and placed defect are the same class member, that '
            'placement goes through __setitem__ with one index formula, that vacancy jumps are built by vacate-then-replace '
            'crosswise, that every kinetic state is checked and every failing one warns, that mappings are searched for '
            '(initial, final) in that order, and that the returned keys/index records are what consumers read. The '
            'geometric content of the supercells is not decided.',
            'trusts CPython ast', 'DESIGN.md §4 C29'),
    'C31': ('eq/hash shape analysis of Cluster (commutative fold over normalised keys), alpha-insensitive patterns for site '
            'normalisation and the orbit-closure idiom, exchange image of the istransition tests, sibling search-range formula',
            'Static, exhaustive over Cluster and the three cluster generators: decides that hash and equality are translation- '
            'and order-invariant by construction, that flags survive symmetry images, that a TS cluster matches a jump in '
            'either direction, that every generator closes orbits under the whole group (and reversal for vacancy TS), and '
            'that the neighbour search uses the same range as jump networks. Completeness w.r.t. the cutoff is a search and '
            'not decided.',
            'trusts CPython ast', 'DESIGN.md §4 C31'),
    'C30': ('import/name resolution in the repository environment, resource existence and packaging-manifest match, '
            'format-template layout vs lexical extraction of the Perl reader, Makefile rule <-> addfile pairing, naming predicates',
            'Static, exhaustive over automator.py, trans.pl and MANIFEST.in: decides that the module imports, that bundled '
            'resources exist and are packaged, that map2string writes the layout trans.pl reads, that every Makefile '
            'dependency is written in the same block in the argument order trans.pl expects, that POS/POSCAR naming '
            'complements the rule predicate, that prefixes are disjoint and the tag map inverts the directory map. The '
            'archive contents for a given dictionary are an execution and not decided.',
            'trusts CPython ast; the Perl side is a lexical extraction of $trans[k] (stated as textual)', 'DESIGN.md §4 C30'),
    'C32': ('sibling comparison of canonicalised guard blocks, alpha-insensitive patterns for site lookup and interaction '
            'bookkeeping',
            'Static, exhaustive over the three ClusterSupercell evaluators and the sampler energy: decides that they share the '
            'vacancy-cluster guard, the site lookup and the occupancy convention, that clusterevaluator keys/accumulates/'
            'registers interactions consistently, and that the sampler energy sums exactly the fully occupied interactions '
            'of the energy range. Numerical agreement with a brute-force sum is not decided.',
            'trusts CPython ast', 'DESIGN.md §4 C32'),
    'C34': ('exchange antisymmetry of canonicalised list comprehensions under endpoint swap with weight negation, '
            'orientation and half-weight patterns, lock-step bookkeeping patterns',
            'Static, exhaustive over jumpnetworkevaluator and jumpnetworkevaluator_vacancy: decides that initial- and '
            'final-centred interaction lists are mirror images with opposite weight (so Q(i->j) - Q(j->i) = E(j) - E(i) by '
            'construction), that the initial side is the negative one, that energy clusters enter with half weight and TS '
            'clusters symmetrically, and that jumps and interaction ranges stay in step. Barrier values are not decided.',
            'trusts CPython ast; canonical form treats + as commutative', 'DESIGN.md §4 C34'),
    'C21': ('reversal-pairing patterns, linear-form equality of the four lattice-vector formulas, sibling equality of the '
            'search-range formula, pop-during-iteration lint, alpha-insensitive pattern for the symmetry expansion',
            'Static, exhaustive over Crystal.jumpnetwork / jumpnetwork2lattice and the three other sites of the lattice-vector '
            'formula: decides reversal closure by construction, agreement of the lattice form, agreement of the search '
            'range with its sibling, safe removal of obstructed classes, and that each class is expanded with every group '
            'operation. Completeness w.r.t. the cutoff and the obstruction geometry are not decided.',
            'trusts CPython ast', 'DESIGN.md §4 C21'),
    'C24': ('memo-guard key completeness, sibling equality of the canonicalised star-partition block, alpha-insensitive '
            'patterns for the combination loops and index rebuild, dependency analysis of module-level cache keys',
            'Static, exhaustive over StarSet: decides that generate compares every parameter it depends on, that the three '
            'copies of the partition block agree and span the whole group, that __iadd__/diffgenerate combine the states of '
            'both operands, that lookups are rebuilt from the stars, and that no module-level cache omits a dependency from '
            'its key. Completeness of reachability is a search and not decided.',
            'trusts CPython ast; exemption: threshold of generate (reason recorded)', 'DESIGN.md §4 C24'),
    'C26': ('reversal-pairing patterns with guards, def-use of the jump displacement, lock-step append/pop rules, '
            'membership-predicate pattern for the outer shell, exchange-symmetry + conjunction shape of the pruning test',
            'Static, exhaustive over symmequivjumplist, the omega1/omega2 builders and the pruning in VacancyMediated.generate: '
            'decides reversal closure, provenance of dx, lock-step of the parallel lists, that the outer shell is defined by '
            'membership, and that pruning removes only classes with both stars outside the thermodynamic range. "Exactly '
            'once" is a search and not decided.',
            'trusts CPython ast', 'DESIGN.md §4 C26'),
    'C11': ('def-use / must-pass-through rules on zip alignments (flow), alpha-insensitive AST patterns for the '
            'representative coherence, reaching-use lint for the raw dipole arguments',
            'Static, exhaustive over the dipole population and its consumers: decides that every populated dipole is the '
            'symmetric projection on the representative transported by the operation that maps the representative onto the '
            'member, that bases/operations refer to one representative, that elastodiffusion/losstensors consume only the '
            'populated lists addressed by site, and that the projection has the right shape. That the outputs equal '
            'derivatives is numerical and not decided.',
            'trusts CPython ast', 'DESIGN.md §4 C11'),
    'C06': ('table agreement (keys vs parameters), neutral-default lint, omega-family provenance of the host-copy loops',
            'Static, exhaustive over maketracerpreene: decides that the generator returns exactly the missing '
            'preene2betafree parameters, that solute and interaction data are neutral with the documented sizes, and '
            'that every omega1/omega2 transition state copies the omega0 data of its own recorded jump type without '
            'mixing families. The tracer identities themselves are numerical and not decided.',
            'trusts CPython ast', 'DESIGN.md §4 C06'),
    'C15': ('table agreement across generator/consumer/printer, size provenance of tag lists vs arrays, statement-order '
            'rule, symbolic template expansion for cross-type disjointness, stale-loop-variable def-use lint',
            'Static, exhaustive over the tag pipeline: decides that tag types, rows and arrays line up (class n <-> entry n), '
            'that defaults are neutral and unshared, that the LIMB back-fill is ordered between the override blocks, that '
            'overrides write the class index they were found under, that the verbose report predicates are in place, and '
            'that tags of different types cannot coincide. Uniqueness inside a type is a run-time check and not decided.',
            'trusts CPython ast', 'DESIGN.md §4 C15'),
    'C02': ('exchange-symmetry of canonicalised rate expressions, sibling comparison of canonicalised assembly statements '
            'and cross-module rate formulas, solver-branch lint, dimension-context analysis',
            'Static, exhaustive over the interstitial assembly: decides that the symmetrised rate is endpoint-symmetric, '
            'that the three routines assemble rate matrix / bias / bare diffusivity with identical statements and loop '
            'bindings, that the Green-function calculator uses the same rate and escape formulas, and that the bias '
            'solver branches are coherent. The value of the correlated diffusivity is numerical and not decided.',
            'trusts CPython ast; canonical form treats + and * as commutative', 'DESIGN.md §4 C02'),
    'C04': ('reference-class linear algebra over Boltzmann-factor arguments (balance), scaling-degree algebra for prefactors, '
            'argument-class agreement across calls, solver homogeneity lint',
            'Static, exhaustive over the 14 Boltzmann factors and the reference bookkeeping: decides that every exponent is '
            'a same-reference free-energy difference, that arrays are passed with the documented reference class, that '
            'preene2betafree subtracts exactly the right minima, that rates have prefactor degree 0, and that the solver '
            'is scale-homogeneous. These are necessary for shift/scale invariance for every input; kT co-scaling and '
            'exact proportionality are numerical and not decided.',
            'trusts CPython ast; reference classes of parameters are a frozen table taken from the docstrings',
            'DESIGN.md §4 C04'),
    'C10': ('exchange-symmetry of the symmetric rate, selection-idiom lint for the Taylor class, dimension-context analysis, '
            'statement-shape rule for the group average, def-use completeness of SetRates state',
            'Static, exhaustive over GFcalc.py: decides that the symmetric rate is endpoint-symmetric, that the Taylor class '
            'is always chosen by dimension and the HDF5 tag agrees, that the module is dimension-generic, that __call__ '
            'averages over all stored operations, and that observers read only state written by __init__/SetRates. That '
            'G solves the diffusion equation is numerical and not decided.',
            'trusts CPython ast', 'DESIGN.md §4 C10'),
    'C01': ('exchange-symmetry of canonicalised AST fragments, endpoint-coherence lint, table/plumbing agreement, '
            'provenance-based omega-family typing of contractions',
            'Static, exhaustive over the rate construction, LIMB back-fill, probability symmetrisation, the data plumbing '
            'and every contraction of VacancyMediated.Lij: decides that the rates are built exchange-symmetrically from '
            'their own endpoints (a necessary condition of detailed balance for non-uniform energies), that keys/orders '
            'of the pipeline agree, and that each np.dot combines arrays of the same omega family by provenance. The '
            'equality with the exact Markov chain is numerical and is NOT decided.',
            'trusts CPython ast; canonical form treats + and * as commutative/associative (true for the scalars and '
            'numpy element-wise operations involved)',
            'DESIGN.md §4 C01'),
    'C18': ('dimension-context abstract interpretation (dimgen), symtable/arity resolution, operator-kind composition typing',
            'Static, exhaustive over the group-construction routines and the GroupOp algebra: decides that no hard-coded '
            'spatial dimension lies on a path 2D crystals take (incl. NOSYM), that all names/calls resolve, and that '
            'rotations are composed within one coordinate kind (cartrot = L.rot.L^-1). Closure / isometry / permutation '
            'correctness are numerical and not decided.',
            'trusts CPython ast/symtable; the repository\'s own dimension tests define the 2D/3D contexts',
            'DESIGN.md §4 C18'),
    'C23': ('coordinate-kind type system (latt/unit/cart and operator kinds) over the conversion and symmetry-action '
            'routines, arity/name resolution, dimension-context analysis',
            'Static, exhaustive over 26 routines: decides that each operator is applied to vectors of its domain kind, that '
            'sums combine equal kinds, that documented return/field kinds are respected, that every route resolves with '
            'a compatible argument list, and that the routines are dimension-generic. Numerical round-trips are not decided.',
            'trusts CPython ast; parameter kinds are a frozen table taken from the docstrings',
            'DESIGN.md §4 C23'),
    'C33': ('who-may-write lint (owner), observer purity, paired-update shape with the sign convention read from start(), '
            'element-wise (scalar-index) count-update rule, mirror rule between deltaE_trial and update',
            'Static, exhaustive over MonteCarloSampler: decides that only __init__/start/update write sampler state, that the '
            'observers keep no hidden state, that start rebinds all state from fresh values, that each occupancy flip is '
            'guarded and carries its set and count updates with start\'s sign and multiplicity, and that deltaE_trial '
            'mirrors update. Necessary for the state being a function of the occupation after every history; energies '
            'are not decided.',
            'trusts CPython ast; the four state attributes and three owners confirmed by reading',
            'DESIGN.md §4 C33'),
    'C35': ('table agreement (jitclass spec / __init__ / attributes / param keys / copy order), external-name resolution '
            'against the installed numpy, sibling sign agreement, exchange-symmetry of the swap bookkeeping, argument '
            'agreement in MCmoves',
            'Static, exhaustive over the compiled sampler: decides that the 18-field tables agree, that every name used '
            'inside the jit class exists (otherwise no call can compile), that reference and compiled class share '
            'method set and clustercount sign conventions, that the compiled update is a symmetric swap, and that '
            'MCmoves applies exactly the move it evaluated under the Metropolis test. Equality of traces is an '
            'execution and is not decided.',
            'trusts CPython ast and the installed numpy/numba namespaces',
            'DESIGN.md §4 C35'),
    'C14': ('allocation-token may-alias analysis with callee summaries (return-escape, write-through-alias with liveness), '
            'memo-guard key completeness, must-precede rule for Green-function state reads, cache-key coherence',
            'Static, exhaustive over every path of VacancyMediated.Lij and the data-preparation routines: decides that no '
            'returned tensor shares storage with a cache entry, attribute or argument; that no in-place write reaches '
            'shared storage; that rate-dependent Green-function state is read only after SetRates for the current key; '
            'that hit and miss paths use one key per cache; that every early-return guard of the calculators compares '
            'every parameter its skipped body reads; and that re-ranging clears the caches. These hold for all call '
            'histories because they are statements about the code paths; numerical equality is not decided.',
            'trusts CPython ast; numpy value semantics table (arithmetic/constructors/.copy() fresh; basic slicing, .T, '
            'reshape views; list/array indices copy); receiver typing of self.GFcalc/self.vkinetic/self.kinetic',
            'DESIGN.md §4 C14'),
    'C13': ('loader def-use over the class call graph, HDF5 key-set comparison with class-tuple loop expansion, '
            'constructor/loader constant agreement, YAML registration tables, stale-loop-variable def-use lint',
            'Static, exhaustive over the five addhdf5/loadhdf5 pairs, three converter pairs and six YAML registrations: '
            'decides that a reloaded object has every attribute its methods read, that every key read was written, that '
            'sub-objects return to the attribute they came from, that initial constants agree, that the caches are saved '
            'and restored together, and that the YAML tables agree. Necessary for identical results after reload for '
            'every input; bit-equality of numbers is not decided.',
            'trusts CPython ast; h5py/yaml semantics (group[key] round-trips a dataset) are assumed',
            'DESIGN.md §4 C13'),
    'C28': ('linear-form guard/extent agreement (bounds), who-may-write lint with local alias tracking (owner), '
            'paired-update shape, copy-table parity, statement-order rule in POSCAR_occ',
            'Static, exhaustive over the Supercell class and every function of the package and bin/: decides that the '
            'species guard of setocc admits exactly [vacancy sentinel, extent of chemorder - 1] for every value of the '
            'constructor parameters, that only the five owner routines write occ/chemorder and each store carries its '
            'chemorder update, that copy() deep-copies every in-place-mutated attribute, and that POSCAR_occ empties '
            'before reading. These are necessary conditions of consistency over every edit history; the POSCAR text '
            'round trip and geometry are not decided.',
            'trusts CPython ast; owner table of five routines confirmed by reading; receivers named self inside '
            'MonteCarloSampler* are that class\'s own occ',
            'DESIGN.md §4 C28'),
    'C36': ('AST lint of __eq__/__ne__/__hash__ shape + symtable name resolution + linear-form comparison of '
            'PairState arithmetic',
            'Static, exhaustive over the five value types: decides that __ne__ negates __eq__, hash reads only '
            'exactly-compared fields, the isinstance guard, namedtuple field coverage, the Cluster xor-fold, and that '
            'PairState arithmetic builds the documented field expressions. Structural clause only: holds for every '
            'instance because it is a statement about the methods themselves; commutation with group operations is '
            'numerical and not decided.',
            'trusts CPython ast/symtable and the frozen table of documented PairState identities',
            'DESIGN.md §4 C36'),
}


def manifest(built):
    from .model import NORMAL_FORM_PROPS
    checks = []
    for pid in sorted(built):
        tech, text, note, ref = CLAIMS[pid]
        checks.append({
            'property_id': pid,
            'quick_cmd': '/venv/bin/python -m sa.cli check %s --tier quick' % pid,
            'thorough_cmd': '/venv/bin/python -m sa.cli check %s --tier thorough' % pid,
            'evidence_file': '/verif/evidence/%s.json' % pid,
            'replay_cmd_template': '/venv/bin/python -m sa.cli replay {path}',
            'engine': 'sa',
            'level_claimed': {'category': 'other', 'text': text, 'design_ref': ref},
            'level_note': note + ('; rules read the behaviour-preserving normal form of the tree (sa/engines/norm.py)'
                                  if pid in NORMAL_FORM_PROPS else '; rules read the tree as written, single rules resolve '
                                  'temporaries / guard forms through sa/props/_common.py'),
            'technique': 'static analysis: ' + tech + EXTRA_TECHNIQUE.get(pid, ''),
        })
    na = [{'property_id': k, 'reason': v} for k, v in sorted(NOT_APPLICABLE.items())]
    allids = [json.loads(l)['id'] for l in open(os.path.join(VERIF, 'properties.jsonl'))]
    for pid in allids:
        if pid not in built and pid not in NOT_APPLICABLE:
            na.append({'property_id': pid, 'reason': 'structural check designed (DESIGN.md) but not built yet in this '
                                                     'revision; no claim is made'})
    na.sort(key=lambda d: d['property_id'])
    return {
        'version': 1,
        'setup_cmd': '/venv/bin/python -m compileall -q sa && /venv/bin/python -m sa.cli warm',
        'hooks': {'guard': 'ONSAGER_VERIF', 'enable': 'none needed: the checks parse /repo and never run it',
                  'baseline_off_cmd': 'cd /repo && /venv/bin/python -m pytest -ra -q -p no:cacheprovider --timeout=900 '
                                      '--continue-on-collection-errors',
                  'source_commits': [], 'add_only': True},
        'engines': [{'name': 'sa', 'path': '/verif/sa', 'serves_properties': sorted(built),
                     'kind_free_text': 'repository-specific static analyser on Python ast/symtable (stdlib only); '
                                       'parses the working tree on every run, never imports onsager; the tree form each '
                                       'check reads (as written / normal form) is declared per property in sa/model.py'}],
        'checks': checks,
        'not_applicable': na,
        'notes': 'All checks are static analysis (family fixed by the brief). Each decides the structural clause named '
                 'in its level text, never the numerical behaviour. Exit 0 held / 1 VIOLATION / 2 ANALYSIS-ERROR. '
                 'Known findings: /verif/known_findings.json.',
    }


def built_props():
    d = os.path.join(VERIF, 'sa', 'props')
    return sorted(f[:-3] for f in os.listdir(d) if f.startswith('C') and f.endswith('.py') and f[:-3] in CLAIMS)


if __name__ == '__main__':
    m = manifest(built_props())
    with open(os.path.join(VERIF, 'MANIFEST.json'), 'w') as f:
        json.dump(m, f, indent=1)
        f.write('\n')
    print('MANIFEST.json: %d checks, %d not_applicable' % (len(m['checks']), len(m['not_applicable'])))
    # digests of the tree the instance floors were confirmed on (see Model.pinned)
    import hashlib
    from .model import Model
    mdl = Model()
    pins = {mo.relpath: hashlib.sha256(mdl.read(mo.relpath).encode('utf-8')).hexdigest() for mo in mdl.modules.values()}
    with open(os.path.join(VERIF, 'sa', 'pinned.json'), 'w') as f:
        json.dump(pins, f, indent=1, sort_keys=True)
        f.write('\n')
    print('sa/pinned.json: %d modules' % len(pins))
