"""
E0 -- repository model.  Rebuilt from the working tree on every run; never imports
or executes ``onsager``.  Everything else in ``sa`` works on the objects built here.
"""
import ast
import os
import symtable
import warnings

warnings.filterwarnings("ignore", category=SyntaxWarning)

REPO = os.environ.get('ONSAGER_REPO', '/repo')
PKG = 'onsager'


# Which tree a property's rules read.  The behaviour-preserving normal form (sa/engines/norm.py) is used ONLY by the
# checks whose rules were written for it and validated on it (clean tree, seeded changes, neutral-refactor corpus); every
# other check reads the tree as written, which is what its rules and its confirmed instance counts refer to.  Feeding a
# rule a tree form it was not written for makes its anchors vanish (false alarms / floors not met), so the form is part of
# the rule, declared here per property, and never a global switch.
NORMAL_FORM_PROPS = frozenset(['C01', 'C02', 'C04', 'C06', 'C11', 'C12', 'C15', 'C24', 'C27', 'C28'])
FORMS = ('raw', 'normal', 'inlined')
INLINED_FORM_PROPS = frozenset(['C07', 'C10', 'C13', 'C14', 'C16', 'C17', 'C18', 'C20', 'C21', 'C22', 'C23', 'C26', 'C29', 'C31', 'C32', 'C33', 'C34', 'C35', 'C36'])
_NORM_CACHE = {}


def form_for(prop):
    """tree form read by property ``prop``; SA_FORM=raw|normal overrides it for experiments (never set by a registered command)."""
    forced = os.environ.get('SA_FORM')
    if forced in FORMS:
        return forced
    return 'normal' if prop in NORMAL_FORM_PROPS else ('inlined' if prop in INLINED_FORM_PROPS else 'raw')


def _normalized(src, raw, only_inline=False):
    """normal form of one module; memoised in the process and, keyed by the digest of (source, norm.py), on disk under
    /verif/.cache (git-ignored: a fresh checkout recomputes it; a stale or unreadable entry is ignored)."""
    import hashlib
    import pickle
    from .engines import norm
    key = hashlib.sha1(src.encode('utf-8', 'replace')).hexdigest() + ('-inl' if only_inline else '')
    if key not in _NORM_CACHE:
        tree = None
        path = None
        if os.environ.get('SA_NOCACHE') != '1':
            try:
                with open(norm.__file__.replace('.pyc', '.py'), 'rb') as f:
                    eng = hashlib.sha1(f.read()).hexdigest()[:12]
                cdir = os.path.join(os.path.dirname(os.path.dirname(os.path.abspath(__file__))), '.cache', 'norm')
                path = os.path.join(cdir, '%s-%s-%d.%d.pickle' % (key, eng, *__import__('sys').version_info[:2]))
                with open(path, 'rb') as f:
                    tree = pickle.load(f)
            except Exception:
                tree = None
        if tree is None:
            tree = norm.normalize_module(raw, only_inline=only_inline)
            if path is not None:
                try:
                    os.makedirs(os.path.dirname(path), exist_ok=True)
                    tmp = '%s.%d.tmp' % (path, os.getpid())
                    with open(tmp, 'wb') as f:
                        pickle.dump(tree, f)
                    os.replace(tmp, path)
                except Exception:
                    pass
        _NORM_CACHE[key] = tree
    return norm.clone(_NORM_CACHE[key])


class AnalysisError(Exception):
    """The analysis itself cannot be carried out (anchor vanished, floor not met...)."""


def attach_parents(tree):
    for node in ast.walk(tree):
        for child in ast.iter_child_nodes(node):
            child._parent = node
    tree._parent = None
    return tree


def ast_copy(node, _root=True):
    """structural copy of an AST subtree that does NOT follow the ``_parent`` back-links (``copy.deepcopy`` does, and so
    copies the whole module for every expression); parents are re-attached inside the copy, the copy's root has none."""
    if isinstance(node, ast.AST):
        new = node.__class__()
        for f in node._fields:
            if hasattr(node, f):
                v = ast_copy(getattr(node, f), False)
                setattr(new, f, v)
                for c in (v if isinstance(v, list) else [v]):
                    if isinstance(c, ast.AST):
                        c._parent = new
        for a in node._attributes:
            if hasattr(node, a):
                setattr(new, a, getattr(node, a))
        if _root:
            new._parent = None
        return new
    if isinstance(node, list):
        return [ast_copy(x, False) for x in node]
    return node


def unparse(node):
    return ast.unparse(node)


def walk_local(node, include_root=True):
    """ast.walk that does not descend into nested function/class/lambda definitions
    (comprehensions *are* descended: they belong to the enclosing function's logic)."""
    stack = [node]
    first = True
    while stack:
        n = stack.pop()
        if not first and isinstance(n, (ast.FunctionDef, ast.AsyncFunctionDef, ast.ClassDef, ast.Lambda)):
            continue
        if not (first and not include_root):
            yield n
        first = False
        stack.extend(reversed(list(ast.iter_child_nodes(n))))


def enclosing(node, types):
    n = getattr(node, '_parent', None)
    while n is not None and not isinstance(n, types):
        n = getattr(n, '_parent', None)
    return n


def dotted(node):
    """'a.b.c' for Name/Attribute chains, else None."""
    parts = []
    while isinstance(node, ast.Attribute):
        parts.append(node.attr)
        node = node.value
    if isinstance(node, ast.Name):
        parts.append(node.id)
        return '.'.join(reversed(parts))
    return None


def call_name(call):
    return dotted(call.func) if isinstance(call, ast.Call) else None


class ClassInfo:
    def __init__(self, module, node):
        self.module = module
        self.node = node
        self.name = node.name
        self.bases = [dotted(b) or unparse(b) for b in node.bases]
        self.methods = {}
        self.class_assigns = {}
        self.namedtuple_fields = None
        for st in node.body:
            if isinstance(st, (ast.FunctionDef, ast.AsyncFunctionDef)):
                self.methods[st.name] = st
            elif isinstance(st, ast.Assign):
                for t in st.targets:
                    if isinstance(t, ast.Name):
                        self.class_assigns[t.id] = st.value
        for b in node.bases:
            if isinstance(b, ast.Call) and (call_name(b) or '').endswith('namedtuple') and len(b.args) >= 2:
                f = b.args[1]
                if isinstance(f, ast.Constant) and isinstance(f.value, str):
                    self.namedtuple_fields = f.value.replace(',', ' ').split()
                elif isinstance(f, (ast.List, ast.Tuple)):
                    self.namedtuple_fields = [e.value for e in f.elts if isinstance(e, ast.Constant)]

    def decorators(self, meth):
        return [dotted(d) or (call_name(d) if isinstance(d, ast.Call) else None) or unparse(d)
                for d in self.methods[meth].decorator_list]

    def kind(self, meth):
        d = self.decorators(meth)
        if 'staticmethod' in d:
            return 'static'
        if 'classmethod' in d:
            return 'class'
        return 'instance'


class Module:
    def __init__(self, name, path, relpath, src, form='raw'):
        self.name = name
        self.form = form
        self.path = path
        self.relpath = relpath
        self.src = src
        try:
            raw = ast.parse(src, filename=path)
        except SyntaxError as e:
            raise AnalysisError('cannot parse %s: %s' % (relpath, e))
        # form 'normal': the rules read the behaviour-preserving normal form (sa/engines/norm.py) and the tree as written
        # stays available as ``raw_tree`` for rules about text (format strings, docstrings, resources);
        # form 'raw': the rules read the tree as written
        self.raw_tree = attach_parents(raw)
        self.tree = attach_parents(_normalized(src, raw)) if form == 'normal' else \
            attach_parents(_normalized(src, raw, only_inline=True)) if form == 'inlined' else self.raw_tree
        self.classes = {}
        self.functions = {}  # qualname -> FunctionDef ('f', 'C.m', 'C.m.inner')
        self.imports = {}  # local alias -> dotted target ('np' -> 'numpy', 'pinv' -> 'scipy.linalg.pinv')
        self.constants = {}  # module-level NAME = <constant expr>
        self._index()

    def _index(self):
        for st in self.tree.body:
            if isinstance(st, ast.ClassDef):
                self.classes[st.name] = ClassInfo(self, st)
            elif isinstance(st, ast.Assign):
                for t in st.targets:
                    if isinstance(t, ast.Name):
                        self.constants[t.id] = st.value
        for node in ast.walk(self.tree):
            if isinstance(node, ast.Import):
                for a in node.names:
                    self.imports[a.asname or a.name.split('.')[0]] = a.name if a.asname else a.name.split('.')[0]
            elif isinstance(node, ast.ImportFrom):
                for a in node.names:
                    base = ('.' * node.level) + (node.module or '')
                    self.imports[a.asname or a.name] = (base + '.' + a.name).lstrip('.') if base else a.name

        def rec(body, prefix):
            for st in body:
                if isinstance(st, (ast.FunctionDef, ast.AsyncFunctionDef)):
                    q = prefix + st.name
                    self.functions[q] = st
                    st._qualname = q
                    rec(st.body, q + '.')
                elif isinstance(st, ast.ClassDef):
                    st._qualname = prefix + st.name
                    rec(st.body, prefix + st.name + '.')
                elif hasattr(st, 'body') and isinstance(getattr(st, 'body'), list):
                    rec(st.body, prefix)
                    for extra in ('orelse', 'finalbody'):
                        rec(getattr(st, extra, []) or [], prefix)
                    for h in getattr(st, 'handlers', []) or []:
                        rec(h.body, prefix)

        rec(self.tree.body, '')

    def qualname_of(self, node):
        """qualified name of the innermost function/class containing ``node``."""
        n = node
        while n is not None:
            if isinstance(n, (ast.FunctionDef, ast.AsyncFunctionDef, ast.ClassDef)) and hasattr(n, '_qualname'):
                return n._qualname
            n = getattr(n, '_parent', None)
        return '<module>'

    def symtable(self):
        if not hasattr(self, '_symtable'):
            self._symtable = symtable.symtable(self.src, self.path, 'exec')
        return self._symtable


class Model:
    """All ``onsager/*.py`` (and ``bin/*.py``) of the working tree.

    ``overrides`` maps a repo-relative path to replacement source text; used only by the
    adequacy tier (in-memory mutants), never for a tree verdict.
    """

    def __init__(self, repo=None, overrides=None, form='raw'):
        if form not in FORMS:
            raise AnalysisError('unknown tree form %r' % (form,))
        self.form = form
        self.repo = repo or REPO
        self.overrides = overrides or {}
        self.modules = {}
        self.scripts = {}
        pkgdir = os.path.join(self.repo, PKG)
        if not os.path.isdir(pkgdir):
            raise AnalysisError('package directory %s not found' % pkgdir)
        for fn in sorted(os.listdir(pkgdir)):
            if fn.endswith('.py'):
                rel = os.path.join(PKG, fn)
                self.modules[fn[:-3]] = Module(fn[:-3], os.path.join(pkgdir, fn), rel, self.read(rel), form)
        bindir = os.path.join(self.repo, 'bin')
        if os.path.isdir(bindir):
            for fn in sorted(os.listdir(bindir)):
                if fn.endswith('.py'):
                    rel = os.path.join('bin', fn)
                    try:
                        self.scripts[fn[:-3]] = Module(fn[:-3], os.path.join(bindir, fn), rel, self.read(rel), form)
                    except AnalysisError:
                        pass

    def pinned(self):
        """True when every module of the package is byte-identical to the tree the instance floors were confirmed on
        (sa/pinned.json, written by ``python -m sa.registry``).  On that tree an instance that cannot be located means the
        checker has rotted (ANALYSIS-ERROR); on any other tree it means the code was restructured, and the honest answer for
        that one instance is *undecided*."""
        import hashlib, json
        if getattr(self, '_pinned', None) is None:
            path = os.path.join(os.path.dirname(os.path.abspath(__file__)), 'pinned.json')
            try:
                with open(path) as f:
                    want = json.load(f)
            except (OSError, ValueError):
                want = None
            if not want:
                self._pinned = True     # no reference recorded: stay strict
            else:
                got = {m.relpath: hashlib.sha256(self.read(m.relpath).encode('utf-8')).hexdigest() for m in self.modules.values()}
                self._pinned = all(got.get(k) == v for k, v in want.items()) and set(got) == set(want)
        return self._pinned

    def normal(self):
        """the same tree (same checkout, same overrides) in the normal form: lets a check that reads the tree as written
        evaluate single rules on the normal form of a function (rule-by-rule porting)."""
        if self.form == 'normal':
            return self
        if getattr(self, '_normal', None) is None:
            self._normal = Model(self.repo, self.overrides, form='normal')
        return self._normal

    def read(self, rel):
        if rel in self.overrides:
            return self.overrides[rel]
        with open(os.path.join(self.repo, rel), encoding='utf-8') as f:
            return f.read()

    def exists(self, rel):
        return rel in self.overrides or os.path.exists(os.path.join(self.repo, rel))

    def mod(self, name):
        if name not in self.modules:
            raise AnalysisError('anchor vanished: module onsager/%s.py' % name)
        return self.modules[name]

    def cls(self, mod, name):
        m = self.mod(mod)
        if name not in m.classes:
            raise AnalysisError('anchor vanished: class %s.%s' % (mod, name))
        return m.classes[name]

    def func(self, mod, qual):
        m = self.mod(mod)
        if qual not in m.functions:
            raise AnalysisError('anchor vanished: function %s.%s' % (mod, qual))
        return m.functions[qual]

    def has_func(self, mod, qual):
        return mod in self.modules and qual in self.modules[mod].functions

    # ---- class hierarchy -------------------------------------------------
    def resolve_class(self, module, name):
        """ClassInfo for a (possibly dotted / imported) class name as seen from ``module``."""
        if name is None:
            return None
        parts = name.split('.')
        if len(parts) == 1:
            if name in module.classes:
                return module.classes[name]
            tgt = module.imports.get(name)
            if tgt and tgt.startswith(PKG + '.'):
                p = tgt.split('.')
                if len(p) == 3 and p[1] in self.modules:
                    return self.modules[p[1]].classes.get(p[2])
            return None
        head, rest = parts[0], parts[1:]
        tgt = module.imports.get(head)
        if tgt and len(rest) == 1:
            if tgt.startswith(PKG + '.'):
                mname = tgt.split('.')[1]
            elif tgt == PKG:
                return None
            else:
                return None
            if mname in self.modules:
                return self.modules[mname].classes.get(rest[0])
        return None

    def internal_module_alias(self, module, alias):
        """name of the onsager module that ``alias`` refers to in ``module`` (or None)."""
        tgt = module.imports.get(alias)
        if tgt and tgt.startswith(PKG + '.'):
            p = tgt.split('.')
            if len(p) == 2 and p[1] in self.modules:
                return p[1]
        return None

    def mro(self, ci):
        out, seen = [], set()

        def rec(c):
            if c is None or id(c) in seen:
                return
            seen.add(id(c))
            out.append(c)
            for b in c.bases:
                rec(self.resolve_class(c.module, b))

        rec(ci)
        return out

    def find_method(self, ci, name):
        for c in self.mro(ci):
            if name in c.methods:
                return c, c.methods[name]
        return None, None

    def all_functions(self):
        for m in self.modules.values():
            for q, f in m.functions.items():
                yield m, q, f


def loc(module, node):
    return '%s:%d' % (module.relpath, getattr(node, 'lineno', 0))
