"""
E1 ``resolve`` -- names and calls of the resolved program.

(a) undefined names (symtable): a name used in a function that is neither local, nor
    a free variable of an enclosing function, nor defined at module level, nor a builtin;
(b) imports resolvable in the repository's own environment (importlib.util.find_spec;
    ``onsager`` itself is resolved against the parsed working tree, never imported);
(c) constant attribute chains rooted at an external import alias (``np.Inf``) must exist
    in the installed library;
(d) arity / keyword compatibility of every resolved internal call;
(e) bundled resources named in ``resource_string(__name__, F)`` / ``get_data`` exist.
"""
import ast
import builtins
import importlib
import importlib.util

from ..model import PKG, dotted, walk_local, unparse

BUILTINS = set(dir(builtins)) | {'__file__', '__name__', '__doc__', '__debug__', '__class__', '__builtins__',
                                 '__spec__', '__package__', '__loader__', '__path__'}


# ---------------------------------------------------------------- (a) undefined names
def undefined_names(module, scope_filter=None):
    """yield (qualname, name, lineno) for names that cannot resolve at run time."""
    top = module.symtable()
    module_names = set()
    for s in top.get_symbols():
        if s.is_assigned() or s.is_imported() or s.is_namespace():
            module_names.add(s.get_name())
    # names assigned at module level inside if/try/for are included by symtable already

    def rec(tab, qual):
        for child in tab.get_children():
            q = (qual + '.' if qual else '') + child.get_name()
            if child.get_type() == 'function' or str(child.get_type()).endswith('FUNCTION'):
                if scope_filter is None or scope_filter(q):
                    for s in child.get_symbols():
                        if not s.is_referenced():
                            continue
                        n = s.get_name()
                        if s.is_global() and n not in module_names and n not in BUILTINS:
                            yield q, n, child.get_lineno()
            yield from rec(child, q)

    yield from rec(top, '')


# ---------------------------------------------------------------- (b) imports
_ext_cache = {}


def ext_module(name):
    if name not in _ext_cache:
        try:
            _ext_cache[name] = importlib.import_module(name)
        except Exception:
            _ext_cache[name] = None
    return _ext_cache[name]


def check_imports(model, module):
    """yield (node, text, ok, msg) for every import statement of ``module``."""
    for node in ast.walk(module.tree):
        if isinstance(node, ast.Import):
            for a in node.names:
                root = a.name.split('.')[0]
                if root == PKG:
                    parts = a.name.split('.')
                    ok = len(parts) == 1 or parts[1] in model.modules
                    yield node, 'import ' + a.name, ok, '' if ok else 'no such module in the working tree'
                    continue
                try:
                    spec = importlib.util.find_spec(a.name)
                except (ImportError, ValueError, AttributeError):
                    spec = None
                ok = spec is not None
                yield node, 'import ' + a.name, ok, '' if ok else \
                    "module '%s' is not importable in the repository's environment" % a.name
        elif isinstance(node, ast.ImportFrom):
            base = node.module or ''
            if node.level or base == PKG or base.startswith(PKG + '.'):
                parts = base.split('.') if base else []
                for a in node.names:
                    if node.level and not base or base == PKG:
                        ok = a.name in model.modules or a.name == '*'
                        yield node, 'from %s import %s' % (base or '.', a.name), ok, \
                            '' if ok else 'no module onsager/%s.py in the working tree' % a.name
                    else:
                        mname = parts[-1]
                        m = model.modules.get(mname)
                        ok = m is not None and (a.name == '*' or a.name in m.classes or a.name in m.functions
                                                or a.name in m.constants or a.name in m.imports)
                        yield node, 'from %s import %s' % (base, a.name), ok, \
                            '' if ok else '%s does not define %s' % (base, a.name)
                continue
            try:
                spec = importlib.util.find_spec(base)
            except (ImportError, ValueError, AttributeError):
                spec = None
            if spec is None:
                yield node, 'from %s import ...' % base, False, \
                    "module '%s' is not importable in the repository's environment" % base
                continue
            m = ext_module(base)
            for a in node.names:
                if a.name == '*':
                    continue
                ok = m is not None and (hasattr(m, a.name) or _has_submodule(base, a.name))
                yield node, 'from %s import %s' % (base, a.name), ok, \
                    '' if ok else "'%s' has no attribute or submodule '%s' in the installed version" % (base, a.name)


def _has_submodule(base, name):
    try:
        return importlib.util.find_spec(base + '.' + name) is not None
    except Exception:
        return False


# ---------------------------------------------------------------- (c) external attribute chains
def external_chains(model, module, root_node=None):
    """yield (node, chain_text, ok, msg) for maximal constant attribute chains whose root is an alias
    of an external (non-onsager) import."""
    root_node = root_node if root_node is not None else module.tree
    local_shadow = _shadowed_names(root_node)
    for node in ast.walk(root_node):
        if not isinstance(node, ast.Attribute):
            continue
        par = getattr(node, '_parent', None)
        if isinstance(par, ast.Attribute) and par.value is node:
            continue  # not maximal
        d = dotted(node)
        if d is None:
            continue
        parts = d.split('.')
        alias = parts[0]
        if alias in local_shadow.get(_fn_of(node), ()):  # shadowed by a local variable
            continue
        tgt = module.imports.get(alias)
        if tgt is None or tgt == PKG or tgt.startswith(PKG + '.') or tgt.startswith('.'):
            continue
        # tgt is e.g. 'numpy' or 'scipy.linalg.pinv'
        obj, consumed = _resolve_ext(tgt)
        if obj is None:
            continue  # import itself is reported by check_imports
        ok, bad = True, None
        for p in parts[1:]:
            if not hasattr(obj, p):
                # could be a not-yet-imported submodule
                sub = getattr(obj, '__name__', None)
                if isinstance(sub, str) and _has_submodule(sub, p):
                    obj = ext_module(sub + '.' + p)
                    if obj is None:
                        break
                    continue
                ok, bad = False, p
                break
            obj = getattr(obj, p)
            if not _is_namespace_like(obj):
                break  # attributes of instances/arrays are not decided here
        yield node, d, ok, '' if ok else \
            "'%s' does not exist in the installed %s (chain breaks at '%s')" % (d, tgt.split('.')[0], bad)


def _is_namespace_like(obj):
    import types
    return isinstance(obj, (types.ModuleType, type))


def _resolve_ext(tgt):
    parts = tgt.split('.')
    for k in range(len(parts), 0, -1):
        m = ext_module('.'.join(parts[:k]))
        if m is not None:
            obj = m
            for p in parts[k:]:
                if not hasattr(obj, p):
                    return None, 0
                obj = getattr(obj, p)
            return obj, k
    return None, 0


def _fn_of(node):
    n = node
    while n is not None and not isinstance(n, (ast.FunctionDef, ast.AsyncFunctionDef, ast.Lambda)):
        n = getattr(n, '_parent', None)
    return n


def _shadowed_names(root):
    out = {}
    for fn in ast.walk(root):
        if isinstance(fn, (ast.FunctionDef, ast.AsyncFunctionDef)):
            names = {a.arg for a in fn.args.args + fn.args.kwonlyargs + fn.args.posonlyargs}
            for n in walk_local(fn):
                if isinstance(n, ast.Name) and isinstance(n.ctx, ast.Store):
                    names.add(n.id)
            out[fn] = names
    return out


# ---------------------------------------------------------------- (d) arity of resolved calls
class Sig:
    def __init__(self, name, params, nreq, kwonly, kwonly_req, vararg, kwarg, where):
        self.name, self.params, self.nreq = name, params, nreq
        self.kwonly, self.kwonly_req, self.vararg, self.kwarg, self.where = kwonly, kwonly_req, vararg, kwarg, where


def sig_of(fn, drop_first):
    a = fn.args
    params = [p.arg for p in a.posonlyargs + a.args]
    ndef = len(a.defaults)
    nreq = len(params) - ndef
    if drop_first and params:
        params = params[1:]
        nreq = max(0, nreq - 1)
    kwonly = [p.arg for p in a.kwonlyargs]
    kwonly_req = [p.arg for p, d in zip(a.kwonlyargs, a.kw_defaults) if d is None]
    return Sig(fn.name, params, nreq, kwonly, kwonly_req, a.vararg is not None, a.kwarg is not None, fn)


def check_call(call, sig):
    """(ok, msg) for a Call against a Sig; partial when *args/**kwargs are used at the call."""
    star = any(isinstance(x, ast.Starred) for x in call.args)
    dstar = any(k.arg is None for k in call.keywords)
    npos = sum(1 for x in call.args if not isinstance(x, ast.Starred))
    kws = [k.arg for k in call.keywords if k.arg is not None]
    if not sig.vararg and npos > len(sig.params):
        return False, 'passes %d positional argument(s) but %s accepts at most %d' % (npos, sig.name, len(sig.params))
    for k in kws:
        if k not in sig.params and k not in sig.kwonly and not sig.kwarg:
            return False, "keyword '%s' is not a parameter of %s" % (k, sig.name)
        if k in sig.params[:npos]:
            return False, "parameter '%s' of %s given twice" % (k, sig.name)
    if not star and not dstar:
        missing = [p for p in sig.params[npos:sig.nreq] if p not in kws]
        missing += [p for p in sig.kwonly_req if p not in kws]
        if missing:
            return False, 'missing required argument(s) %s of %s' % (', '.join(missing), sig.name)
    return True, ''


def resolve_callee(model, module, call, cls_ctx=None, fn_ctx=None, typed=None):
    """Sig for the callee of ``call`` or None when it cannot be resolved.
    cls_ctx: ClassInfo of the enclosing class; fn_ctx: enclosing FunctionDef;
    typed: optional dict  local-name / 'self.attr' -> ClassInfo  (receiver typing)."""
    f = call.func
    d = dotted(f)
    if d is None:
        return None
    parts = d.split('.')
    kind = cls_ctx.kind(fn_ctx.name) if (cls_ctx and fn_ctx is not None and fn_ctx.name in cls_ctx.methods
                                         and cls_ctx.methods[fn_ctx.name] is fn_ctx) else None
    first = None
    if kind in ('instance', 'class') and fn_ctx.args.args:
        first = fn_ctx.args.args[0].arg

    def method_sig(ci, mname):
        owner, fn = model.find_method(ci, mname)
        if fn is None:
            return None
        k = owner.kind(mname)
        return sig_of(fn, drop_first=(k != 'static'))

    def ctor_sig(ci):
        owner, fn = model.find_method(ci, '__init__')
        if fn is not None:
            return sig_of(fn, drop_first=True)
        nowner, nfn = model.find_method(ci, '__new__')
        if nfn is not None:
            return sig_of(nfn, drop_first=True)
        for c in model.mro(ci):
            if c.namedtuple_fields is not None:
                return Sig(ci.name, list(c.namedtuple_fields), len(c.namedtuple_fields), [], [], False, False, c.node)
        return None

    if len(parts) == 1:
        n = parts[0]
        if fn_ctx is not None and n in _shadowed_names(fn_ctx).get(fn_ctx, ()):
            return None
        # nested function of the enclosing function
        if fn_ctx is not None:
            for st in ast.walk(fn_ctx):
                if isinstance(st, ast.FunctionDef) and st.name == n and st is not fn_ctx:
                    return sig_of(st, drop_first=False)
        if n in module.functions and '.' not in n:
            return sig_of(module.functions[n], drop_first=False)
        ci = model.resolve_class(module, n)
        if ci is not None:
            return ctor_sig(ci)
        tgt = module.imports.get(n)
        if tgt and tgt.startswith(PKG + '.'):
            p = tgt.split('.')
            if len(p) == 3 and p[1] in model.modules and p[2] in model.modules[p[1]].functions:
                return sig_of(model.modules[p[1]].functions[p[2]], drop_first=False)
        return None
    head, rest = parts[0], parts[1:]
    if first is not None and head == first and cls_ctx is not None:
        if len(rest) == 1:
            if kind == 'instance' and _assigned_attr(cls_ctx, model, rest[0]):
                return None  # self.x where x is a data attribute holding a callable
            s = method_sig(cls_ctx, rest[0])
            return s
        if len(rest) == 2 and typed:
            ci = typed.get(head + '.' + rest[0])
            if ci is not None:
                return method_sig(ci, rest[1])
        return None
    if typed and head in typed and len(rest) == 1:
        return method_sig(typed[head], rest[0])
    # Class.method / Class(...)
    ci = model.resolve_class(module, head) if len(rest) == 1 else None
    if ci is not None:
        owner, fn = model.find_method(ci, rest[0])
        if fn is None:
            return None
        k = owner.kind(rest[0])
        # Class.method(obj, ...) for instance methods: first positional is self
        return sig_of(fn, drop_first=(k == 'class'))
    mname = model.internal_module_alias(module, head)
    if mname is not None:
        m = model.modules[mname]
        if len(rest) == 1:
            if rest[0] in m.functions:
                return sig_of(m.functions[rest[0]], drop_first=False)
            if rest[0] in m.classes:
                return ctor_sig(m.classes[rest[0]])
            return None
        if len(rest) == 2 and rest[0] in m.classes:
            ci = m.classes[rest[0]]
            owner, fn = model.find_method(ci, rest[1])
            if fn is None:
                return None
            return sig_of(fn, drop_first=(owner.kind(rest[1]) == 'class'))
    return None


def _assigned_attr(ci, model, attr):
    for c in model.mro(ci):
        for fn in c.methods.values():
            for n in ast.walk(fn):
                if isinstance(n, ast.Attribute) and isinstance(n.ctx, ast.Store) and n.attr == attr \
                        and isinstance(n.value, ast.Name) and n.value.id == 'self':
                    return True
    return False


def calls_in(model, module, scope_node, cls_ctx=None):
    """yield (call, fn_ctx, cls_ctx) for every Call lexically inside ``scope_node``."""
    for node in ast.walk(scope_node):
        if isinstance(node, ast.Call):
            fn = _fn_of(node)
            while isinstance(fn, ast.Lambda):
                fn = _fn_of(getattr(fn, '_parent', None))
            c = None
            n = fn
            while n is not None and not isinstance(n, ast.ClassDef):
                n = getattr(n, '_parent', None)
            if n is not None:
                c = module.classes.get(n.name)
            # the method context is the outermost function directly under the class
            meth = fn
            while meth is not None and not isinstance(getattr(meth, '_parent', None), ast.ClassDef):
                meth = _fn_of(getattr(meth, '_parent', None))
            yield node, (meth if meth is not None else fn), c, fn


def check_arity(model, module, scope_node, typed=None):
    """yield (call, text, ok, msg, resolved) for each call inside scope_node."""
    for call, meth, ci, fn in calls_in(model, module, scope_node):
        sig = resolve_callee(model, module, call, cls_ctx=ci, fn_ctx=meth, typed=typed)
        if sig is None and fn is not meth and fn is not None:
            # names of enclosing non-method functions
            sig = resolve_callee(model, module, call, cls_ctx=None, fn_ctx=fn, typed=typed)
        if sig is None:
            yield call, unparse(call.func), True, '', False
            continue
        ok, msg = check_call(call, sig)
        yield call, unparse(call)[:200], ok, msg, True


# ---------------------------------------------------------------- (e) resources
def resources(model, module):
    """yield (node, filename, ok) for bundled resources loaded by name."""
    for node in ast.walk(module.tree):
        if isinstance(node, ast.Call):
            d = dotted(node.func) or ''
            if d.endswith('resource_string') or d.endswith('get_data') or d.endswith('resource_filename'):
                if len(node.args) >= 2:
                    for fn in _string_values(node.args[1], node):
                        yield node, fn, model.exists(PKG + '/' + fn)


def _string_values(e, at):
    """the string constants expression ``e`` can take: a literal, or a loop variable of an enclosing ``for`` over a literal
    table (``for script, isexec in (('trans.pl', True), ...)`` / ``for script in ('a', 'b')``)."""
    if isinstance(e, ast.Constant) and isinstance(e.value, str):
        return [e.value]
    if isinstance(e, ast.Name):
        lp = getattr(at, '_parent', None)
        while lp is not None:
            if isinstance(lp, ast.For) and isinstance(lp.iter, (ast.Tuple, ast.List)):
                if isinstance(lp.target, ast.Name) and lp.target.id == e.id:
                    return [x.value for x in lp.iter.elts if isinstance(x, ast.Constant) and isinstance(x.value, str)]
                if isinstance(lp.target, ast.Tuple):
                    for k, t in enumerate(lp.target.elts):
                        if isinstance(t, ast.Name) and t.id == e.id:
                            return [r.elts[k].value for r in lp.iter.elts if isinstance(r, (ast.Tuple, ast.List)) and len(r.elts) > k
                                    and isinstance(r.elts[k], ast.Constant) and isinstance(r.elts[k].value, str)]
            lp = getattr(lp, '_parent', None)
    return []
