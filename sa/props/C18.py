"""
C18 -- the crystal's symmetry group is a correct group of self-isometries (structural clauses).

Not decided: closure, isometry and permutation correctness (numerical search over lattices).  Decided:
  * the symmetry-group construction, including the NOSYM branch, the translation matcher and the GroupOp algebra,
    is dimension-generic: no hard-coded spatial dimension on a path 2D crystals also take;
  * every name and resolved call in those routines resolves with a compatible argument list;
  * operator kinds: the Cartesian rotation of a generated operation is lattice . rot . inverse-lattice in that
    order, products/inverses of operations compose integer rotations with integer rotations and Cartesian with
    Cartesian, and the translation is transformed by the integer rotation (unit-cell coordinates);
  * ownership: nothing ``Crystal.__init__`` stores shares storage with the caller's lattice / basis / spins / chemistry
    (the symmetry group, metric and inverse lattice are computed once: an aliased lattice edited later leaves a crystal whose
    operations are no longer isometries of its own lattice);
  * operator side: wherever a rotation multiplies a vector or tensor (vector spins in gengroup, directions, positions,
    eigenvectors) it is the left factor, or is transposed on the right -- ``np.dot(v, R)`` applies the inverse operation.
"""
import ast

from ..model import AnalysisError, unparse, walk_local
from ..engines import coordkind
from ._common import dim_generic, names_and_calls_resolve, groupop_composition_order, rotations_from_left, ctor_copies_arguments

SCOPE = [('crystal', 'maptranslation'), ('crystal', 'GroupOp.'), ('crystal', 'Crystal.__init__'),
         ('crystal', 'Crystal.gengroup'), ('crystal', 'Crystal.genpoint'), ('crystal', 'Crystal.genWyckoffsets'),
         ('crystal', 'Crystal.center'), ('crystal', 'Crystal.calcmetric'), ('crystal', 'Crystal.genBZG'),
         ('crystal', 'incell'), ('crystal', 'inhalf')]


def run(model, rep, tier):
    rep.explanation = __doc__.strip()
    from ._common import caches_for
    caches_for(model, rep, 'C18')
    rep.not_decided = 'group closure, isometry, and that the recorded permutation matches the geometry (numerical)'
    dim_generic(model, rep, SCOPE, min_functions=25)
    names_and_calls_resolve(model, rep, [s for s in SCOPE])
    rep.rule('operator-composition', 'rotations are composed / applied within one coordinate kind')
    mod = model.mod('crystal')
    gg = model.func('crystal', 'Crystal.gengroup')
    fields = {'self.lattice': 'op:u2c', 'self.invlatt': 'op:c2u'}
    # the integer candidate matrix is whatever is passed as `rot` to GroupOp(...) in gengroup
    ctor = [c for c in walk_local(gg) if isinstance(c, ast.Call) and unparse(c.func) == 'GroupOp']
    if len(ctor) != 1 or len(ctor[0].args) < 3:
        raise AnalysisError('Crystal.gengroup: GroupOp construction not recognised')
    rotname, cartname = unparse(ctor[0].args[0]), unparse(ctor[0].args[2])
    ty = coordkind.Typer({rotname: 'op:latt'}, fields=fields)
    defs = [n for n in walk_local(gg) if isinstance(n, ast.Assign) and unparse(n.targets[0]) == cartname]
    if len(defs) != 1:
        raise AnalysisError('Crystal.gengroup: definition of %s not found' % cartname)
    k = ty.kind(defs[0].value)
    ok = k == 'op:cart' and not ty.problems
    rep.ob('operator-composition', mod, defs[0], 'gengroup: %s = %s  [%s]' % (cartname, unparse(defs[0].value), k), ok,
           '' if ok else 'the Cartesian rotation is not lattice . rot . inverse-lattice: %s'
           % ('; '.join(m for _, m in ty.problems) or 'kind %s' % k), engine='coordkind', qual='Crystal.gengroup')
    # positions are transformed by the integer rotation
    calls = [c for c in walk_local(gg) if isinstance(c, ast.Call) and unparse(c.func) == 'maptranslation']
    if len(calls) != 1:
        raise AnalysisError('Crystal.gengroup: maptranslation call not found')
    from ._common import resolve_local
    # the trial positions are whatever reaches the second argument (written in place or through a local bound once)
    dots = [d for d in ast.walk(resolve_local(gg, calls[0].args[1])) if isinstance(d, ast.Call) and unparse(d.func) == 'np.dot']
    ok = len(dots) == 1 and unparse(dots[0].args[0]) == unparse(resolve_local(gg, ctor[0].args[0]))
    rep.ob('operator-composition', mod, calls[0], 'gengroup: trial positions are %s . u (unit-cell coordinates)' % rotname, ok,
           '' if ok else 'atom positions (unit-cell coordinates) are not transformed by the integer rotation', engine='coordkind',
           qual='Crystal.gengroup')
    # GroupOp algebra
    gfields = {}
    for who in ('self', 'other'):
        gfields.update({who + '.rot': 'op:latt', who + '.trans': 'unit', who + '.cartrot': 'op:cart'})
    ci = model.cls('crystal', 'GroupOp')
    n = 0
    for m in ('__mul__', 'inv', '__add__'):
        fn = ci.methods.get(m)
        if fn is None:
            raise AnalysisError('anchor vanished: GroupOp.%s' % m)
        t, rets = coordkind.type_function(fn, {'other': 'latt'} if m == '__add__' else {}, fields=gfields)
        for r, _ in rets:
            for c in ast.walk(r.value):
                if isinstance(c, ast.Call) and unparse(c.func) == 'GroupOp' and len(c.args) >= 3:
                    for name, a, want in zip(('rot', 'trans', 'cartrot'), c.args, ('op:latt', 'unit', 'op:cart')):
                        kk = t.kind(a)
                        if kk is None:
                            continue
                        n += 1
                        okk = kk == want
                        rep.ob('operator-composition', mod, a, 'GroupOp.%s: %s <- %s [%s]' % (m, name, unparse(a)[:60], kk), okk,
                               '' if okk else 'field %s receives a %s quantity' % (name, kk), engine='coordkind', qual='GroupOp.' + m)
        for node, msg in t.problems:
            rep.ob('operator-composition', mod, node, 'GroupOp.%s: %s' % (m, unparse(node)[:80]), False, msg, engine='coordkind',
                   qual='GroupOp.' + m)
    rep.floor('GroupOp algebra fields typed', n, 7)
    groupop_composition_order(model, rep)
    # rotations (of spins, directions, positions, eigenvectors) act from the left throughout crystal.py
    rotations_from_left(model, rep, [('crystal', '')], min_instances=12)
    # the crystal owns its data: the group is computed once, from the values at construction
    ctor_copies_arguments(model, rep, 'crystal', 'Crystal', ['lattice', 'basis', 'spins', 'chemistry'])
    # NOSYM branch goes through GroupOp.ident with the crystal's own basis
    init = model.func('crystal', 'Crystal.__init__')
    from ._common import conditions_at
    gs = [a for a in walk_local(init) if isinstance(a, ast.Assign) and unparse(a.targets[0]) == 'self.G']
    nos = [a for a in gs if 'NOSYM' in conditions_at(init, a)]
    sym = [a for a in gs if 'not NOSYM' in conditions_at(init, a)]
    if not nos or not sym:
        rep.undecided('Crystal.__init__: assignments of self.G under NOSYM / not NOSYM not located')
    else:
        ok = all('GroupOp.ident(self.basis)' in unparse(a.value) for a in nos) and all('self.gengroup()' in unparse(a.value) for a in sym)
        rep.ob('operator-composition', mod, nos[0], 'NOSYM: self.G = {GroupOp.ident(self.basis)} ; otherwise self.gengroup()', ok,
               '' if ok else 'NOSYM branch does not build the identity from the crystal\'s own basis (or the group is not generated otherwise)',
               engine='flow', qual='Crystal.__init__')
    ident = ci.methods.get('ident')
    from ..engines import pattern
    # identity permutation of every species, written as a generator over range(len(.)) or as the range itself
    ok = pattern.has(ident, 'tuple((tuple((_N_i for _N_i in range(len(_N_a)))) for _N_a in _N_basis))', 'expr') or \
        pattern.has(ident, 'tuple((tuple(range(len(_N_a))) for _N_a in _N_basis))', 'expr')
    rep.ob('operator-composition', mod, ident, 'GroupOp.ident: indexmap is the identity permutation of every species', ok,
           '' if ok else 'identity operation does not map every atom to itself', engine='flow', qual='GroupOp.ident')


BREAKERS = [
    ('onsager/crystal.py', "origin = np.zeros(self.dim, dtype=int)", "origin = np.zeros(3, dtype=int)", 'dimension-generic'),
    ('onsager/crystal.py', "for d in range(self.dim)]\n        # if we don't have spins", "for d in range(3)]\n        # if we don't have spins", 'dimension-generic'),
    ('onsager/crystal.py', "cartrot = np.dot(self.lattice, np.dot(supercell, self.invlatt))", "cartrot = np.dot(self.invlatt, np.dot(supercell, self.lattice))",
     'operator-composition'),
    ('onsager/crystal.py', "np.dot(self.rot, other.trans) + self.trans,", "np.dot(self.cartrot, other.trans) + self.trans,", 'operator-composition'),
    ('onsager/crystal.py', "dim = len(basis[0][0])\n        return cls(rot=np.eye(dim, dtype=int), trans=np.zeros(dim), cartrot=np.eye(dim),",
     "return cls(rot=np.eye(3, dtype=int), trans=np.zeros(3), cartrot=np.eye(3),", 'dimension-generic'),
]
BREAKERS.append(('onsager/crystal.py', "else np.dot(cartrot, s)", "else np.dot(s, cartrot)", 'operator-side'))
BREAKERS.append(('onsager/crystal.py', "return np.dot(g.cartrot, direc)", "return np.dot(direc, g.cartrot)", 'operator-side'))
BREAKERS.append(('onsager/crystal.py', "            self.lattice = np.array(lattice)\n", "            self.lattice = np.asarray(lattice, dtype=float)\n", 'constructor-copies-arguments'))
BREAKERS.append(('onsager/crystal.py', "            self.basis = [[incell(u) for u in basis]]", "            self.basis = [basis]", 'constructor-copies-arguments'))
NEUTRALS = [
    ('onsager/crystal.py', "origin = np.zeros(self.dim, dtype=int)", "origin = np.zeros(len(self.lattice), dtype=int)"),
    ('onsager/crystal.py', "return np.dot(g.cartrot, direc)", "return np.dot(direc, g.cartrot.T)"),
]
