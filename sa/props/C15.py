"""
C15 -- tag input maps exactly onto symmetry classes (structural clauses).

Not decided: uniqueness of tags within a type for nearly coincident sites (a run-time check exists).  Decided:
  * tables: the tag types written by generatetags = __taglist__ = the rows consumed by tags2preene = the types printed
    by __str__ / stored by HDF5; every row names a prefactor and an energy array of the same species; the sequence a
    tag list is generated over has the length of the array its row fills (tag class n <-> array entry n);
  * neutral defaults: prefactors np.ones, energies np.zeros, every array a distinct fresh object;
  * flow: defaults < state and omega0 overrides < LIMB back-fill < omega1/omega2 overrides < return; an override
    writes entry i for the class index i it was found in, first member tag wins;
  * verbose report: unknown tags -> bad list, classes with no data -> missing, with more than one -> duplicates;
  * templates: tags of different types can never coincide (each type has its own multiset of literal markers and the
    numeric format cannot produce marker characters);
  * tagdict / tagdicttype are filled from the loop variables of the loop that produced the tag (no stale variable),
    in generatetags and in the HDF5 loader.
"""
import ast
import re

from ..model import AnalysisError, dotted, unparse, walk_local
from ..engines import flow, exchange
from ..engines.parity import class_tuple

SEQ_LEN = {  # sequence a tag list iterates over -> expression giving the size of the array it indexes
    'self.sitelist': ('len(self.sitelist)', 'N'),
    'self.thermo.stars': ('self.thermo.Nstars', 'Nst'),
    'self.crys.jumpnetwork2lattice(self.chem, self.om0_jn)': ('len(self.om0_jn)', 'Nom0'),
    'self.om1_jn': ('len(self.om1_jn)', None), 'self.om2_jn': ('len(self.om2_jn)', None),
    'self.jumpnetwork': ('len(self.jumpnetwork)', None),
}


MUTABLE_CTORS = ('ones', 'zeros', 'empty', 'full', 'array', 'zeros_like', 'ones_like', 'empty_like', 'list', 'dict', 'set', 'copy', 'arange')


def _is_mutable_ctor(e):
    return isinstance(e, (ast.List, ast.Dict, ast.Set, ast.ListComp, ast.DictComp, ast.SetComp)) or \
        (isinstance(e, ast.Call) and (dotted(e.func) or '').split('.')[-1] in MUTABLE_CTORS)


def _shared_mutables(fn):
    """constructs that hand ONE freshly built mutable object to several keys / positions: ``dict.fromkeys(keys, <array>)`` and
    ``[<array>] * n`` (also through a local bound once to such an object)."""
    out = []
    local = {}
    for n in walk_local(fn):
        if isinstance(n, ast.Assign) and len(n.targets) == 1 and isinstance(n.targets[0], ast.Name) and _is_mutable_ctor(n.value):
            local.setdefault(n.targets[0].id, []).append(n.value)

    def mutable(e):
        return _is_mutable_ctor(e) or (isinstance(e, ast.Name) and len(local.get(e.id, ())) == 1)
    for n in walk_local(fn):
        if isinstance(n, ast.Assign) and len(n.targets) >= 2 and mutable(n.value) \
                and sum(isinstance(t, (ast.Subscript, ast.Attribute)) for t in n.targets) >= 2:
            out.append((n, 'chained assignment of one mutable object to several keys'))
        if isinstance(n, ast.Call) and (dotted(n.func) or '').endswith('fromkeys') and len(n.args) == 2 and mutable(n.args[1]):
            if not (isinstance(n.args[0], (ast.List, ast.Tuple)) and len(n.args[0].elts) < 2):
                out.append((n, 'dict.fromkeys with a mutable value'))
        if isinstance(n, ast.BinOp) and isinstance(n.op, ast.Mult):
            for seq, k in ((n.left, n.right), (n.right, n.left)):
                if isinstance(seq, (ast.List, ast.Tuple)) and seq.elts and all(mutable(e) for e in seq.elts) \
                        and not (isinstance(k, ast.Constant) and k.value in (0, 1)):
                    out.append((n, 'sequence repetition of a mutable element'))
    return out


def run(model, rep, tier):
    rep.explanation = __doc__.strip()
    from ._common import caches_for
    caches_for(model, rep, 'C15')
    rep.not_decided = 'uniqueness of tags inside one type for nearly coincident sites; wording of the report'
    rep.rule('tag-type-tables', 'tag types agree between generatetags, __taglist__, tags2preene rows, __str__ and HDF5')
    rep.rule('row-array-size', 'the sequence generating a tag list has the length of the array its row fills')
    rep.rule('neutral-defaults', 'pre* default np.ones, ene* default np.zeros, one fresh array per key')
    rep.rule('override-order', 'defaults < state/omega0 overrides < LIMB < omega1/omega2 overrides < return')
    rep.rule('override-shape', 'an override writes entry i of the class it was found in; first member wins')
    rep.rule('verbose-report', 'bad / missing / duplicate lists are filled under the right predicates')
    rep.rule('template-disjoint', 'tags of different types have different literal marker multisets')
    rep.rule('no-stale-loop-variable', 'tag dictionaries are filled from the current loop variables')
    mod = model.mod('OnsagerCalc')
    ci = model.cls('OnsagerCalc', 'VacancyMediated')
    for m in ('generatetags', 'tags2preene', '__str__', 'makeLIMBpreene', 'loadhdf5', 'addhdf5'):
        if m not in ci.methods:
            raise AnalysisError('anchor vanished: VacancyMediated.%s' % m)
    gt, t2p = ci.methods['generatetags'], ci.methods['tags2preene']
    gen = {}
    for n in walk_local(gt):
        if isinstance(n, ast.Assign) and isinstance(n.targets[0], ast.Subscript) and unparse(n.targets[0].value) == 'tags' \
                and isinstance(n.targets[0].slice, ast.Constant):
            gen[n.targets[0].slice.value] = n
    taglist = class_tuple(model, ci, '__taglist__')
    if taglist is None:
        raise AnalysisError('anchor vanished: VacancyMediated.__taglist__')
    ok = list(gen) == list(taglist)
    rep.ob('tag-type-tables', mod, gt, 'generatetags writes %s ; __taglist__ = %s' % (list(gen), list(taglist)), ok,
           '' if ok else 'tag types differ between generator and class table', engine='tables')
    # one array object handed to several keys (dict.fromkeys(keys, array), [array] * n): data written for one species land in
    # the other's array as well
    shared = _shared_mutables(t2p)
    for node, what in shared:
        rep.ob('neutral-defaults', mod, node, 'tags2preene: %s' % unparse(node)[:70], False,
               '%s: every key / position refers to the same array object, so the prefactors and energies written for one kind of '
               'state overwrite those of another' % what, engine='alias', qual='VacancyMediated.tags2preene')
    # rows of tags2preene
    rows = []
    row_loops = []
    for lp in [x for x in t2p.body if isinstance(x, ast.For)]:
        if isinstance(lp.iter, ast.Tuple) and lp.iter.elts and all(isinstance(e, ast.Tuple) and len(e.elts) == 3 for e in lp.iter.elts):
            row_loops.append(lp)
            for e in lp.iter.elts:
                rows.append(tuple(x.value for x in e.elts) + (e, lp))
    if len(row_loops) != 2:
        raise AnalysisError('tags2preene: the two row tables were not found')
    ok = [r[0] for r in rows] == list(taglist)
    rep.ob('tag-type-tables', mod, t2p, 'tags2preene rows %s' % [r[0] for r in rows], ok,
           '' if ok else 'a tag type is never consumed (or consumed twice / in another order than __taglist__)', engine='tables')
    # thermodict literal
    td = None
    for n in walk_local(t2p):
        if isinstance(n, ast.Assign) and unparse(n.targets[0]) == 'thermodict' and isinstance(n.value, ast.Dict):
            td = n
    if td is None:
        rep.undecided('tags2preene: thermodict is not built as a literal; its default arrays were not located')
        return
    sizes = {}
    for n in walk_local(t2p):
        if isinstance(n, ast.Assign) and isinstance(n.targets[0], ast.Tuple) and isinstance(n.value, ast.Tuple):
            for t, v in zip(n.targets[0].elts, n.value.elts):
                sizes[unparse(t)] = unparse(v)
    tdk = {}
    seen_vals = set()
    for k, v in zip(td.value.keys, td.value.values):
        kk = k.value
        tdk[kk] = v
        ctor = (dotted(v.func) or '').split('.')[-1] if isinstance(v, ast.Call) else None
        want = 'ones' if kk.startswith('pre') else 'zeros'
        ok = ctor == want and id(v) not in seen_vals
        seen_vals.add(id(v))
        rep.ob('neutral-defaults', mod, v, "thermodict['%s'] = %s" % (kk, unparse(v)), ok,
               '' if ok else 'default of %s is not the neutral np.%s(...)' % (kk, want), engine='tables')
    limb = ci.methods['makeLIMBpreene']
    limb_sizes = {}
    lrets = [n for n in walk_local(limb) if isinstance(n, ast.Return) and isinstance(n.value, ast.Dict)]
    if len(lrets) != 1:
        raise AnalysisError('makeLIMBpreene: dictionary return not found')
    # size of the array returned under each key (the local behind the key is read off the returned dictionary)
    lkey = {v.id: k.value for k, v in zip(lrets[0].value.keys, lrets[0].value.values) if isinstance(k, ast.Constant) and isinstance(v, ast.Name)}
    for n in limb.body:
        if isinstance(n, ast.Assign) and isinstance(n.targets[0], ast.Name) and isinstance(n.value, ast.Call) and n.value.args \
                and n.targets[0].id in lkey:
            limb_sizes[lkey[n.targets[0].id]] = unparse(n.value.args[0])
    for tagstring, pre, ene, node, lp in rows:
        okp = pre.startswith('pre') and ene.startswith('ene') and pre[3:] == ene[3:]
        src = tdk if lp is row_loops[0] else limb_sizes
        okk = pre in src and ene in src
        if not okk and lp is row_loops[0] and len(tdk) < 8:
            rep.undecided("tags2preene: the arrays of row ('%s', '%s', '%s') are not entries of the thermodict literal" % (tagstring, pre, ene))
            continue
        rep.ob('tag-type-tables', mod, node, "row ('%s', '%s', '%s')" % (tagstring, pre, ene), okp and okk,
               '' if okp and okk else 'row pairs prefactor and energy of different species, or names an array that does not exist '
                                      'at this point', engine='tables')
        # size: sequence of the tag list vs array size
        g = gen.get(tagstring)
        if g is None or not isinstance(g.value, ast.ListComp):
            raise AnalysisError('generatetags: list comprehension for %s not found' % tagstring)
        seq = unparse(g.value.generators[0].iter)
        if seq not in SEQ_LEN:
            raise AnalysisError('generatetags: sequence %s of tag type %s not in the size table' % (seq, tagstring))
        want_len, alias = SEQ_LEN[seq]
        if lp is row_loops[0]:
            arg = unparse(tdk[pre].args[0]) if pre in tdk and isinstance(tdk[pre], ast.Call) and tdk[pre].args else None
            have = sizes.get(arg, arg)
        else:
            have = limb_sizes.get(pre)
        ok = have == want_len
        rep.ob('row-array-size', mod, node, "tags['%s'] over %s (length %s) fills %s sized %s" % (tagstring, seq, want_len, pre, have), ok,
               '' if ok else 'class n of the tag list is not entry n of the array: data land on another class', engine='tables')
    # ---- order
    stmts = t2p.body
    idx = {}
    for i, st in enumerate(stmts):
        if st is td:
            idx['defaults'] = i
        if st is row_loops[0]:
            idx['state'] = i
        if st is row_loops[1]:
            idx['omega12'] = i
        if isinstance(st, ast.Expr) and 'self.makeLIMBpreene(**thermodict)' in unparse(st) and 'thermodict.update' in unparse(st):
            idx['limb'] = i
        if isinstance(st, ast.If) and any(isinstance(s, ast.Return) for s in st.body) and 'ret' not in idx:
            idx['ret'] = i
    order = [idx.get(k, -1) for k in ('defaults', 'state', 'limb', 'omega12', 'ret')]
    ok = -1 not in order and order == sorted(order) and len(set(order)) == 5
    rep.ob('override-order', mod, t2p, 'statement positions defaults/state/LIMB/omega1-2/return = %s' % order, ok,
           '' if ok else 'the LIMB back-fill does not sit between the state overrides and the omega1/omega2 overrides: user data '
                         'are overwritten or the back-fill ignores them', engine='flow')
    # ---- override shape
    for lp in row_loops:
        names = [unparse(t) for t in lp.target.elts]
        inner = [x for x in lp.body if isinstance(x, ast.For)]
        ok = False
        txt = ''
        if len(inner) == 1 and isinstance(inner[0].iter, ast.Call) and dotted(inner[0].iter.func) == 'enumerate' \
                and unparse(inner[0].iter.args[0]) == 'self.tags[%s]' % names[0]:
            i_, tags_ = [unparse(t) for t in inner[0].target.elts]
            mem = [x for x in inner[0].body if isinstance(x, ast.For)]
            if len(mem) == 1 and unparse(mem[0].iter) == tags_:
                t_ = unparse(mem[0].target)
                # normal form: ``if t not in usertagdict: continue`` ; <assign> ; break
                body = mem[0].body
                if len(body) == 3 and isinstance(body[0], ast.If) and not body[0].orelse and len(body[0].body) == 1 \
                        and isinstance(body[0].body[0], ast.Continue) and unparse(body[0].test) == '%s not in usertagdict' % t_ \
                        and isinstance(body[1], ast.Assign) and isinstance(body[2], ast.Break):
                    txt = unparse(body[1])
                    ok = txt == 'thermodict[%s][%s], thermodict[%s][%s] = usertagdict[%s]' % (names[1], i_, names[2], i_, t_)
        rep.ob('override-shape', mod, lp, 'override: %s ; break' % txt, ok,
               '' if ok else 'user data are not written to (prefactor, energy)[class index] of the class the tag belongs to',
               engine='flow')
    # ---- verbose report
    from ..engines import pattern
    bad = pattern.find(t2p, 'for _N_u in usertagdict:\n    if _N_u in self.tagdict:\n        '
                            '_N_td[self.tagdicttype[_N_u], self.tagdict[_N_u]].append(_N_u)\n    else:\n        _N_bad.append(_N_u)')
    rep.ob('verbose-report', mod, t2p, 'unknown tags go to the bad-tag list, known tags are grouped by (type, class index)', bool(bad),
           '' if bad else 'the verbose report no longer separates unknown tags / groups known tags by class', engine='flow')
    init = pattern.find(t2p, '_N_td = {(_N_t, _N_n): [] for _N_t, _N_l in self.tags.items() for _N_n in range(len(_N_l))}') or \
        pattern.find(t2p, 'for _N_t, _N_l in self.tags.items():\n    for _N_n in range(len(_N_l)):\n        _N_td[_N_t, _N_n] = []')
    rep.ob('verbose-report', mod, t2p, 'every class of every type starts with an empty list', bool(init),
           '' if init else 'some class cannot be reported as missing', engine='flow')
    miss = pattern.find(t2p, 'len(_N_v) == 0', 'expr')
    dup = [b for b in pattern.find(t2p, 'len(_N_v) > 1', 'expr')]
    okd = False
    for b in dup:
        par = getattr(b['_node'], '_parent', None)
        if isinstance(par, ast.If) and any(pattern.has(s_, '_N_d.append(_N_v)', _N_v=b['_N_v']) for s_ in par.body):
            okd = True
    rep.ob('verbose-report', mod, t2p, 'classes without data are reported missing', bool(miss), '' if miss else 'missing classes are not reported',
           engine='flow')
    rep.ob('verbose-report', mod, t2p, 'classes given more than once are reported as duplicates', okd,
           '' if okd else 'duplicates are not reported under `more than one tag of the class`', engine='flow')
    # ---- templates
    _templates(model, rep, mod, ci, gen)
    # positions printed in the tags: conversions apply the lattice matrices from the left (row-stacked vectors times a matrix
    # apply its transpose, which differs for every non-cubic cell)
    from ._common import rotations_from_left
    rotations_from_left(model, rep, [('OnsagerCalc', 'Interstitial.generatetags'), ('OnsagerCalc', 'VacancyMediated.generatetags')],
                        min_instances=0)
    # ---- stale loop variables
    for name in ('generatetags', 'tags2preene', 'loadhdf5'):
        fn = ci.methods[name]
        hits = list(flow.stale_loop_variables(fn))
        rep.ob('no-stale-loop-variable', mod, fn, 'VacancyMediated.%s' % name, not hits,
               '' if not hits else '%s read inside a later loop: every tag gets the value left over from a finished loop'
               % sorted({h[1] for h in hits}), engine='flow', qual='VacancyMediated.' + name)
    ii = model.cls('OnsagerCalc', 'Interstitial')
    ig = ii.methods.get('generatetags')
    if ig is None:
        raise AnalysisError('anchor vanished: Interstitial.generatetags')
    ikeys = [n.targets[0].slice.value for n in walk_local(ig) if isinstance(n, ast.Assign) and isinstance(n.targets[0], ast.Subscript)
             and unparse(n.targets[0].value) == 'tags' and isinstance(n.targets[0].slice, ast.Constant)]
    used = set()
    for m in ('__str__', 'makesupercells'):
        for n in ast.walk(ii.methods[m]):
            if isinstance(n, ast.Subscript) and unparse(n.value) == 'self.tags' and isinstance(n.slice, ast.Constant):
                used.add(n.slice.value)
            if isinstance(n, ast.For) and isinstance(n.iter, ast.Tuple) and any(unparse(x.value) == 'self.tags' for x in ast.walk(n) if isinstance(x, ast.Subscript)):
                used |= {e.value for e in n.iter.elts if isinstance(e, ast.Constant)}
    ok = set(ikeys) == used and len(ikeys) == 2
    rep.ob('tag-type-tables', mod, ig, 'Interstitial.generatetags writes %s ; __str__/makesupercells read %s' % (ikeys, sorted(used)), ok,
           '' if ok else 'interstitial tag types differ between generator and consumers', engine='tables')
    rep.ob('no-stale-loop-variable', mod, ig, 'Interstitial.generatetags', not list(flow.stale_loop_variables(ig)), engine='flow')
    # tagdict fill shape in both generators and the loader
    for cname, fn in (('VacancyMediated', gt), ('Interstitial', ig)):
        ok = pattern.has(fn, 'for _N_tt, _N_tl in _N_tags.items():\n    for _N_i, _N_ts in enumerate(_N_tl):\n        for _N_t in _N_ts:\n'
                             '            if _N_t in _N_td:\n                raise ValueError(_E_msg)\n'
                             '            _N_td[_N_t] = _N_i\n            _N_tdt[_N_t] = _N_tt')
        rep.ob('tag-type-tables', mod, fn, '%s.generatetags: tagdict[tag], tagdicttype[tag] = i, tagtype under the three nested loops' % cname,
               ok, '' if ok else 'tag -> (class index, type) dictionaries are not filled from the loops that enumerate the tags',
               engine='flow')
    # VacancyMediated.__str__ prints every type
    st = ci.methods['__str__']
    printed = []
    for n in walk_local(st):
        if isinstance(n, ast.For) and isinstance(n.iter, ast.Tuple):
            printed += [e.value for e in n.iter.elts if isinstance(e, ast.Constant)]
    ok = printed == list(taglist)
    rep.ob('tag-type-tables', mod, st, '__str__ prints %s' % printed, ok, '' if ok else 'a tag type is not listed for the user', engine='tables')


def _has_stmt(fn, frag):
    """some statement of fn unparses to text starting with / containing frag (whitespace-normalised)."""
    norm = lambda s: re.sub(r'\s+', ' ', s)
    f = norm(frag)
    for n in ast.walk(fn):
        if isinstance(n, ast.stmt) and f in norm(unparse(n)):
            return True
    return False


def _templates(model, rep, mod, ci, gen):
    consts = {k: v.value for k, v in mod.constants.items() if isinstance(v, ast.Constant) and isinstance(v.value, str)}
    need = ['INTERSTITIAL_TAG', 'TRANSITION_TAG', 'SOLUTE_TAG', 'VACANCY_TAG', 'SINGLE_DEFECT_TAG_3D', 'SINGLE_DEFECT_TAG_2D',
            'DOUBLE_DEFECT_TAG', 'OM0_TAG', 'OM1_TAG', 'OM2_TAG']
    for k in need:
        if k not in consts:
            raise AnalysisError('anchor vanished: tag template constant %s' % k)
    gt = ci.methods['generatetags']
    helpers = {n.name: n for n in gt.body if isinstance(n, ast.FunctionDef)}

    def ev(e, env):
        """symbolic template of expression e: numbers -> '#'."""
        if isinstance(e, ast.Constant) and isinstance(e.value, str):
            return e.value
        if isinstance(e, ast.Name):
            if e.id in env:
                return env[e.id]
            if e.id in consts:
                return consts[e.id]
            return '#'
        if isinstance(e, ast.IfExp):
            return ev(e.body, env)  # the 3D variant; the 2D one is compared separately
        if isinstance(e, ast.Call):
            if isinstance(e.func, ast.Attribute) and e.func.attr == 'format':
                tmpl = ev(e.func.value, env)
                kw = {k.arg: ev(k.value, env) for k in e.keywords if k.arg}
                out = re.sub(r'\{(\w+)(\[[^\]]*\])?(:[^}]*)?\}', lambda m: kw.get(m.group(1), '#') if m.group(2) is None and m.group(3) is None
                             else '#', tmpl)
                return out
            if isinstance(e.func, ast.Name) and e.func.id in helpers:
                h = helpers[e.func.id]
                params = [a.arg for a in h.args.args]
                sub = dict(env)
                for p, a in zip(params, e.args):
                    sub[p] = ev(a, env)
                # locals of the helper bound to a template (tag = format_single(...)) are written out; a helper with several
                # returns (early return, memo hit / miss) is a template only if all resolved returns agree
                for a in ast.walk(h):
                    if isinstance(a, ast.Assign) and isinstance(a.targets[0], ast.Name) and a.targets[0].id not in sub:
                        v = ev(a.value, sub)
                        if re.search(r'[A-Za-z][A-Za-z0-9]*:|[\^\-]', v) and v != '#':
                            sub.setdefault(a.targets[0].id, v)
                vals = {ev(n.value, sub) for n in ast.walk(h) if isinstance(n, ast.Return) and n.value is not None}
                vals.discard('#')
                return vals.pop() if len(vals) == 1 else '#'
        return '#'

    markers = {}
    for ttype, node in gen.items():
        elt = node.value.elt
        while isinstance(elt, ast.ListComp):
            elt = elt.elt
        t = ev(elt, {})
        markers[ttype] = (tuple(sorted(re.findall(r'[A-Za-z][A-Za-z0-9]*:', t))), t)
    seen = {}
    for ttype, (mk, t) in markers.items():
        if not mk:
            rep.undecided("generatetags: the literal template of the %s tags could not be written out ('%s')" % (ttype, t))
            continue
        dup = seen.get(mk)
        rep.ob('template-disjoint', mod, gen[ttype], "%s tags look like '%s' (markers %s)" % (ttype, t, list(mk)), dup is None and bool(mk),
               '' if dup is None and mk else 'same literal markers as type %s: a tag of one type can equal a tag of the other' % dup,
               engine='tables')
        seen.setdefault(mk, ttype)
    # numeric format cannot produce marker characters
    for k in ('SINGLE_DEFECT_TAG_3D', 'SINGLE_DEFECT_TAG_2D'):
        specs = re.findall(r'\{u\[\d\](:[^}]*)\}', consts[k])
        ok = bool(specs) and all(re.fullmatch(r':[+\-0-9.]*[fde]', s) for s in specs)
        rep.ob('template-disjoint', mod, mod.tree, '%s numeric fields %s print digits, sign and point only' % (k, specs), ok,
               '' if ok else 'coordinates may print letters or colons', engine='tables')
    p3 = re.sub(r'\{u\[\d\][^}]*\}', '#', consts['SINGLE_DEFECT_TAG_3D'])
    p2 = re.sub(r'\{u\[\d\][^}]*\}', '#', consts['SINGLE_DEFECT_TAG_2D'])
    ok = p3.startswith('{type}:') and p2.startswith('{type}:') and p3.count('#') == 3 and p2.count('#') == 2
    rep.ob('template-disjoint', mod, mod.tree, '2D/3D single-defect templates: %s / %s' % (p2, p3), ok,
           '' if ok else 'the 2D and 3D templates do not share the {type}: prefix with one field per dimension', engine='tables')
    ok = len({consts['INTERSTITIAL_TAG'], consts['SOLUTE_TAG'], consts['VACANCY_TAG']}) == 3
    rep.ob('template-disjoint', mod, mod.tree, 'defect type letters distinct: %s' % [consts[k] for k in ('INTERSTITIAL_TAG', 'SOLUTE_TAG', 'VACANCY_TAG')],
           ok, '' if ok else 'two defect types share a letter', engine='tables')


OC = 'onsager/OnsagerCalc.py'
BREAKERS = [
    (OC, "                                            ('omega2', 'preT2', 'eneT2')):", "                                            ('omega2', 'preT1', 'eneT1')):", None),
    (OC, "thermodict = {'preV': np.ones(N), 'eneV': np.zeros(N),", "thermodict = {'preV': np.ones(N), 'eneV': np.ones(N),", 'neutral-defaults'),
    (OC, "('solute-vacancy', 'preSV', 'eneSV'),\n                                            ('omega0', 'preT0', 'eneT0')):",
     "('solute-vacancy', 'preSV', 'eneS'),\n                                            ('omega0', 'preT0', 'eneT0')):", 'tag-type-tables'),
    (OC, "'preSV': np.ones(Nst), 'eneSV': np.zeros(Nst),", "'preSV': np.ones(N), 'eneSV': np.zeros(N),", 'row-array-size'),
    (OC, "SOLUTE_TAG = 's'", "SOLUTE_TAG = 'v'", 'template-disjoint'),
    (OC, "                        thermodict[prename][i], thermodict[enename][i] = usertagdict[t]\n                        break\n        if not VERBOSE",
     "                        thermodict[prename][i], thermodict[enename][i] = usertagdict[t]\n        if not VERBOSE", 'override-shape'),
    (OC, "            elif len(v) > 1:\n                duplicatelist.append(v)", "            elif len(v) > 2:\n                duplicatelist.append(v)", 'verbose-report'),
]
NEUTRALS = []
