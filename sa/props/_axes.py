"""shared driver: run the index-family engine (sa/engines/axes.py) over a list of methods and record its obligations."""
from ..engines import axes
from . import _axes_schema as S

RULES = {
    'axis-subscript': 'A[i] / A[i, j] / A.pop(i): the family the index ranges over is the family of the axis it indexes',
    'axis-compare': '==, !=, <, in: both operands range over the same index family',
    'axis-elementwise': 'a + b, a * b, a += b on arrays: broadcast-aligned axes range over the same family',
    'axis-contract': 'np.dot(a, b) contracts two axes of the same family',
    'axis-zip': 'zip(a, b, ...) pairs sequences over the same family',
    'axis-arith': 'index arithmetic i + n / i - n / range(a, b) stays within one family',
    'axis-schema': 'values stored in attributes, passed as arguments, returned or appended agree with the frozen family table',
}


def run_axes(model, rep, methods, floor_name, floor, functions=()):
    for r, t in RULES.items():
        rep.rule(r, t)
    eng = axes.Engine(model, S.schema())
    interps = {}
    for modname, cls, meth in methods:
        interps[(cls, meth)] = eng.run_method(modname, cls, meth)
    for modname, fn in functions:
        interps[(None, fn)] = eng.run_function(modname, fn)
    per = eng.emit(rep)
    total = sum(per.values())
    rep.count('index-family obligations decided', total)
    rep.count('functions typed', len(interps))
    rep.floor(floor_name, total, floor)
    return eng, interps, per


def check_returned_dict(rep, model, interp, modname, want, what):
    """every dictionary literal returned by the function carries, under each key of ``want``, an array over the family
    the consumer of that key expects (rule axis-schema)."""
    mod = model.mod(modname)
    n = 0
    for ent in interp.returns:
        for key, fam in want.items():
            if key not in ent['keys']:
                continue
            node, t = ent['keys'][key]
            d = axes.Seq(fam, axes.NUM)
            cl = axes.compat(d, t)
            if cl:
                rep.ob('axis-schema', mod, node, "%s returns {'%s': %s}" % (what, key, axes.unparse(node)), False,
                       "the array returned under '%s' ranges over another family: %s (built %s)" % (key, '; '.join(cl), axes.show(t)),
                       engine='axes', qual=interp.qual)
            elif axes.overlap_known(d, t):
                rep.ob('axis-schema', mod, node, "%s returns {'%s': %s}" % (what, key, axes.unparse(node)), True, engine='axes', qual=interp.qual)
                n += 1
    return n
