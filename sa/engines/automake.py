"""
E16 ``automake`` -- automator-specific agreement rules: format-string layouts, Makefile rule <-> written file pairing,
and the line layout that the bundled Perl script reads (the only textual rule: a lexical extraction of $trans[k]).
"""
import ast
import re
import string

from ..model import AnalysisError, unparse, walk_local


def format_fields(s):
    return [f for _, f, _, _ in string.Formatter().parse(s) if f]


def map2string_layout(fn):
    """line number -> set of root field names printed on that line, for the constant template of map2string
    (line 0 is whatever precedes the template: the tag)."""
    tmpl = None
    for n in walk_local(fn):
        if isinstance(n, ast.Call) and isinstance(n.func, ast.Attribute) and n.func.attr == 'format' \
                and isinstance(n.func.value, ast.Constant) and isinstance(n.func.value.value, str) \
                and '\n' in n.func.value.value:
            tmpl = n
    if tmpl is None:
        raise AnalysisError('map2string: format template not found')
    text = tmpl.func.value.value
    lines = text.split('\n')
    layout = {}
    for i, l in enumerate(lines):
        roots = sorted({re.split(r'[\[.]', f)[0] for f in format_fields(l)})
        idx = sorted({f for f in format_fields(l)})
        if roots:
            layout[i] = (roots, idx)
    kw = {k.arg: unparse(k.value) for k in tmpl.keywords}
    return layout, kw, tmpl


def perl_reads(src):
    """{perl array name: [line indices of $trans[...] it is built from]} by lexical extraction."""
    out = {}
    for m in re.finditer(r'@(\w+)\s*=\s*([^;]*);', src):
        idx = [int(k) for k in re.findall(r'\$trans\[(\d+)\]', m.group(2))]
        if idx:
            out[m.group(1)] = idx
    return out
