"""
C23 -- coordinate conversions and symmetry actions are mutually consistent (structural clauses).

Decides:
  * coordkind: in the conversion and symmetry-action routines every operator is applied to a vector of the kind
    it is defined on (lattice matrix: unit->Cartesian; inverse lattice: Cartesian->unit; g.rot on lattice/unit
    vectors; g.cartrot on Cartesian vectors; g.trans is a unit-cell vector), both sides of every +/- have the same
    kind, values passed to / returned from the provided routes have the documented kind, and the fields of
    constructed PairState / ClusterSite / GroupOp objects receive the kind they are documented to hold;
  * operator side: a rotation that multiplies a vector/tensor anywhere in the package is the left factor (or transposed on
    the right): ``np.dot(v, R)`` is the inverse operation;
  * resolve: every provided route resolves and is called with a compatible argument list;
  * the routines are dimension-generic.
Parameter kinds come from a frozen table taken from the docstrings.  Not decided: numerical round trips.
"""
import ast

from ..model import AnalysisError, dotted, unparse, walk_local
from ..engines import coordkind
from ._common import dim_generic, names_and_calls_resolve, groupop_composition_order, rotations_from_left

# (module, qualified function, {param: kind}, declared return kind or None)
TABLE = [
    ('crystal', 'Crystal.pos2cart', {'lattvec': 'latt'}, 'cart'),
    ('crystal', 'Crystal.unit2cart', {'lattvec': 'latt', 'uvec': 'unit'}, 'cart'),
    ('crystal', 'Crystal.cart2unit', {'v': 'cart'}, ('latt', 'unit')),
    ('crystal', 'Crystal.cart2pos', {'v': 'cart'}, None),
    ('crystal', 'Crystal.g_direc', {'direc': 'cart'}, 'cart'),
    ('crystal', 'Crystal.g_tensor', {'tensor': 'cart'}, 'cart'),
    ('crystal', 'Crystal.g_pos', {'lattvec': 'latt'}, None),
    ('crystal', 'Crystal.g_vect', {'lattvec': 'latt', 'uvec': 'unit'}, ('latt', 'unit')),
    ('crystal', 'Crystal.g_cart', {'x': 'cart'}, 'cart'),
    ('crystal', 'Crystal.Wyckoffpos', {'uvec': 'unit'}, None),
    ('crystal', 'GroupOp.__mul__', {}, None),
    ('crystal', 'GroupOp.inv', {}, None),
    ('crystal', 'GroupOp.__add__', {'other': 'latt'}, None),
    ('crystal', 'GroupOp.incell', {}, None),
    ('crystal', 'GroupOp.inhalf', {}, None),
    ('crystalStars', 'PairState.fromcrys', {'dx': 'cart'}, None),
    ('crystalStars', 'PairState.fromcrys_latt', {'R': 'latt'}, None),
    ('crystalStars', 'PairState.__sane__', {}, None),
    ('crystalStars', 'PairState.g', {}, None),
    ('crystalStars', 'PairState.__neg__', {}, None),
    ('crystalStars', 'PairState.__add__', {}, None),
    ('crystalStars', 'PairState.__xor__', {}, None),
    ('cluster', 'ClusterSite.g', {}, None),
    ('cluster', 'ClusterSite.fromcryscart', {'cart_pos': 'cart'}, None),
    ('cluster', 'ClusterSite.fromcrysunit', {'unit_pos': 'unit'}, None),
    ('cluster', 'ClusterSite.__neg__', {}, None),
]
FIELDS = {  # documented kinds of value-type fields
    'GroupOp': {'rot': 'op:latt', 'trans': 'unit', 'cartrot': 'op:cart'},
    'PairState': {'R': 'latt', 'dx': 'cart'},
    'ClusterSite': {'R': 'latt'},
}
ROUTES = [('crystal', 'Crystal.pos2cart'), ('crystal', 'Crystal.unit2cart'), ('crystal', 'Crystal.cart2unit'),
          ('crystal', 'Crystal.cart2pos'), ('crystal', 'Crystal.g_direc'), ('crystal', 'Crystal.g_tensor'),
          ('crystal', 'Crystal.g_pos'), ('crystal', 'Crystal.g_vect'), ('crystal', 'Crystal.g_cart'),
          ('crystal', 'Crystal.g_direc_equivalent'), ('crystal', 'Crystal.Wyckoffpos'),
          ('crystal', 'GroupOp.'), ('crystalStars', 'PairState.'), ('cluster', 'ClusterSite.')]


def _cell_split(model, rep):
    """A position is handed out as (lattice vector, in-cell part).  ``incell`` decides the cell with its own tolerance
    (``floor(v + 1e-8)``: a coordinate of -1e-16 belongs to the cell it is the corner of), so the lattice vector has to be the
    remainder with respect to *that* in-cell value -- ``round(x - incell(x))``, ``(x - incell(x)).astype(int)`` -- and not an
    independent ``floor(x)`` / ``round(x)``, which disagrees with ``incell`` by a whole lattice vector exactly for coordinates
    within rounding noise of a cell face.  Located: every return of a pair whose second element is ``incell(x)``; verified:
    the first element contains ``x - incell(x)``."""
    from ._common import resolve_local
    rep.rule('cell-split-consistent', 'the lattice vector returned next to incell(x) is the remainder x - incell(x), not an independent floor')
    n = 0
    mod = model.mod('crystal')
    for q, fn in mod.functions.items():
        for r in walk_local(fn):
            if not (isinstance(r, ast.Return) and isinstance(r.value, ast.Tuple) and len(r.value.elts) == 2):
                continue
            b = resolve_local(fn, r.value.elts[1])
            if not (isinstance(b, ast.Call) and unparse(b.func) == 'incell' and len(b.args) == 1):
                continue
            x = unparse(b.args[0])
            a = unparse(resolve_local(fn, r.value.elts[0]))
            n += 1
            if x not in a:
                rep.undecided('%s: the lattice part %s returned next to incell(%s) does not mention %s' % (q, a[:50], x[:30], x[:30]))
                continue
            ok = ('%s - incell(%s)' % (x, x)) in a
            rep.ob('cell-split-consistent', mod, r, '%s returns (%s, incell(%s))' % (q, a[:70], x[:40]), ok,
                   '' if ok else 'the lattice vector is computed from %s without reference to the in-cell value returned with it: for a '
                   'coordinate within rounding noise below an integer, incell (tolerance 1e-8) keeps it in the upper cell while an '
                   'independent floor / round puts the lattice vector one cell lower -- the pair names a point a lattice vector away'
                   % x[:40], engine='siblings', qual=q)
    rep.floor('(lattice vector, in-cell) returns', n, 2)


def run(model, rep, tier):
    rep.explanation = __doc__.strip()
    from ._common import caches_for
    caches_for(model, rep, 'C23')
    rep.not_decided = 'numerical round-trip accuracy; that every route gives the same numbers'
    rep.rule('operator-domain', 'an operator is applied only to vectors of its domain kind; +/- combine equal kinds')
    rep.rule('return-kind', 'the value returned has the documented kind')
    rep.rule('field-kind', 'constructed value objects receive fields of the documented kind')
    _cell_split(model, rep)
    nchecked = 0
    for mname, q, params, ret in TABLE:
        mod = model.mod(mname)
        fn = model.func(mname, q)
        cname = q.split('.')[0]
        fields = {}
        for who in ('self', 'other'):
            for f, k in FIELDS.get(cname, {}).items():
                fields['%s.%s' % (who, f)] = k
        for f, k in FIELDS['GroupOp'].items():
            fields['g.%s' % f] = k
        ty, rets = coordkind.type_function(fn, params, fields=fields)
        # constructor calls in returns
        for r, _ in rets:
            _ctor_fields(model, rep, mod, q, ty, r.value)
        for node, msg in ty.problems:
            rep.ob('operator-domain', mod, node, '%s: %s' % (q, unparse(node)[:90]), False, msg, engine='coordkind', qual=q)
        bad_nodes = {id(n) for n, _ in ty.problems}
        for node, txt in ty.checked:
            if id(node) in bad_nodes:
                continue
            nchecked += 1
            rep.ob('operator-domain', mod, node, '%s: %s  [%s]' % (q, unparse(node)[:70], txt), True, engine='coordkind', qual=q)
        if ret is not None:
            for r, k in rets:
                if k is None or (isinstance(k, tuple) and all(x is None for x in k)):
                    continue
                ok = _compatible(k, ret)
                rep.ob('return-kind', mod, r, '%s returns %s, documented %s' % (q, k, ret), ok,
                       '' if ok else 'the returned value is of another coordinate kind than documented', engine='coordkind', qual=q)
    rep.floor('operator applications / sums decided', nchecked, 30)
    groupop_composition_order(model, rep)
    rotations_from_left(model, rep, [(m, '') for m in ('crystal', 'crystalStars', 'cluster', 'supercell', 'OnsagerCalc', 'GFcalc')],
                        min_instances=15)
    names_and_calls_resolve(model, rep, ROUTES)
    dim_generic(model, rep, [(m, q) for m, q in ROUTES], min_functions=40)


def _compatible(k, want):
    if isinstance(want, tuple):
        return isinstance(k, tuple) and len(k) == len(want) and all(_compatible(a, b) for a, b in zip(k, want))
    if want is None or k is None:
        return True
    return k == want or k == 'zero' or (want == 'unit' and k == 'latt')


def _ctor_fields(model, rep, mod, q, ty, value):
    """check keyword/positional fields of cls(...) / self.__class__(...) / GroupOp(...) constructions."""
    for c in ast.walk(value):
        if not isinstance(c, ast.Call):
            continue
        f = unparse(c.func)
        cname = None
        if f in ('cls', 'self.__class__'):
            cname = q.split('.')[0]
        elif f in FIELDS:
            cname = f
        if cname not in FIELDS:
            continue
        ci = model.resolve_class(mod, cname)
        order = ci.namedtuple_fields if ci is not None and ci.namedtuple_fields else []
        given = {}
        for name, a in zip(order, c.args):
            given[name] = a
        for k in c.keywords:
            if k.arg:
                given[k.arg] = k.value
        for name, want in FIELDS[cname].items():
            if name not in given:
                continue
            k = ty.kind(given[name])
            if k is None or isinstance(k, tuple):
                continue
            ok = _compatible(k, want)
            rep.ob('field-kind', mod, given[name], '%s: %s.%s <- %s [%s]' % (q, cname, name, unparse(given[name])[:60], k), ok,
                   '' if ok else 'field %s of %s is documented as %s but receives a %s quantity' % (name, cname, want, k),
                   engine='coordkind', qual=q)


BREAKERS = [
    ('onsager/crystal.py', "return np.dot(g.cartrot, x) + np.dot(self.lattice, g.trans)", "return np.dot(g.cartrot, x) + g.trans", 'operator-domain'),
    ('onsager/crystal.py', "rotlatt = np.dot(g.rot, lattvec)\n        rotind", "rotlatt = np.dot(g.cartrot, lattvec)\n        rotind", 'operator-domain'),
    ('onsager/crystal.py', "u = np.dot(self.invlatt, v)\n        ucell", "u = np.dot(self.lattice, v)\n        ucell", 'operator-domain'),
    ('onsager/crystalStars.py', "gdx = crys.g_direc(g, self.dx)", "gdx = crys.g_direc(g, self.R)", 'operator-domain'),
    ('onsager/crystalStars.py', "dx=np.dot(crys.lattice, R + crys.basis[chem][ij[1]] - crys.basis[chem][ij[0]]))", "dx=R + crys.basis[chem][ij[1]] - crys.basis[chem][ij[0]])", 'field-kind'),
    ('onsager/cluster.py', "return cls.fromcryscart(crys, cart_pos)", "return cls.fromcryscart(cart_pos)", 'resolves'),
    ('onsager/cluster.py', "cart_pos = crys.unit2cart(np.zeros(crys.dim, dtype=int), unit_pos)", "cart_pos = crys.unit2cart(unit_pos, np.zeros(crys.dim, dtype=int))", None),
]
BREAKERS.append(('onsager/crystal.py', "rotlatt = np.dot(g.rot, lattvec)\n        rotind", "rotlatt = np.dot(lattvec, g.rot)\n        rotind", 'operator-side'))
NEUTRALS = [
    ('onsager/crystal.py', "return np.dot(self.lattice, lattvec + uvec)", "return np.dot(self.lattice, uvec + lattvec)"),
    ('onsager/crystal.py', "return np.dot(g.cartrot, x) + np.dot(self.lattice, g.trans)", "return np.dot(self.lattice, g.trans) + np.dot(g.cartrot, x)"),
]
