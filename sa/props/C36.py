"""
C36 -- value types obey equality, hashing and arithmetic laws (structural clauses).

Decides, from the shape of the five value types' special methods:
  * ``__eq__`` opens with the isinstance guard and compares the *same* field of both operands;
  * every namedtuple field takes part in ``__eq__`` (frozen exemption: PairState.dx, which the
    docstring declares redundant given i, j, R);
  * ``__ne__`` is absent or exactly the negation of ``self.__eq__(other)``, and every name in it resolves;
  * a class defining ``__eq__`` defines ``__hash__``;
  * ``__hash__`` reads only fields that ``__eq__`` compares *exactly*;
  * fields compared with a tolerance make ``==`` non-transitive (reported; inherent in the design
    of GroupOp / vacancyThermoKinetics -> known findings);
  * Cluster: the cached hash is a commutative fold (xor from 0) over exactly the (key, shifted
    position) pairs stored in the map that ``__eq__`` compares;
  * PairState ``__neg__/__add__/__sub__/__xor__`` build their result from the documented field
    expressions (compared as linear forms) and keep their endpoint guards.
Not decided: that these operations commute with group operations (numerical).
"""
import ast

from ..model import AnalysisError, dotted, unparse, walk_local
from ..engines import eqhash, resolve
from ..engines.linform import linform, lin_str

TYPES = [  # (module, class, eq-exempt fields with reason)
    ('crystal', 'GroupOp', {}),
    ('crystalStars', 'PairState', {'dx': 'docstring: dx is determined by (i, j, R) for a given crystal'}),
    ('cluster', 'ClusterSite', {}),
    ('cluster', 'Cluster', {}),
    ('OnsagerCalc', 'vacancyThermoKinetics', {}),
]

ARITH = {  # documented identities of PairState (docstrings of __neg__/__add__/__xor__)
    '__neg__': {'i': 'self.j', 'j': 'self.i', 'R': '-self.R', 'dx': '-self.dx'},
    '__add__': {'i': 'self.i', 'j': 'other.j', 'R': 'self.R + other.R', 'dx': 'self.dx + other.dx'},
    '__xor__': {'i': 'other.j', 'j': 'self.j', 'R': 'self.R - other.R', 'dx': 'self.dx - other.dx'},
}
GUARDS = {'__add__': ('self.j', 'other.i'), '__xor__': ('self.i', 'other.i')}


def run(model, rep, tier):
    rep.explanation = __doc__.strip()
    rep.not_decided = 'commutation of the arithmetic with symmetry operations; behaviour of == on non-finite floats'
    rep.rule('eq-isinstance-guard', '__eq__ starts by testing isinstance(other, <own class>)')
    rep.rule('eq-same-field', 'every comparison in __eq__ relates the same field of self and other')
    rep.rule('eq-covers-fields', 'every namedtuple field is compared by __eq__ (frozen exemptions listed)')
    rep.rule('ne-negates-eq', '__ne__ is absent or `return not self.__eq__(other)`')
    rep.rule('names-resolve', 'every name used in __eq__/__ne__/__hash__/arithmetic resolves (symtable)')
    rep.rule('eq-implies-hash', 'a class that defines __eq__ defines __hash__')
    rep.rule('hash-subset-exact-eq', 'fields read by __hash__ are compared exactly (==) by __eq__')
    rep.rule('hash-by-value', 'a field compared by value is hashed by value (or through a fixed dtype), not through its memory representation')
    rep.rule('tolerance-eq-nontransitive', 'fields compared by np.allclose/isclose make == non-transitive')
    rep.rule('cluster-hash-fold', 'Cluster hash cache = xor-fold from 0 over hash(key + shifted position) of the '
                                  'very pairs inserted in the map __eq__ compares')
    rep.rule('arith-identity', 'PairState arithmetic result fields equal the documented linear forms')
    rep.rule('arith-guard', 'PairState __add__/__xor__ raise on mismatched endpoints')
    n_types = 0
    for mname, cname, exempt in TYPES:
        mod = model.mod(mname)
        ci = model.cls(mname, cname)
        n_types += 1
        eq = ci.methods.get('__eq__')
        if eq is None:
            raise AnalysisError('anchor vanished: %s.%s.__eq__' % (mname, cname))
        info = eqhash.analyse_eq(eq)
        if info.unrecognised:
            # a comparison of two *different* fields is a definite violation; anything else is undecidable
            mism = [u for u in info.unrecognised if _is_field_mismatch(u)]
            for u in mism:
                rep.ob('eq-same-field', mod, eq, u, False, 'does not compare the same field of self and of other (different '
                                                          'fields, or one operand with itself): values that differ in this '
                                                          'field compare equal, or equality is not symmetric', engine='eqhash')
            rest = [u for u in info.unrecognised if u not in mism]
            if rest:
                raise AnalysisError('%s.%s.__eq__: comparison not recognised: %s' % (mname, cname, '; '.join(rest)))
        for f, c in list(info.exact.items()) + list(info.tolerance.items()):
            rep.ob('eq-same-field', mod, eq, c, True, engine='eqhash')
        rep.ob('eq-isinstance-guard', mod, eq, '%s.__eq__' % cname, info.isinstance_guard,
               '' if info.isinstance_guard else '__eq__ does not start with an isinstance guard: comparing with a '
                                                'foreign object raises or gives an asymmetric answer', engine='eqhash')
        compared = set(info.exact) | set(info.tolerance)
        fields = None
        for c in model.mro(ci):
            if c.namedtuple_fields is not None:
                fields = c.namedtuple_fields
        if fields is not None:
            for f in fields:
                if f in exempt:
                    rep.note('%s.%s.%s exempt from __eq__: %s' % (mname, cname, f, exempt[f]))
                    continue
                rep.ob('eq-covers-fields', mod, eq, '%s.%s' % (cname, f), f in compared,
                       '' if f in compared else 'field %s does not take part in __eq__: distinct values compare equal' % f,
                       engine='eqhash')
        # __ne__
        ne = ci.methods.get('__ne__')
        if ne is not None:
            shape = eqhash.ne_shape(ne)
            rep.ob('ne-negates-eq', mod, ne, unparse(ne.body[-1]), shape == 'neg-eq',
                   '' if shape == 'neg-eq' else '__ne__ is not the negation of __eq__ (%s)' % shape, engine='eqhash')
        else:
            # Python derives != from __eq__ only when no base class supplies its own __ne__: tuple (hence every namedtuple)
            # does, and compares the fields element by element
            tuple_base = ci.namedtuple_fields is not None or any(unparse(b) in ('tuple', 'list', 'dict', 'set', 'frozenset', 'str')
                                                                  for b in ci.node.bases)
            inherited = None
            for c in model.mro(ci)[1:]:
                if '__ne__' in c.methods:
                    inherited = c.name
            ok = not tuple_base and inherited is None
            rep.ob('ne-negates-eq', mod, ci.node, '%s has no __ne__ of its own' % cname, ok,
                   '' if ok else 'the class overrides __eq__ but inherits __ne__ from %s: `a != b` is evaluated by the base class '
                   '(field-by-field tuple comparison), not as the negation of __eq__' % (inherited or 'tuple (namedtuple base)'),
                   nontrivial=not ok, engine='eqhash')
        # names
        special = [m for m in ('__eq__', '__ne__', '__hash__', '__neg__', '__add__', '__sub__', '__xor__', '__radd__')
                   if m in ci.methods]
        bad = {(q, n) for q, n, l in resolve.undefined_names(mod, lambda q: q.startswith(cname + '.'))}
        for m in special:
            und = sorted(n for q, n in bad if q == '%s.%s' % (cname, m))
            rep.ob('names-resolve', mod, ci.methods[m], '%s.%s' % (cname, m), not und,
                   '' if not und else 'name(s) %s do not resolve at run time (NameError when called)' % ', '.join(und),
                   engine='resolve')
        # hash
        h = ci.methods.get('__hash__')
        rep.ob('eq-implies-hash', mod, ci.node, '%s defines __eq__ and __hash__' % cname, h is not None,
               '' if h is not None else 'defining __eq__ without __hash__ makes instances unhashable', engine='eqhash')
        if h is not None:
            hf = eqhash.hash_fields(h)
            if cname == 'Cluster':
                _cluster_fold(model, rep, mod, ci, info, hf)
            else:
                tol_read = sorted(f for f in hf if f in info.tolerance)
                other = sorted(f for f in hf if f not in info.tolerance and f not in info.exact)
                for f in sorted(hf):
                    if f in info.exact:
                        rep.ob('hash-subset-exact-eq', mod, h, '%s.__hash__ reads %s' % (cname, f), True, engine='eqhash')
                _hash_by_value(rep, mod, ci, cname, h, info)
                if tol_read:
                    rep.ob('hash-subset-exact-eq', mod, h,
                           '%s.__hash__ reads tolerance-compared field(s) %s' % (cname, ', '.join(tol_read)), False,
                           'objects that compare equal (within tolerance) hash differently', engine='eqhash')
                if other:
                    rep.ob('hash-subset-exact-eq', mod, h,
                           '%s.__hash__ reads field(s) %s that __eq__ ignores' % (cname, ', '.join(other)), False,
                           'equal objects can hash differently', engine='eqhash')
        if info.tolerance:
            rep.ob('tolerance-eq-nontransitive', mod, eq,
                   '%s.__eq__ compares %s with a tolerance' % (cname, ', '.join(sorted(info.tolerance))), False,
                   'a==b and b==c do not imply a==c for values spaced by just under the tolerance', engine='eqhash')
        else:
            rep.ob('tolerance-eq-nontransitive', mod, eq, '%s.__eq__ uses exact comparisons only' % cname, True,
                   engine='eqhash')
    rep.floor('value types', n_types, 5)
    _arith(model, rep)
    rep.count('classes', n_types)


REPR_CALLS = ('tobytes', 'tostring', 'data', 'view', 'dumps')
DTYPE_NORMALISERS = ('asarray', 'array', 'ascontiguousarray', 'astype', 'require')


def _hash_by_value(rep, mod, ci, cname, h, info):
    """A field that __eq__ compares by value (``np.all(a == b)``: 1 == 1.0 == np.int32(1)) must be hashed by value as well.
    ``x.tobytes()`` / ``x.data`` hash the memory representation, which differs between dtypes (int32 / int64 / float64) of
    equal values, so equal objects land in different buckets -- unless the bytes are taken of the field converted to one
    fixed dtype, in the hash itself or where the constructor stores the field."""
    s = h.args.args[0].arg
    for n in walk_local(h):
        if not (isinstance(n, ast.Attribute) and n.attr in ('tobytes', 'tostring', 'data')):
            continue
        if n.attr == 'data' and isinstance(getattr(n, '_parent', None), ast.Attribute) and n._parent.attr in ('tobytes', 'tostring'):
            continue  # x.data.tobytes(): reported once, at the outer attribute
        base = n.value
        while isinstance(base, ast.Attribute) and base.attr == 'data':
            base = base.value
        fields = {x.attr for x in ast.walk(base) if isinstance(x, ast.Attribute) and isinstance(x.value, ast.Name) and x.value.id == s}
        fields = {f for f in fields if f in info.exact}
        if not fields:
            continue
        # converted to a fixed dtype inside the hash expression?
        norm = any(isinstance(c, ast.Call) and (dotted(c.func) or '').split('.')[-1] in DTYPE_NORMALISERS
                   and (any(k.arg == 'dtype' for k in c.keywords) or (dotted(c.func) or '').endswith('astype') or len(c.args) >= 2)
                   for c in ast.walk(base))
        # ... or where the constructor stores it
        for ctor in ('__new__', '__init__'):
            fn = ci.methods.get(ctor)
            if fn is None or norm:
                continue
            for f in fields:
                for c in ast.walk(fn):
                    if isinstance(c, ast.Call) and (dotted(c.func) or '').split('.')[-1] in DTYPE_NORMALISERS \
                            and (any(k.arg == 'dtype' for k in c.keywords) or (dotted(c.func) or '').endswith('astype')) \
                            and any(isinstance(x, ast.Name) and x.id == f for x in ast.walk(c)):
                        norm = True
        rep.ob('hash-by-value', mod, n, '%s.__hash__: %s of exactly compared field(s) %s' % (cname, unparse(n._parent if isinstance(getattr(n, '_parent', None), ast.Call) else n)[:60], ', '.join(sorted(fields))),
               norm, '' if norm else '__eq__ compares %s by value but __hash__ uses its memory representation: equal values stored with '
               'different dtypes (int32 / int64 / float64) hash differently, so an object equal to a member of a set or dict is not '
               'found there' % ', '.join(sorted(fields)), engine='eqhash')


def _is_field_mismatch(text):
    try:
        n = ast.parse(text, mode='eval').body
    except SyntaxError:
        return False
    pairs = []
    for c in ast.walk(n):
        if isinstance(c, ast.Compare) and len(c.ops) == 1:
            pairs.append((c.left, c.comparators[0]))
        if isinstance(c, ast.Call) and (dotted(c.func) or '').split('.')[-1] in eqhash.TOL_FUNCS and len(c.args) >= 2:
            pairs.append((c.args[0], c.args[1]))
    for l, r in pairs:
        fl, fr = eqhash._self_other_field(l), eqhash._self_other_field(r)
        if fl and fr and (fl[1] != fr[1] or fl[0] == fr[0]):
            return True  # different fields, or a field compared with itself (self.f vs self.f)
    return False


def _cluster_fold(model, rep, mod, ci, info, hf):
    h = ci.methods['__hash__']
    init = ci.methods.get('__init__')
    if init is None:
        raise AnalysisError('anchor vanished: Cluster.__init__')
    if set(hf) != {'__hashcache__'}:
        # a direct hash: fall back to the generic rule
        bad = sorted(f for f in hf if f not in info.exact)
        rep.ob('cluster-hash-fold', mod, h, 'Cluster.__hash__ reads %s' % ', '.join(sorted(hf)), not bad,
               'reads fields that __eq__ does not compare exactly: %s' % ', '.join(bad), engine='eqhash')
        return
    # locate `self.__hashcache__ = <name>` and the fold over that name
    cache_src = None
    for n in walk_local(init):
        if isinstance(n, ast.Assign) and any(unparse(t) == 'self.__hashcache__' for t in n.targets):
            cache_src = n.value
    if not isinstance(cache_src, ast.Name):
        raise AnalysisError('Cluster.__init__: __hashcache__ is not assigned from a local accumulator')
    acc = cache_src.id
    inits = [n for n in walk_local(init) if isinstance(n, ast.Assign) and any(unparse(t) == acc for t in n.targets)]
    folds = [n for n in walk_local(init) if isinstance(n, ast.AugAssign) and unparse(n.target) == acc]
    ok_init = len(inits) == 1 and isinstance(inits[0].value, ast.Constant) and inits[0].value.value == 0
    rep.ob('cluster-hash-fold', mod, inits[0] if inits else init, '%s = 0 (neutral element of xor)' % acc, ok_init,
           '' if ok_init else 'accumulator does not start from the neutral element', engine='eqhash')
    if len(folds) != 1:
        raise AnalysisError('Cluster.__init__: expected exactly one fold into %s' % acc)
    fold = folds[0]
    comm = isinstance(fold.op, (ast.BitXor, ast.Add, ast.BitOr, ast.BitAnd))
    rep.ob('cluster-hash-fold', mod, fold, unparse(fold), comm,
           '' if comm else 'fold operator is not commutative: hash depends on site order while __eq__ does not',
           engine='eqhash')
    # the folded value must be hash(K + P) where map[K] receives P in the same loop body
    v = fold.value
    kp = None
    if isinstance(v, ast.Call) and dotted(v.func) == 'hash' and len(v.args) == 1 and isinstance(v.args[0], ast.BinOp) \
            and isinstance(v.args[0].op, ast.Add):
        kp = (unparse(v.args[0].left), unparse(v.args[0].right))
    loop = fold
    while loop is not None and not isinstance(loop, ast.For):
        loop = getattr(loop, '_parent', None)
    stored = set()
    # the map may be filled through a local that is the very object stored as self.__equalitymap__
    mapnames = {'self.__equalitymap__'}
    for n in walk_local(init):
        if isinstance(n, ast.Assign) and isinstance(n.value, ast.Name) and any(unparse(t) == 'self.__equalitymap__' for t in n.targets):
            mapnames.add(n.value.id)
        if isinstance(n, ast.Assign) and isinstance(n.targets[0], ast.Name) and unparse(n.value) == 'self.__equalitymap__':
            mapnames.add(n.targets[0].id)
    if loop is not None:
        for n in ast.walk(loop):
            # self.__equalitymap__[K] = set([P])   /   self.__equalitymap__[K].add(P)
            if isinstance(n, ast.Assign) and isinstance(n.targets[0], ast.Subscript) \
                    and unparse(n.targets[0].value) in mapnames:
                val = n.value
                if isinstance(val, ast.Call) and dotted(val.func) == 'set' and val.args \
                        and isinstance(val.args[0], (ast.List, ast.Tuple)) and len(val.args[0].elts) == 1:
                    stored.add((unparse(n.targets[0].slice), unparse(val.args[0].elts[0])))
                elif isinstance(val, ast.Set) and len(val.elts) == 1:
                    stored.add((unparse(n.targets[0].slice), unparse(val.elts[0])))
            if isinstance(n, ast.Call) and isinstance(n.func, ast.Attribute) and n.func.attr == 'add' \
                    and isinstance(n.func.value, ast.Subscript) \
                    and unparse(n.func.value.value) in mapnames and len(n.args) == 1:
                stored.add((unparse(n.func.value.slice), unparse(n.args[0])))
    ok = kp is not None and stored == {kp} and '__equalitymap__' in info.exact
    if kp is None or not stored:
        rep.undecided('Cluster.__init__: the folded hash value / the map insertions were not located (%s / %s)' % (kp, sorted(stored)))
        ok = True
    rep.ob('cluster-hash-fold', mod, fold, 'hash(%s) vs map entries %s' % (kp, sorted(stored)), ok,
           '' if ok else 'the value folded into the hash is not the (key, position) pair stored in the map that __eq__ '
                         'compares: equal clusters can hash differently', engine='eqhash')
    # the position must be translation-normalised: produced by __shift_pos__ (R*Nsites - centre)
    if kp is not None and loop is not None:
        pos_name = kp[1]
        src = [n for n in ast.walk(loop) if isinstance(n, ast.Assign) and unparse(n.targets[0]) == pos_name]
        okp = len(src) == 1 and isinstance(src[0].value, ast.Call) and unparse(src[0].value.func) == 'self.__shift_pos__'
        rep.ob('cluster-hash-fold', mod, src[0] if src else fold, '%s = %s' % (pos_name, unparse(src[0].value) if src else '?'),
               okp, '' if okp else 'position entering hash/equality is not the centre-shifted (translation-invariant) one',
               engine='eqhash')
        sp = ci.methods.get('__shift_pos__')
        if sp is not None:
            ret = [n for n in walk_local(sp) if isinstance(n, ast.Return)]
            arg = sp.args.args[1].arg if len(sp.args.args) > 1 else 'cs'
            okf = False
            txt = unparse(ret[0].value) if ret else '?'
            if len(ret) == 1 and isinstance(ret[0].value, ast.Call) and ret[0].value.args:
                lf = linform(ret[0].value.args[0])
                okf = set(lf) == {'self.__center__', '[%s.R*self.Nsites]' % arg} and lf['self.__center__'] == -1 \
                    and lf['[%s.R*self.Nsites]' % arg] == 1
            rep.ob('cluster-hash-fold', mod, sp, txt, okf,
                   '' if okf else '__shift_pos__ is not R*Nsites - centre: not invariant under a common translation',
                   engine='eqhash')


def _arith(model, rep):
    mod = model.mod('crystalStars')
    ci = model.cls('crystalStars', 'PairState')
    fields = ci.namedtuple_fields
    count = 0
    for meth, table in ARITH.items():
        fn = ci.methods.get(meth)
        if fn is None:
            raise AnalysisError('anchor vanished: PairState.%s' % meth)
        names = [a.arg for a in fn.args.args]
        sigma = {names[0]: 'self'}
        if len(names) > 1:
            sigma[names[1]] = 'other'
        # the constructing return: last Return whose value is a call of self.__class__/cls/PairState
        rets = [n for n in walk_local(fn) if isinstance(n, ast.Return) and isinstance(n.value, ast.Call)
                and (unparse(n.value.func) in ('%s.__class__' % names[0], 'PairState', 'type(%s)' % names[0]))]
        if not rets:
            raise AnalysisError('PairState.%s: constructing return not found' % meth)
        call = rets[-1].value
        got = {}
        for f, a in zip(fields, call.args):
            got[f] = a
        for k in call.keywords:
            got[k.arg] = k.value
        for f, exp in table.items():
            count += 1
            if f not in got:
                rep.ob('arith-identity', mod, call, 'PairState.%s: field %s' % (meth, f), False, 'field not set',
                       engine='linform')
                continue
            from ._common import resolve_local
            a = linform(_subst(resolve_local(fn, got[f]), sigma))     # temporaries written out
            b = linform(ast.parse(exp, mode='eval').body)
            rep.ob('arith-identity', mod, got[f], 'PairState.%s: %s = %s' % (meth, f, unparse(got[f])), a == b,
                   '' if a == b else 'documented identity requires %s = %s, found %s' % (f, exp, lin_str(a)),
                   engine='linform')
        if meth in GUARDS:
            x, y = GUARDS[meth]
            ok = False
            for n in walk_local(fn):
                if isinstance(n, ast.If) and isinstance(n.test, ast.Compare) and len(n.test.ops) == 1 \
                        and isinstance(n.test.ops[0], ast.NotEq):
                    pair = {unparse(_subst(n.test.left, sigma)), unparse(_subst(n.test.comparators[0], sigma))}
                    if pair == {x, y} and any(isinstance(s, ast.Raise) for s in n.body):
                        ok = True
            count += 1
            rep.ob('arith-guard', mod, fn, 'PairState.%s raises unless %s == %s' % (meth, x, y), ok,
                   '' if ok else 'endpoint guard missing: incompatible states are combined silently', engine='eqhash')
    # __sub__ := __add__(-other)
    fn = ci.methods.get('__sub__')
    if fn is None:
        raise AnalysisError('anchor vanished: PairState.__sub__')
    names = [a.arg for a in fn.args.args]
    rets = [n for n in walk_local(fn) if isinstance(n, ast.Return) and not
            (isinstance(n.value, ast.Name) and n.value.id == 'NotImplemented')]
    ok = False
    txt = '?'
    if rets:
        v = rets[-1].value
        txt = unparse(v)
        if isinstance(v, ast.Call) and unparse(v.func) == '%s.__add__' % names[0] and len(v.args) == 1:
            ok = unparse(v.args[0]) == '-%s' % names[1]
        elif isinstance(v, ast.BinOp) and isinstance(v.op, ast.Add):
            ok = unparse(v.left) == names[0] and unparse(v.right) in ('-%s' % names[1], '(-%s)' % names[1])
    count += 1
    rep.ob('arith-identity', mod, fn, 'PairState.__sub__ returns %s' % txt, ok,
           '' if ok else 'documented identity a - b := a + (-b) not recognised', engine='eqhash')
    rep.floor('PairState arithmetic obligations', count, 15)


def _subst(node, sigma):
    from ..engines.linform import rename
    return rename(node, sigma)


BREAKERS = [
    ('onsager/OnsagerCalc.py', "    def __ne__(self, other):\n        return not self.__eq__(other)\n\n    def __hash__(self):\n        return hash(self.pre.data.tobytes()",
     "    def __hash__(self):\n        return hash(self.pre.data.tobytes()", 'ne-negates-eq'),
    ('onsager/crystal.py', "        return not self.__eq__(other)\n\n    def __hash__(self):\n        \"\"\"Hash, so that we can make sets of group operations\"\"\"",
     "        return self.__eq__(other)\n\n    def __hash__(self):\n        \"\"\"Hash, so that we can make sets of group operations\"\"\"", 'ne-negates-eq'),
    ('onsager/crystal.py', "return hash(np.asarray(self.rot, dtype=int).tobytes()) ^ hash(self.indexmap)",
     "return hash(np.asarray(self.rot, dtype=int).tobytes()) ^ hash(tuple(self.trans))", 'hash-subset-exact-eq'),
    ('onsager/crystal.py', "return hash(np.asarray(self.rot, dtype=int).tobytes()) ^ hash(self.indexmap)",
     "return hash(self.rot.data.tobytes()) ^ hash(self.indexmap)", 'hash-by-value'),
    ('onsager/crystalStars.py', "return hash((self.i, self.j) + tuple(self.R))", "return hash((self.i, self.j, self.R.tobytes()))", 'hash-by-value'),
    ('onsager/crystalStars.py', "return hash((self.i, self.j) + tuple(self.R))", "return hash((self.i, self.j) + tuple(self.R) + tuple(self.dx))",
     'hash-subset-exact-eq'),
    ('onsager/crystalStars.py', "(self.i == other.i and self.j == other.j and np.all(self.R == other.R))", "(self.i == other.i and np.all(self.R == other.R))",
     'eq-covers-fields'),
    ('onsager/crystalStars.py', "return self.__class__(i=self.j, j=self.i, R=-self.R, dx=-self.dx)", "return self.__class__(i=self.j, j=self.i, R=-self.R, dx=self.dx)",
     'arith-identity'),
    ('onsager/crystalStars.py', "return self.__class__(i=other.j, j=self.j, R=self.R - other.R, dx=self.dx - other.dx)",
     "return self.__class__(i=other.j, j=self.j, R=other.R - self.R, dx=self.dx - other.dx)", 'arith-identity'),
    ('onsager/cluster.py', "hashcache ^= hash(r + shiftpos)", "hashcache ^= hash(r + tuple(cs.R))", 'cluster-hash-fold'),
    ('onsager/cluster.py', "hashcache ^= hash(r + shiftpos)", "hashcache = 31 * hashcache - hash(r + shiftpos)", None),
    ('onsager/OnsagerCalc.py', "np.allclose(self.preT, other.preT) and np.allclose(self.betaeneT, other.betaeneT)",
     "np.allclose(self.preT, other.preT) and np.allclose(self.betaeneT, self.betaeneT)", None),
]
NEUTRALS = [
    ('onsager/crystalStars.py', "return self.__class__(i=other.j, j=self.j, R=self.R - other.R, dx=self.dx - other.dx)",
     "return self.__class__(i=other.j, j=self.j, R=-other.R + self.R, dx=-(other.dx - self.dx))"),
    ('onsager/cluster.py', "        return not self.__eq__(other)\n\n    def __hash__(self):\n        \"\"\"Hash, so that we can make sets of states\"\"\"\n        # return self.i ^ (self.j << 1) ^ (self.R[0] << 2) ^ (self.R[1] << 3) ^ (self.R[2] << 4)\n        return hash(self.ci",
     "        return not (self == other)\n\n    def __hash__(self):\n        \"\"\"Hash, so that we can make sets of states\"\"\"\n        # return self.i ^ (self.j << 1) ^ (self.R[0] << 2) ^ (self.R[1] << 3) ^ (self.R[2] << 4)\n        return hash(self.ci"),
]
