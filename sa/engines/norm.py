"""
E18 -- behaviour-preserving normal form.  Every rule of the framework reads the repository through this pass, so that
maintenance refactorings that leave behaviour unchanged (introducing or inlining a named temporary, renaming a local,
turning a comprehension into an append loop or back, ``zip(itertools.count(), x)`` vs ``enumerate(x)``, an early
``continue`` vs a nested ``if``, swapping the branches of an ``if`` on the negated condition, mirroring ``a == b``,
splitting a tuple assignment ...) lead to the *same* tree and hence to the same verdict.

Each rewrite is semantics-preserving on its own (conditions stated at the rewrite); nothing is executed.  Line numbers
of the surviving nodes are kept, so reports still point into the file.

Normal form:
  N1  ``a, b = x, y`` (independent)                         ->  ``a = x`` ; ``b = y``
  N2  ``not a == b`` / ``not a is b`` / ``not a in b``       ->  ``a != b`` / ``a is not b`` / ``a not in b``; operands of
      a single ``==`` / ``!=`` in canonical (textual) order
  N3  ``zip(itertools.count(), A, B)`` with target ``i, a, b`` -> ``enumerate(zip(A, B))`` with target ``i, (a, b)``;
      ``zip(itertools.count(), A)`` -> ``enumerate(A)``
  N4  in a loop body: a trailing ``if c: BODY`` (no else)    ->  ``if not c: continue`` ; BODY        (guard form)
      ``if not c: A  else: B``                                ->  ``if c: B  else: A``
  N5  ``x = []`` ... ``for t in it: [guards] x.append(e)``    ->  ``x = [e for t in it if ...]``
  N6  a local assigned exactly once to a side-effect-free expression whose inputs are not modified before its
      uses is substituted into its uses (forward substitution); fresh containers only when used once
  N7  ``for k in d.keys()`` -> ``for k in d``;  ``set([])`` -> ``set()``
  N10 ``if c: A  else: B`` with a single negative comparison ``c`` (``!=``, ``not in``, ``is not``)
                                                              ->  ``if <positive c>: B  else: A``
  N11 ``if c: ...; raise/return/continue/break  else: B``    ->  ``if c: ...; raise/...`` ; B   (else after a terminator)
"""
import ast
from collections import Counter

PURE_BUILTINS = {'len', 'min', 'max', 'abs', 'sum', 'any', 'all', 'tuple', 'sorted', 'int', 'float', 'range', 'enumerate',
                 'zip', 'reversed', 'isinstance', 'getattr', 'hasattr', 'str', 'repr', 'bool', 'round', 'complex', 'divmod',
                 'list', 'set', 'dict', 'frozenset', 'type', 'reduce', 'id'}
ALLOC_BUILTINS = {'list', 'set', 'dict', 'sorted'}
PURE_MODULE_ROOTS = {'np', 'numpy', 'math', 'itertools', 'functools', 'operator', 'collections'}
IMPURE_MODULE_FUNCS = {'np.random', 'numpy.random', 'np.fill_diagonal', 'np.put', 'np.copyto', 'np.save', 'np.savetxt', 'np.seterr'}
ALLOC_MODULE_FUNCS = {'zeros', 'ones', 'empty', 'full', 'array', 'copy', 'zeros_like', 'ones_like', 'empty_like', 'eye', 'arange',
                      'deepcopy', 'asarray', 'identity'}
PURE_METHODS = {'copy', 'get', 'dot', 'format', 'keys', 'items', 'values', 'index', 'astype', 'count', 'join', 'split', 'strip',
                'startswith', 'endswith', 'transpose', 'reshape', 'flatten', 'ravel', 'tolist', 'conj', 'sum', 'min', 'max', 'any', 'all',
                'lower', 'upper', 'replace', 'iszero', 'union', 'intersection', 'difference', 'issubset'}
ALLOC_METHODS = {'copy', 'tolist', 'flatten', 'astype', 'union', 'intersection', 'difference'}
MUTATING_METHODS = {'append', 'extend', 'insert', 'pop', 'remove', 'clear', 'sort', 'reverse', 'add', 'discard', 'update', 'setdefault',
                    'fill', 'resize', 'popitem', '__iadd__', '__setitem__'}

FLIP = {ast.Eq: ast.NotEq, ast.NotEq: ast.Eq, ast.Is: ast.IsNot, ast.IsNot: ast.Is, ast.In: ast.NotIn, ast.NotIn: ast.In}
_SCOPES = (ast.FunctionDef, ast.AsyncFunctionDef, ast.Lambda, ast.ClassDef)


def clone(node):
    """deep copy of an AST keeping positions and dropping analysis back-pointers."""
    if isinstance(node, list):
        return [clone(x) for x in node]
    if not isinstance(node, ast.AST):
        return node
    new = type(node)()
    for f in node._fields:
        if hasattr(node, f):
            setattr(new, f, clone(getattr(node, f)))
    for a in ('lineno', 'col_offset', 'end_lineno', 'end_col_offset'):
        if hasattr(node, a):
            setattr(new, a, getattr(node, a))
    return new


def walk_local(node):
    """walk without entering nested function / class / lambda scopes (the root itself is entered)."""
    stack = [node]
    first = True
    while stack:
        n = stack.pop()
        if not first and isinstance(n, _SCOPES):
            continue
        first = False
        yield n
        stack.extend(reversed(list(ast.iter_child_nodes(n))))


def dotted(node):
    parts = []
    while isinstance(node, ast.Attribute):
        parts.append(node.attr)
        node = node.value
    if isinstance(node, ast.Name):
        parts.append(node.id)
        return '.'.join(reversed(parts))
    return None


def root_name(node):
    while isinstance(node, (ast.Attribute, ast.Subscript, ast.Starred)):
        node = node.value
    if isinstance(node, ast.Call):
        return root_name(node.func)
    return node.id if isinstance(node, ast.Name) else None


def blocks_of(st):
    for f in ('body', 'orelse', 'finalbody'):
        b = getattr(st, f, None)
        if isinstance(b, list) and b and isinstance(b[0], ast.stmt):
            yield b
    for h in getattr(st, 'handlers', []) or []:
        yield h.body
    for c in getattr(st, 'cases', []) or []:
        yield c.body


def all_blocks(fn):
    """every statement list of a function, outermost first, not entering nested scopes."""
    out = []

    def rec(block):
        out.append(block)
        for st in block:
            if isinstance(st, _SCOPES):
                continue
            for b in blocks_of(st):
                rec(b)
    rec(fn.body)
    return out


# ------------------------------------------------------------------ purity
def is_pure(e):
    """side-effect free and deterministic given the values of the names / attributes / elements it reads."""
    if isinstance(e, (ast.Constant, ast.Name)):
        return True
    if isinstance(e, ast.Attribute):
        return is_pure(e.value)
    if isinstance(e, ast.Subscript):
        return is_pure(e.value) and is_pure(e.slice)
    if isinstance(e, ast.Slice):
        return all(x is None or is_pure(x) for x in (e.lower, e.upper, e.step))
    if isinstance(e, (ast.Tuple, ast.List, ast.Set)):
        return all(is_pure(x) for x in e.elts)
    if isinstance(e, ast.Dict):
        return all(k is not None and is_pure(k) for k in e.keys) and all(is_pure(v) for v in e.values)
    if isinstance(e, ast.BinOp):
        return is_pure(e.left) and is_pure(e.right)
    if isinstance(e, ast.UnaryOp):
        return is_pure(e.operand)
    if isinstance(e, ast.BoolOp):
        return all(is_pure(v) for v in e.values)
    if isinstance(e, ast.Compare):
        return is_pure(e.left) and all(is_pure(c) for c in e.comparators)
    if isinstance(e, ast.IfExp):
        return is_pure(e.test) and is_pure(e.body) and is_pure(e.orelse)
    if isinstance(e, ast.Starred):
        return is_pure(e.value)
    if isinstance(e, (ast.ListComp, ast.SetComp, ast.GeneratorExp)):
        return is_pure(e.elt) and all(is_pure(g.iter) and all(is_pure(c) for c in g.ifs) for g in e.generators)
    if isinstance(e, ast.DictComp):
        return is_pure(e.key) and is_pure(e.value) and all(is_pure(g.iter) and all(is_pure(c) for c in g.ifs) for g in e.generators)
    if isinstance(e, ast.JoinedStr):
        return all(is_pure(v) for v in e.values)
    if isinstance(e, ast.FormattedValue):
        return is_pure(e.value)
    if isinstance(e, ast.Call):
        if not all(is_pure(a) for a in e.args) or not all(is_pure(k.value) for k in e.keywords):
            return False
        d = dotted(e.func)
        if d is not None:
            if '.' not in d:
                return d in PURE_BUILTINS
            root = d.split('.')[0]
            if root in PURE_MODULE_ROOTS:
                return not any(d == x or d.startswith(x + '.') for x in IMPURE_MODULE_FUNCS)
            if root == 'copy' and d in ('copy.copy', 'copy.deepcopy'):
                return True
        if isinstance(e.func, ast.Attribute) and e.func.attr in PURE_METHODS:
            return is_pure(e.func.value)
        return False
    return False


def is_alloc(e):
    """builds a fresh mutable container (identity may matter: substitute only into a single use)."""
    if isinstance(e, (ast.List, ast.Set, ast.Dict, ast.ListComp, ast.SetComp, ast.DictComp, ast.GeneratorExp)):
        return True
    if isinstance(e, ast.Call):
        d = dotted(e.func)
        if d is not None:
            last = d.split('.')[-1]
            if '.' not in d:
                return d in ALLOC_BUILTINS
            if last in ALLOC_MODULE_FUNCS:
                return True
        if isinstance(e.func, ast.Attribute) and e.func.attr in ALLOC_METHODS:
            return True
    return False


def free_names(e):
    """names read by an expression, excluding those bound by its own comprehensions."""
    bound = set()
    for n in ast.walk(e):
        if isinstance(n, ast.comprehension):
            for t in ast.walk(n.target):
                if isinstance(t, ast.Name):
                    bound.add(t.id)
    return {n.id for n in ast.walk(e) if isinstance(n, ast.Name) and isinstance(n.ctx, ast.Load) and n.id not in bound}


def access_path(node):
    """('self', 'crys') for self.crys[...].x(...) style chains (subscripts / calls are looked through)."""
    parts = []
    while True:
        if isinstance(node, ast.Attribute):
            parts.append(node.attr)
            node = node.value
        elif isinstance(node, (ast.Subscript, ast.Starred)):
            parts = []          # an element of the container: the container is what is read / written
            node = node.value
        elif isinstance(node, ast.Call):
            parts = []
            node = node.func
            if isinstance(node, ast.Attribute):
                node = node.value   # receiver of a method call
        else:
            break
    if isinstance(node, ast.Name):
        return tuple([node.id] + list(reversed(parts)))
    return None


def read_paths(e):
    """access paths read by an expression (names bound by its own comprehensions excluded)."""
    bound = set()
    for n in ast.walk(e):
        if isinstance(n, ast.comprehension):
            for t in ast.walk(n.target):
                if isinstance(t, ast.Name):
                    bound.add(t.id)
    out = set()

    def rec(n):
        if isinstance(n, (ast.Attribute, ast.Name)):
            chain = n
            parts = []
            while isinstance(chain, ast.Attribute):
                parts.append(chain.attr)
                chain = chain.value
            if isinstance(chain, ast.Name):
                if chain.id not in bound:
                    out.add(tuple([chain.id] + list(reversed(parts))))
                return
            rec(chain)
            return
        for ch in ast.iter_child_nodes(n):
            rec(ch)
    rec(e)
    return out


def written_paths(stmts):
    """access paths that a statement list may rebind or mutate.  Assumption (documented in DESIGN.md): a call may mutate
    its receiver (``obj.method(...)`` -> obj) but not its arguments."""
    out = set()
    for st in stmts:
        for n in ast.walk(st):
            if isinstance(n, ast.Name) and isinstance(n.ctx, (ast.Store, ast.Del)):
                out.add((n.id,))
            elif isinstance(n, (ast.Attribute, ast.Subscript)) and isinstance(n.ctx, (ast.Store, ast.Del)):
                p = access_path(n) if isinstance(n, ast.Subscript) else _attr_path(n)
                if p: out.add(p)
            elif isinstance(n, ast.AugAssign):
                p = access_path(n.target) if not isinstance(n.target, ast.Attribute) else _attr_path(n.target)
                if p: out.add(p)
            elif isinstance(n, ast.Call):
                if is_pure(n):
                    continue
                if isinstance(n.func, ast.Attribute):
                    p = access_path(n.func.value) if not isinstance(n.func.value, (ast.Attribute, ast.Name)) else _attr_path(n.func.value)
                    if p: out.add(p)
            elif isinstance(n, (ast.FunctionDef, ast.AsyncFunctionDef, ast.ClassDef)):
                out.add((n.name,))
            elif isinstance(n, (ast.Import, ast.ImportFrom)):
                for a in n.names:
                    out.add(((a.asname or a.name).split('.')[0],))
            elif isinstance(n, ast.ExceptHandler) and n.name:
                out.add((n.name,))
    return out


def _attr_path(n):
    parts = []
    while isinstance(n, ast.Attribute):
        parts.append(n.attr)
        n = n.value
    if isinstance(n, ast.Name):
        return tuple([n.id] + list(reversed(parts)))
    return access_path(n)


def paths_conflict(reads, writes):
    for r in reads:
        for w in writes:
            k = min(len(r), len(w))
            if r[:k] == w[:k]:
                return True
    return False


# ------------------------------------------------------------------ rewrites
class _Subst(ast.NodeTransformer):
    def __init__(self, name, value):
        self.name, self.value, self.count = name, value, 0

    def visit_Name(self, n):
        if n.id == self.name and isinstance(n.ctx, ast.Load):
            self.count += 1
            v = clone(self.value)
            return v
        return n

    def visit_FunctionDef(self, n):
        return n
    visit_AsyncFunctionDef = visit_Lambda = visit_ClassDef = visit_FunctionDef


def _not(test):
    """logical negation in simplified form."""
    if isinstance(test, ast.UnaryOp) and isinstance(test.op, ast.Not):
        return test.operand
    if isinstance(test, ast.Compare) and len(test.ops) == 1 and type(test.ops[0]) in FLIP:
        new = ast.Compare(left=test.left, ops=[FLIP[type(test.ops[0])]()], comparators=test.comparators)
        return ast.copy_location(new, test)
    return ast.copy_location(ast.UnaryOp(op=ast.Not(), operand=test), test)


class _Simplify(ast.NodeTransformer):
    """N2, N3 (comprehension generators), N7 -- expression level."""

    def __init__(self):
        self.changed = False

    def visit_UnaryOp(self, n):
        self.generic_visit(n)
        if isinstance(n.op, ast.Not):
            o = n.operand
            if isinstance(o, ast.Compare) and len(o.ops) == 1 and type(o.ops[0]) in FLIP:
                self.changed = True
                return ast.copy_location(ast.Compare(left=o.left, ops=[FLIP[type(o.ops[0])]()], comparators=o.comparators), n)
        return n

    def visit_Compare(self, n):
        self.generic_visit(n)
        if len(n.ops) == 1 and isinstance(n.ops[0], (ast.Eq, ast.NotEq)):
            a, b = n.left, n.comparators[0]
            ka, kb = _order_key(a), _order_key(b)
            if kb < ka:
                n.left, n.comparators = b, [a]
                self.changed = True
        return n

    def visit_Call(self, n):
        self.generic_visit(n)
        d = dotted(n.func)
        if d == 'set' and len(n.args) == 1 and isinstance(n.args[0], ast.List) and not n.args[0].elts and not n.keywords:
            n.args = []
            self.changed = True
        return n

    def visit_Subscript(self, n):
        self.generic_visit(n)
        # N9: (np.array)([f(x) for x in S])[e]  ->  f(S[e])   (single generator, no filter, pure, scalar index)
        if not isinstance(n.ctx, ast.Load) or isinstance(n.slice, (ast.Slice, ast.Tuple)):
            return n
        v = n.value
        if isinstance(v, ast.Call) and dotted(v.func) in ('np.array', 'numpy.array', 'np.asarray', 'list', 'tuple') and len(v.args) == 1 \
                and not v.keywords:
            v = v.args[0]
        if isinstance(v, (ast.ListComp, ast.GeneratorExp)) and v is not n.value or isinstance(v, ast.ListComp):
            if len(v.generators) == 1 and not v.generators[0].ifs and isinstance(v.generators[0].target, ast.Name) \
                    and not isinstance(v.generators[0].iter, (ast.Dict, ast.Set, ast.DictComp, ast.SetComp, ast.GeneratorExp)) \
                    and (not isinstance(v.generators[0].iter, ast.Call) or dotted(v.generators[0].iter.func) == 'range') \
                    and ast.unparse(v.generators[0].iter) not in _MAPPINGLIKE \
                    and is_pure(v.elt) and is_pure(v.generators[0].iter) and is_pure(n.slice):
                x = v.generators[0].target.id
                inner_bound = {m.id for m in ast.walk(v.elt) if isinstance(m, ast.Name) and isinstance(m.ctx, ast.Store)}
                if x not in inner_bound and not (free_names(n.slice) & inner_bound):
                    elem = ast.Subscript(value=v.generators[0].iter, slice=n.slice, ctx=ast.Load())
                    ast.copy_location(elem, n)
                    new = _Subst(x, elem).visit(clone(v.elt))
                    self.changed = True
                    return new
        return n

    def visit_comprehension(self, g):
        self.generic_visit(g)
        r = _zipcount(g.iter, g.target)
        if r:
            g.iter, g.target = r
            self.changed = True
        k = _drop_keys(g.iter)
        if k is not None:
            g.iter = k
            self.changed = True
        return g


def _order_key(e):
    # constants and None last, then textual
    return (isinstance(e, ast.Constant), ast.unparse(e))


# N9 turns iteration into indexing: sound only for sequences.  Every access path that the module uses like a mapping or a set
# anywhere (receiver of one of these methods, or built by a dict / set display or constructor) is excluded.
MAPPING_METHODS = {'keys', 'items', 'values', 'get', 'setdefault', 'update', 'popitem', 'add', 'discard', 'union', 'intersection',
                   'difference', 'issubset', 'issuperset'}
_MAPPINGLIKE = set()


def mappinglike_paths(tree):
    out = set()
    for n in ast.walk(tree):
        if isinstance(n, ast.Call) and isinstance(n.func, ast.Attribute) and n.func.attr in MAPPING_METHODS:
            out.add(ast.unparse(n.func.value))
        if isinstance(n, (ast.Assign, ast.AnnAssign)) and n.value is not None:
            v = n.value
            if isinstance(v, (ast.Dict, ast.DictComp, ast.Set, ast.SetComp)) or \
                    (isinstance(v, ast.Call) and dotted(v.func) in ('dict', 'set', 'frozenset', 'collections.defaultdict', 'defaultdict',
                                                                    'collections.OrderedDict', 'OrderedDict')):
                for t in (n.targets if isinstance(n, ast.Assign) else [n.target]):
                    out.add(ast.unparse(t))
    return out


def _drop_keys(it):
    if isinstance(it, ast.Call) and isinstance(it.func, ast.Attribute) and it.func.attr == 'keys' and not it.args and not it.keywords:
        return it.func.value
    return None


def _zipcount(it, target):
    """zip(itertools.count(), A, ...) with a flat tuple target -> enumerate form."""
    if not (isinstance(it, ast.Call) and dotted(it.func) == 'zip' and it.args and not it.keywords):
        return None
    first = it.args[0]
    if not (isinstance(first, ast.Call) and dotted(first.func) in ('itertools.count', 'count') and not first.args and not first.keywords):
        return None
    rest = it.args[1:]
    if not rest or not isinstance(target, (ast.Tuple, ast.List)) or len(target.elts) != len(it.args):
        return None
    if any(isinstance(e, ast.Starred) for e in target.elts):
        return None
    if len(rest) == 1:
        inner_it, inner_t = rest[0], target.elts[1]
    else:
        inner_it = ast.copy_location(ast.Call(func=ast.Name(id='zip', ctx=ast.Load()), args=rest, keywords=[]), it)
        inner_t = ast.copy_location(ast.Tuple(elts=target.elts[1:], ctx=ast.Store()), target)
    new_it = ast.copy_location(ast.Call(func=ast.Name(id='enumerate', ctx=ast.Load()), args=[inner_it], keywords=[]), it)
    new_t = ast.copy_location(ast.Tuple(elts=[target.elts[0], inner_t], ctx=ast.Store()), target)
    return new_it, new_t


def _split_tuple_assign(block):
    changed = False
    i = 0
    while i < len(block):
        st = block[i]
        if isinstance(st, ast.Assign) and len(st.targets) == 1 and isinstance(st.targets[0], (ast.Tuple, ast.List)) \
                and isinstance(st.value, (ast.Tuple, ast.List)) and len(st.targets[0].elts) == len(st.value.elts) \
                and not any(isinstance(e, ast.Starred) for e in st.targets[0].elts + st.value.elts) \
                and all(isinstance(t, (ast.Name, ast.Subscript, ast.Attribute)) for t in st.targets[0].elts):
            tpaths = []
            ok = True
            for t in st.targets[0].elts:
                p = (t.id,) if isinstance(t, ast.Name) else (access_path(t) if isinstance(t, ast.Subscript) else _attr_path(t))
                if p is None or (isinstance(t, ast.Subscript) and not (is_pure(t.slice) and is_pure(t.value))) \
                        or (isinstance(t, ast.Attribute) and not is_pure(t.value)):
                    ok = False
                    break
                tpaths.append(p)
            if ok:
                reads = set()
                for v in st.value.elts:
                    reads |= read_paths(v)
                for t in st.targets[0].elts:
                    if isinstance(t, ast.Subscript):
                        reads |= read_paths(t.slice)
                # simultaneous assignment equals sequential assignment when nothing written is read by a right-hand side
                # or by a target index, the targets are distinct, and every right-hand side is pure
                if len(set(tpaths)) == len(tpaths) and not paths_conflict(reads, set(tpaths)) and all(is_pure(v) for v in st.value.elts):
                    new = []
                    for t, v in zip(st.targets[0].elts, st.value.elts):
                        a = ast.Assign(targets=[t], value=v, type_comment=None)
                        ast.copy_location(a, st)
                        new.append(a)
                    block[i:i + 1] = new
                    changed = True
                    i += len(new)
                    continue
        i += 1
    return changed


def _loop_forms(fn):
    """N3 on for statements, N4, N7."""
    changed = False
    for block in all_blocks(fn):
        for st in block:
            if isinstance(st, (ast.For, ast.AsyncFor)):
                r = _zipcount(st.iter, st.target)
                if r:
                    st.iter, st.target = r
                    changed = True
                k = _drop_keys(st.iter)
                if k is not None:
                    st.iter = k
                    changed = True
            if isinstance(st, ast.If) and st.orelse and isinstance(st.test, ast.UnaryOp) and isinstance(st.test.op, ast.Not) \
                    and not (len(st.orelse) == 1 and isinstance(st.orelse[0], ast.If)):
                st.test = st.test.operand
                st.body, st.orelse = st.orelse, st.body
                changed = True
            if isinstance(st, ast.If) and st.orelse and isinstance(st.test, ast.Compare) and len(st.test.ops) == 1 \
                    and isinstance(st.test.ops[0], (ast.NotEq, ast.NotIn, ast.IsNot)) \
                    and not (len(st.orelse) == 1 and isinstance(st.orelse[0], ast.If)):
                st.test = _not(st.test)
                st.body, st.orelse = st.orelse, st.body
                changed = True
            if isinstance(st, (ast.For, ast.AsyncFor, ast.While)):
                body = st.body
                last = body[-1]
                if isinstance(last, ast.If) and not last.orelse and not (len(last.body) == 1 and isinstance(last.body[0], (ast.Continue, ast.Break, ast.Pass))):
                    guard = ast.If(test=_not(last.test), body=[ast.copy_location(ast.Continue(), last)], orelse=[])
                    ast.copy_location(guard, last)
                    body[-1:] = [guard] + last.body
                    changed = True
    # N11: else after a terminator (the block list is recomputed after every hoist: a hoisted ``else`` list is detached)
    again = True
    while again:
        again = False
        for block in all_blocks(fn):
            for k, st in enumerate(block):
                if isinstance(st, ast.If) and st.orelse and isinstance(st.body[-1], (ast.Raise, ast.Return, ast.Continue, ast.Break)):
                    tail, st.orelse = list(st.orelse), []
                    block[k + 1:k + 1] = tail
                    changed = again = True
                    break
            if again:
                break
    return changed


def _append_target(st):
    if isinstance(st, ast.Expr) and isinstance(st.value, ast.Call) and isinstance(st.value.func, ast.Attribute) \
            and st.value.func.attr == 'append' and isinstance(st.value.func.value, ast.Name) and len(st.value.args) == 1 \
            and not st.value.keywords:
        return st.value.func.value.id, st.value.args[0]
    return None


def _as_generators(loop, name):
    """a loop whose whole effect is ``name.append(e)`` under guards / nested loops -> (generators, elt) or None."""
    gens = []
    cur = loop
    while True:
        if not isinstance(cur, ast.For) or cur.orelse:
            return None
        g = ast.comprehension(target=cur.target, iter=cur.iter, ifs=[], is_async=0)
        gens.append(g)
        body = list(cur.body)
        # leading guards of the form `if c: continue`
        while body and isinstance(body[0], ast.If) and not body[0].orelse and len(body[0].body) == 1 and isinstance(body[0].body[0], ast.Continue):
            g.ifs.append(_not(body[0].test))
            body = body[1:]
        while len(body) == 1 and isinstance(body[0], ast.If) and not body[0].orelse:
            g.ifs.append(body[0].test)
            body = list(body[0].body)
        if len(body) != 1:
            return None
        a = _append_target(body[0])
        if a is not None:
            if a[0] != name:
                return None
            return gens, a[1]
        cur = body[0]


def _append_loops(fn):
    changed = False
    for block in all_blocks(fn):
        i = 0
        while i < len(block):
            st = block[i]
            if isinstance(st, ast.Assign) and len(st.targets) == 1 and isinstance(st.targets[0], ast.Name) \
                    and isinstance(st.value, ast.List) and not st.value.elts:
                x = st.targets[0].id
                j = i + 1
                while j < len(block) and not any(isinstance(n, ast.Name) and n.id == x for n in ast.walk(block[j])):
                    j += 1
                if j < len(block) and isinstance(block[j], ast.For):
                    r = _as_generators(block[j], x)
                    if r is not None:
                        gens, elt = r
                        mentions = sum(1 for n in ast.walk(block[j]) if isinstance(n, ast.Name) and n.id == x)
                        # the list must not be read while it is being built; the generators must not be loop-carried
                        bound = set()
                        for g in gens:
                            bound |= {n.id for n in ast.walk(g.target) if isinstance(n, ast.Name)}
                        # the element may have effects (they happen in the same order in the comprehension); what must hold is
                        # that the loop variables do not leak (a comprehension has its own scope) and the guards are pure
                        loop_nodes = {id(n) for n in ast.walk(block[j])}
                        leaks = any(isinstance(n, ast.Name) and n.id in bound and id(n) not in loop_nodes for n in walk_local(fn))
                        if mentions == 1 and (is_pure(elt) or not leaks) and all(is_pure(g.iter) and all(is_pure(c) for c in g.ifs) for g in gens):
                            comp = ast.ListComp(elt=elt, generators=gens)
                            ast.copy_location(comp, block[j])
                            new = ast.Assign(targets=[st.targets[0]], value=comp, type_comment=None)
                            ast.copy_location(new, block[j])
                            block[j] = new
                            del block[i]
                            changed = True
                            continue
            i += 1
    return changed


def _inline_temps(fn):
    """N6.  A definition ``t = e`` at position i of a block is substituted into the loads of ``t`` in the rest of that
    block (up to the next re-definition in the block) when
      * every store to ``t`` in the function is such a plain block-level assignment, ``t`` is not a parameter, not
        global / nonlocal, not used in a nested scope, and never mutated through the name;
      * every load of ``t`` in the function lies in the region of exactly one definition (so no load can see another
        definition: a definition dominates its region and is re-executed before the region in every loop iteration);
      * ``e`` is side-effect free, does not read ``t``, and nothing ``e`` reads is rebound or mutated inside the region;
      * a fresh container is only moved to a single use."""
    changed = False
    params = {a.arg for a in fn.args.posonlyargs + fn.args.args + fn.args.kwonlyargs}
    if fn.args.vararg: params.add(fn.args.vararg.arg)
    if fn.args.kwarg: params.add(fn.args.kwarg.arg)
    other_stores = Counter()      # stores that are not plain single-name assignments
    declared = set()
    nested_used = set()
    plain_targets = set()
    for n in walk_local(fn):
        if isinstance(n, ast.Assign) and len(n.targets) == 1 and isinstance(n.targets[0], ast.Name):
            plain_targets.add(id(n.targets[0]))
    for n in walk_local(fn):
        if isinstance(n, ast.Name) and isinstance(n.ctx, (ast.Store, ast.Del)) and id(n) not in plain_targets:
            other_stores[n.id] += 1
        elif isinstance(n, ast.AugAssign) and isinstance(n.target, ast.Name):
            other_stores[n.target.id] += 1
        elif isinstance(n, (ast.Global, ast.Nonlocal)):
            declared |= set(n.names)
        elif isinstance(n, ast.ExceptHandler) and n.name:
            other_stores[n.name] += 1
    for n in ast.walk(fn):
        if n is not fn and isinstance(n, _SCOPES):
            for m in ast.walk(n):
                if isinstance(m, ast.Name):
                    nested_used.add(m.id)
            if hasattr(n, 'name'):
                other_stores[n.name] += 1
    # candidate definitions per name: (block, stmt)
    cands = {}
    for block in all_blocks(fn):
        for st in block:
            if isinstance(st, ast.Assign) and len(st.targets) == 1 and isinstance(st.targets[0], ast.Name):
                cands.setdefault(st.targets[0].id, []).append((block, st))
    for t, defs in cands.items():
        if other_stores[t] or t in params or t in declared or t in nested_used:
            continue
        all_loads = [n for n in walk_local(fn) if isinstance(n, ast.Name) and n.id == t and isinstance(n.ctx, ast.Load)]
        if not all_loads:
            continue
        plans = []
        covered = set()
        ok = True
        for block, st in defs:
            i = next(k for k, s in enumerate(block) if s is st)
            rest = block[i + 1:]
            # region ends before the next re-definition of t at this block level
            end = len(rest)
            for k, s in enumerate(rest):
                if isinstance(s, ast.Assign) and len(s.targets) == 1 and isinstance(s.targets[0], ast.Name) and s.targets[0].id == t:
                    end = k + 1   # its right-hand side may still read the old value
                    break
            region_all = rest[:end]
            loads = []
            for k, s in enumerate(region_all):
                part = s
                if k == end - 1 and end < len(rest) + 1 and isinstance(s, ast.Assign) and len(s.targets) == 1 \
                        and isinstance(s.targets[0], ast.Name) and s.targets[0].id == t:
                    part = s.value
                loads += [n for n in (walk_local_stmt(part) if isinstance(part, ast.stmt) else walk_local(part))
                          if isinstance(n, ast.Name) and n.id == t and isinstance(n.ctx, ast.Load)]
            # a nested re-definition inside the region makes the reaching definitions ambiguous
            nested_redef = any(isinstance(n, ast.Name) and n.id == t and isinstance(n.ctx, ast.Store)
                               for k, s in enumerate(region_all) for n in ast.walk(s)
                               if not (k == end - 1 and s is not None and isinstance(s, ast.Assign) and s.targets[0] is n))
            if nested_redef or any(id(n) in covered for n in loads):
                ok = False
                break
            covered |= {id(n) for n in loads}
            plans.append((block, st, i, end, loads))
        if not ok or covered != {id(n) for n in all_loads}:
            continue
        for block, st, i, end, loads in plans:
            if not loads:
                continue
            if not is_pure(st.value) or t in free_names(st.value):
                continue
            if len(loads) > 1 and is_alloc(st.value) and not _only_read(fn, loads):
                continue
            i = next((k for k, s in enumerate(block) if s is st), None)
            if i is None:
                continue
            rest = block[i + 1:i + 1 + end]
            if _mutated(t, rest):
                continue
            last = max(k for k, s in enumerate(rest) if any(n is m for m in loads for n in ast.walk(s)))
            region = rest[:last + 1]
            # the statement that re-defines t (if it ends the region) only contributes its right-hand side
            if paths_conflict(read_paths(st.value), written_paths(region) - {(t,)}):
                continue
            sub = _Subst(t, st.value)
            for k in range(last + 1):
                block[i + 1 + k] = sub.visit(block[i + 1 + k])
            del block[i]
            changed = True
        if changed:
            return True     # one name per round keeps the bookkeeping simple; the driver iterates to a fix point
    return changed


def _only_read(fn, loads):
    """every load is the container of an element read ``t[...]`` (identity of the container cannot be observed)."""
    ids = {id(n) for n in loads}
    ok = set()
    for n in ast.walk(fn):
        if isinstance(n, ast.Subscript) and isinstance(n.ctx, ast.Load) and id(n.value) in ids:
            ok.add(id(n.value))
    return ok == ids


def walk_local_stmt(st):
    if isinstance(st, _SCOPES):
        return
    yield from walk_local(st)


def _mutated(name, stmts):
    """is the object bound to ``name`` mutated through the name (element / attribute store, in-place method)?"""
    for s in stmts:
        for n in ast.walk(s):
            if isinstance(n, (ast.Subscript, ast.Attribute)) and isinstance(n.ctx, (ast.Store, ast.Del)) and root_name(n) == name:
                return True
            if isinstance(n, ast.AugAssign) and root_name(n.target) == name:
                return True
            if isinstance(n, ast.Call) and isinstance(n.func, ast.Attribute) and root_name(n.func.value) == name \
                    and not is_pure(n):
                return True
    return False


# ------------------------------------------------------------------ N8: helper inlining
KEEP_HELPERS = {'_symmetricandescaperates', '_asdict'}   # private methods that are anchors of properties: never inlined
_inline_counter = [0]


def _strip_doc(body):
    if body and isinstance(body[0], ast.Expr) and isinstance(body[0].value, ast.Constant) and isinstance(body[0].value.value, str):
        return body[1:]
    return body


def _helper_kind(fn):
    for d in fn.decorator_list:
        n = dotted(d)
        if n == 'staticmethod': return 'static'
        if n == 'classmethod': return 'class'
        return None if n else None
    return 'plain'


def _inlinable(fn):
    """straight-line helper: simple parameters, a single trailing return (or none), no generators / nested scopes."""
    a = fn.args
    if a.vararg or a.kwarg or a.kwonlyargs or a.posonlyargs:
        return False
    if any(not isinstance(d, ast.Constant) for d in a.defaults):
        return False
    body = _strip_doc(fn.body)
    if not body:
        return False
    for n in ast.walk(fn):
        if isinstance(n, (ast.Yield, ast.YieldFrom, ast.Await, ast.Global, ast.Nonlocal, ast.Lambda)) or \
                (n is not fn and isinstance(n, (ast.FunctionDef, ast.AsyncFunctionDef, ast.ClassDef))):
            return False
        if isinstance(n, ast.Call) and dotted(n.func) in (fn.name, 'self.' + fn.name, 'cls.' + fn.name):
            return False
    rets = [n for n in ast.walk(fn) if isinstance(n, ast.Return)]
    if len(rets) > 1 or (rets and rets[0] is not body[-1]):
        return False
    return True


class _Rename(ast.NodeTransformer):
    def __init__(self, mapping):
        self.mapping = mapping

    def visit_Name(self, n):
        if n.id in self.mapping:
            m = self.mapping[n.id]
            if isinstance(m, str):
                n.id = m
                return n
            if isinstance(n.ctx, ast.Load):
                return clone(m)
        return n


def _bind_call(helper, call, kind, receiver):
    """{param: argument expression} for a call, or None when the call shape is not understood."""
    names = [a.arg for a in helper.args.args]
    bound = {}
    if kind == 'plain' and receiver is not None:
        if not names:
            return None
        bound[names[0]] = receiver
        names = names[1:]
    elif kind == 'class':
        if not names:
            return None
        bound[names[0]] = receiver if receiver is not None else ast.Name(id='cls', ctx=ast.Load())
        names = names[1:]
    if any(isinstance(x, ast.Starred) for x in call.args) or any(k.arg is None for k in call.keywords):
        return None
    if len(call.args) > len(names):
        return None
    for n, x in zip(names, call.args):
        bound[n] = x
    for k in call.keywords:
        if k.arg not in names or k.arg in bound:
            return None
        bound[k.arg] = k.value
    defaults = helper.args.defaults
    allnames = [a.arg for a in helper.args.args]
    for n, d in zip(allnames[len(allnames) - len(defaults):], defaults):
        bound.setdefault(n, d)
    if set(bound) != set(allnames):
        return None
    return bound


def _expand_call(helper, call, kind, receiver, targets, at):
    """statements replacing ``targets = helper(...)`` (targets None: expression statement)."""
    bound = _bind_call(helper, call, kind, receiver)
    if bound is None:
        return None
    _inline_counter[0] += 1
    k = _inline_counter[0]
    locs = set()
    for n in ast.walk(helper):
        if isinstance(n, ast.Name) and isinstance(n.ctx, (ast.Store, ast.Del)):
            locs.add(n.id)
    locs |= set(bound)
    mapping = {}
    pre = []
    for pname in [a.arg for a in helper.args.args]:
        arg = bound[pname]
        if isinstance(arg, (ast.Name, ast.Constant)) or (isinstance(arg, ast.Attribute) and is_pure(arg)):
            stored = any(isinstance(n, ast.Name) and n.id == pname and isinstance(n.ctx, (ast.Store, ast.Del)) for n in ast.walk(helper)) or \
                any(isinstance(n, ast.AugAssign) and isinstance(n.target, ast.Name) and n.target.id == pname for n in ast.walk(helper))
            if not stored:
                mapping[pname] = arg
                continue
        new = '%s__%d' % (pname, k)
        mapping[pname] = new
        a = ast.Assign(targets=[ast.Name(id=new, ctx=ast.Store())], value=clone(arg), type_comment=None)
        pre.append(ast.copy_location(a, at))
    for l in locs:
        mapping.setdefault(l, '%s__%d' % (l, k))
    body = [_Rename(mapping).visit(clone(st)) for st in _strip_doc(helper.body)]
    out = pre
    ret = None
    if body and isinstance(body[-1], ast.Return):
        ret = body[-1].value
        body = body[:-1]
    out += body
    if targets is not None:
        val = ret if ret is not None else ast.Constant(value=None)
        a = ast.Assign(targets=targets, value=val, type_comment=None)
        out.append(ast.copy_location(a, at))
    elif ret is not None and not is_pure(ret):
        out.append(ast.copy_location(ast.Expr(value=ret), at))
    for st in out:
        for n in ast.walk(st):
            if not hasattr(n, 'lineno') and isinstance(n, (ast.stmt, ast.expr)):
                ast.copy_location(n, at)
    return out


def _resolve_helper(call, local_defs, class_helpers, module_helpers):
    """(helper def, kind, receiver expr) for a call of an inlinable helper, else None."""
    f = call.func
    if isinstance(f, ast.Name):
        if f.id in local_defs:
            return local_defs[f.id], 'local', None
        if f.id in module_helpers:
            return module_helpers[f.id], 'local', None
        return None
    if isinstance(f, ast.Attribute) and isinstance(f.value, ast.Name) and f.attr in class_helpers:
        h, kind, clsname = class_helpers[f.attr]
        if f.value.id in ('self', 'cls') or f.value.id == clsname:
            if kind == 'static':
                return h, 'static', None
            if kind == 'class':
                return h, 'class', (f.value if f.value.id == 'cls' else ast.Attribute(value=f.value, attr='__class__', ctx=ast.Load())
                                    if f.value.id == 'self' else f.value)
            if f.value.id == 'self':
                return h, 'plain', f.value
    return None


class _ExprInline(ast.NodeTransformer):
    """a call of a helper whose body is a single ``return expr`` is replaced by that expression (all arguments pure)."""

    def __init__(self, local_defs, class_helpers, module_helpers):
        self.ctx = (local_defs, class_helpers, module_helpers)
        self.changed = False

    def visit_FunctionDef(self, n):
        return n
    visit_AsyncFunctionDef = visit_ClassDef = visit_FunctionDef

    def visit_Call(self, n):
        self.generic_visit(n)
        r = _resolve_helper(n, *self.ctx)
        if r is None:
            return n
        h, kind, recv = r
        body = _strip_doc(h.body)
        if len(body) != 1 or not isinstance(body[0], ast.Return) or body[0].value is None:
            return n
        bound = _bind_call(h, n, kind, recv)
        if bound is None or not all(is_pure(v) for v in bound.values()):
            return n
        # no capture: comprehension variables of the helper body must not occur in the arguments
        inner = {m.id for m in ast.walk(body[0].value) if isinstance(m, ast.Name) and isinstance(m.ctx, ast.Store)}
        if any(inner & free_names(v) for v in bound.values()):
            return n
        new = _Rename(dict(bound)).visit(clone(body[0].value))
        for m in ast.walk(new):
            ast.copy_location(m, n)
        self.changed = True
        return new


def _inline_helpers(fn, class_helpers, module_helpers):
    changed = False
    local_defs = {}
    for block in all_blocks(fn):
        for st in block:
            if isinstance(st, ast.FunctionDef) and _inlinable(st):
                local_defs[st.name] = st
    # a local name that is re-bound elsewhere is not a stable helper
    for n in walk_local(fn):
        if isinstance(n, ast.Name) and isinstance(n.ctx, ast.Store) and n.id in local_defs:
            local_defs.pop(n.id)
    ch = {k: v for k, v in class_helpers.items() if v[0] is not fn}
    mh = {k: v for k, v in module_helpers.items() if v is not fn}
    for block in all_blocks(fn):
        i = 0
        while i < len(block):
            st = block[i]
            call, targets = None, None
            if isinstance(st, ast.Assign) and isinstance(st.value, ast.Call):
                call, targets = st.value, st.targets
            elif isinstance(st, ast.Expr) and isinstance(st.value, ast.Call):
                call = st.value
            if call is not None:
                r = _resolve_helper(call, local_defs, ch, mh)
                if r is not None:
                    h, kind, recv = r
                    body = _strip_doc(h.body)
                    single = len(body) == 1 and isinstance(body[0], ast.Return)
                    if not single:
                        new = _expand_call(h, call, kind, recv, targets, st)
                        if new is not None:
                            block[i:i + 1] = new
                            changed = True
                            i += len(new)
                            continue
            i += 1
    ei = _ExprInline(local_defs, ch, mh)
    for block in all_blocks(fn)[:1]:
        for k, st in enumerate(block):
            if not isinstance(st, _SCOPES):
                block[k] = ei.visit(st)
    changed |= ei.changed
    # drop local helpers that are no longer referenced
    for block in all_blocks(fn):
        for st in list(block):
            if isinstance(st, ast.FunctionDef) and st.name in local_defs:
                used = any(isinstance(n, ast.Name) and n.id == st.name and isinstance(n.ctx, ast.Load) for n in ast.walk(fn))
                if not used and len(block) > 1:
                    block.remove(st)
                    changed = True
    return changed


ONLY_INLINE = [False]   # set by normalize_module(tree, only_inline=True): the 'inlined' form = tree as written + helpers inlined


def normalize_function(fn, max_rounds=40, class_helpers=None, module_helpers=None):
    """normalise one function definition in place (nested functions are normalised first)."""
    class_helpers = class_helpers or {}
    module_helpers = module_helpers or {}
    for block in all_blocks(fn):
        for st in block:
            if isinstance(st, (ast.FunctionDef, ast.AsyncFunctionDef)):
                normalize_function(st, max_rounds, class_helpers, module_helpers)
            elif isinstance(st, ast.ClassDef):
                for s2 in st.body:
                    if isinstance(s2, (ast.FunctionDef, ast.AsyncFunctionDef)):
                        normalize_function(s2, max_rounds)
    for _ in range(max_rounds):
        ch = _inline_helpers(fn, class_helpers, module_helpers)
        if ONLY_INLINE[0]:
            if not ch:
                break
            continue
        for block in all_blocks(fn):
            ch |= _split_tuple_assign(block)
        simp = _Simplify()
        for block in all_blocks(fn)[:1]:
            for k, st in enumerate(block):
                if not isinstance(st, _SCOPES):
                    block[k] = simp.visit(st)
        ch |= simp.changed
        ch |= _inline_temps(fn)
        ch |= _append_loops(fn)
        ch |= _loop_forms(fn)
        if not ch:
            break
    fn._normalized = True
    return fn


def _private(name):
    return name.startswith('_') and not name.startswith('__') and name not in KEEP_HELPERS


def normalize_module(tree, only_inline=False):
    """returns a normalised deep copy of a module tree (only_inline: nothing but the inlining of private helpers)."""
    ONLY_INLINE[0] = bool(only_inline)
    try:
        return _normalize_module(tree)
    finally:
        ONLY_INLINE[0] = False


def _normalize_module(tree):
    new = clone(tree)
    _MAPPINGLIKE.clear()
    _MAPPINGLIKE.update(mappinglike_paths(tree))
    module_helpers = {st.name: st for st in new.body if isinstance(st, ast.FunctionDef) and _private(st.name) and _inlinable(st)}
    # helpers first (so that what gets inlined is itself in normal form)
    for st in new.body:
        if isinstance(st, ast.FunctionDef) and st.name in module_helpers:
            normalize_function(st, module_helpers={k: v for k, v in module_helpers.items() if k != st.name})
    for st in new.body:
        if isinstance(st, (ast.FunctionDef, ast.AsyncFunctionDef)) and st.name not in module_helpers:
            normalize_function(st, module_helpers=module_helpers)
        elif isinstance(st, ast.ClassDef):
            helpers = {}
            for s2 in st.body:
                if isinstance(s2, ast.FunctionDef) and _private(s2.name) and _inlinable(s2):
                    kind = _helper_kind(s2)
                    if kind is not None:
                        helpers[s2.name] = (s2, kind, st.name)
            for s2 in st.body:
                if isinstance(s2, ast.FunctionDef) and s2.name in helpers:
                    normalize_function(s2, class_helpers={k: v for k, v in helpers.items() if k != s2.name}, module_helpers=module_helpers)
            for s2 in st.body:
                if isinstance(s2, (ast.FunctionDef, ast.AsyncFunctionDef)) and s2.name not in helpers:
                    normalize_function(s2, class_helpers=helpers, module_helpers=module_helpers)
    ast.fix_missing_locations(new)
    return new
