"""
C22 -- k-point mesh reduction integrates symmetric functions exactly (structural clauses).

Not decided: that every mesh point lies in the Brillouin zone, and that the reduced mesh integrates every invariant
periodic function like the full one (numerical statements about computed points).  Decided -- necessary conditions of
"positive weights summing to one" and of "same average as the full mesh", visible in the shape of ``reducekptmesh``:
  * weight conservation: the base weight is one over the number of points handed in; the |k|^2 shells tile the sorted
    list without gap or overlap (consecutive slices, the last boundary being the number of points); inside a shell every
    point does exactly one of two things -- add the base weight to the representative whose orbit contains it, or become
    a new representative carrying the base weight -- and both result lists are extended by the shell's lists;
  * orbits: the orbit a point is compared with is the image of the representative under *every* operation of the group
    (``g_direc`` over ``self.G``), and the comparison is between the point and those images, component by component
    against the tolerance (a first-degree quantity against ``eps``; a squared distance would have to be compared with
    ``eps**2``);
  * ``fullkptmesh`` folds every point with every vector of the BZ list, and hands out a mesh that is built afresh for each
    call (no cache entry is returned or edited: engine ``cache``).
"""
import ast

from ..model import AnalysisError, dotted, unparse, walk_local
from ..engines import pattern
from ._common import cache_discipline, conditions_at, resolve_local, update_of


def run(model, rep, tier):
    rep.explanation = __doc__.strip()
    rep.not_decided = 'Brillouin-zone membership of the computed points; exactness of the quadrature for invariant functions'
    cache_discipline(model, rep, [('crystal', 'Crystal', ['fullkptmesh', 'reducekptmesh', 'genBZG', 'inBZ'])])
    rep.rule('weight-conservation', 'every full-mesh point contributes the base weight 1/N to exactly one reduced point')
    rep.rule('shells-tile', 'the |k|^2 shells are consecutive slices covering the whole sorted list')
    rep.rule('orbit-whole-group', 'a representative is compared through its images under every operation of the group')
    rep.rule('orbit-test-first-degree', 'point and image are compared component by component against the tolerance')
    rep.rule('fold-every-point', 'fullkptmesh folds every point with every BZ vector')
    mod = model.mod('crystal')
    ci = model.cls('crystal', 'Crystal')
    red = ci.methods.get('reducekptmesh')
    full = ci.methods.get('fullkptmesh')
    if red is None or full is None:
        raise AnalysisError('anchor vanished: Crystal.reducekptmesh / fullkptmesh')
    _reduce(rep, mod, red)
    _full(rep, mod, full)


def _reduce(rep, mod, fn):
    q = 'Crystal.reducekptmesh'
    kp = fn.args.args[1].arg
    # the working list and its length
    lst = [a for a in fn.body if isinstance(a, ast.Assign) and isinstance(a.targets[0], ast.Name) and unparse(a.value) in ('list(%s)' % kp, 'sorted(%s)' % kp)]
    lname = lst[0].targets[0].id if lst else kp
    rets = [r for r in walk_local(fn) if isinstance(r, ast.Return) and isinstance(r.value, ast.Tuple) and len(r.value.elts) == 2]
    if len(rets) != 1:
        raise AnalysisError('%s: return of (points, weights) not found' % q)
    kres, wres = [[n.id for n in ast.walk(e) if isinstance(n, ast.Name) and n.id not in ('np',)][-1] for e in rets[0].value.elts]
    # shell loop: for kmax in <boundaries>: ... slice [kmin:kmax] ... kmin = kmax
    shell = None
    for lp in [x for x in fn.body if isinstance(x, ast.For) and isinstance(x.target, ast.Name)]:
        inner = [y for y in lp.body if isinstance(y, ast.For) and isinstance(y.iter, ast.Subscript) and isinstance(y.iter.slice, ast.Slice)]
        if inner:
            shell, pts = lp, inner[0]
    if shell is None:
        raise AnalysisError('%s: loop over shells / points of a shell not found' % q)
    hi = shell.target.id
    sl = pts.iter.slice
    lo = unparse(sl.lower) if sl.lower is not None else None
    ok_slice = unparse(pts.iter.value) == lname and unparse(sl.upper) == hi and lo is not None
    adv = any(isinstance(s, ast.Assign) and unparse(s.targets[0]) == lo and unparse(s.value) == hi for s in shell.body[shell.body.index(pts) + 1:]) if lo else False
    start0 = any(isinstance(s, ast.Assign) and unparse(s.targets[0]) == lo and unparse(s.value) == '0' and s.lineno < shell.lineno for s in fn.body) if lo else False
    # the boundaries end with the number of points
    bname = unparse(shell.iter)
    nk = [a.targets[0].id for a in fn.body if isinstance(a, ast.Assign) and isinstance(a.targets[0], ast.Name) and unparse(a.value) in ('len(%s)' % lname, 'len(%s)' % kp)]
    last = any(isinstance(s, ast.Expr) and isinstance(s.value, ast.Call) and unparse(s.value.func) == bname + '.append'
               and unparse(s.value.args[0]) in nk + ['len(%s)' % lname] and s.lineno < shell.lineno for s in fn.body)
    ok = ok_slice and adv and start0 and last
    rep.ob('shells-tile', mod, shell, 'points %s[%s:%s], %s starts at 0 and becomes %s after each shell, boundaries end with the number of points'
           % (lname, lo, hi, lo, hi), ok, '' if ok else 'the shells do not tile the sorted list: some mesh points are never assigned a weight '
           '(or are counted in two shells), so the weights do not sum to one', engine='flow', qual=q)
    # base weight
    bw = [a for a in fn.body if isinstance(a, ast.Assign) and isinstance(a.targets[0], ast.Name) and isinstance(a.value, ast.BinOp) and isinstance(a.value.op, ast.Div)
          and unparse(a.value.left) in ('1', '1.0', '1.') and unparse(a.value.right) in nk + ['len(%s)' % lname, 'len(%s)' % kp]]
    if len(bw) != 1:
        rep.ob('weight-conservation', mod, fn, 'base weight = 1 / number of points', False, 'the base weight is not one over the number of '
               'points handed in: the weights do not sum to one', engine='flow', qual=q)
        return
    w0 = bw[0].targets[0].id
    rep.ob('weight-conservation', mod, bw[0], unparse(bw[0]), True, engine='flow', qual=q)
    # per point: exactly one of  W[i] += w0  (under a match)  or  W.append(w0) together with the representative
    pk = unparse(pts.target)
    incs = [s for s in ast.walk(pts) if update_of(s) and update_of(s)[1] == 'Add' and unparse(update_of(s)[2]) == w0]
    apps = [c for c in ast.walk(pts) if isinstance(c, ast.Call) and isinstance(c.func, ast.Attribute) and c.func.attr == 'append'
            and len(c.args) == 1 and unparse(c.args[0]) == w0]
    ok = len(incs) == 1 and len(apps) == 1
    wl = unparse(apps[0].func.value) if apps else '?'
    if ok:
        ok = update_of(incs[0])[0].startswith(wl + '[')
    rep.ob('weight-conservation', mod, pts, 'inside a shell: %s[i] += %s on a match, %s.append(%s) for a new representative' % (wl, w0, wl, w0), ok,
           '' if ok else 'a point of the mesh does not contribute exactly the base weight (once to an existing representative, or as the '
           'weight of a new one)', engine='flow', qual=q)
    if not ok:
        return
    # the two alternatives are exclusive and exhaustive: the append sits under "no match", the increment under the match test
    cinc = conditions_at(fn, incs[0])
    capp = conditions_at(fn, apps[0]._parent if isinstance(apps[0]._parent, ast.stmt) else apps[0])
    flag = [c for c in capp if c.startswith('not ')]
    set_true = False
    if flag:
        f = flag[0][4:]
        blk = getattr(incs[0], '_parent', None)
        sibs = getattr(blk, 'body', []) if blk is not None else []
        set_true = any(isinstance(s, ast.Assign) and unparse(s.targets[0]) == f and unparse(s.value) == 'True' for s in sibs)
        reset = any(isinstance(s, ast.Assign) and unparse(s.targets[0]) == f and unparse(s.value) == 'False' for s in pts.body)
        set_true = set_true and reset
    rep.ob('weight-conservation', mod, apps[0], 'new representative only when no orbit matched (%s), flag set where the weight is added' % (flag or sorted(capp)),
           bool(flag) and set_true, '' if flag and set_true else 'a point can both add to an existing representative and open a new one, or do '
           'neither: the weights do not sum to one', engine='flow', qual=q)
    # the representative and its orbit are recorded with the weight, and the shell lists extend the results
    rep_app = [c for c in ast.walk(pts) if isinstance(c, ast.Call) and isinstance(c.func, ast.Attribute) and c.func.attr == 'append'
               and len(c.args) == 1 and unparse(c.args[0]) == pk]
    kl = unparse(rep_app[0].func.value) if rep_app else '?'
    ext = {}
    for s in shell.body:
        u = update_of(s)
        if u and u[1] == 'Add':
            ext[u[0]] = unparse(u[2])
        elif isinstance(s, ast.Expr) and isinstance(s.value, ast.Call) and isinstance(s.value.func, ast.Attribute) \
                and s.value.func.attr == 'extend' and len(s.value.args) == 1:
            ext[unparse(s.value.func.value)] = unparse(s.value.args[0])
    ok = bool(rep_app) and ext.get(kres) == kl and ext.get(wres) == wl
    rep.ob('weight-conservation', mod, shell, 'results: %s += %s ; %s += %s' % (kres, kl, wres, wl), ok,
           '' if ok else 'the representatives / weights of a shell are not appended (together) to the lists that are returned', engine='flow', qual=q)
    # orbit: images under every operation of the group
    orb = [c for c in ast.walk(pts) if isinstance(c, ast.Call) and isinstance(c.func, ast.Attribute) and c.func.attr == 'append'
           and len(c.args) == 1 and isinstance(c.args[0], (ast.ListComp, ast.Call))]
    okg = False
    ol = None
    for c in orb:
        comp = c.args[0] if isinstance(c.args[0], ast.ListComp) else (c.args[0].args[0] if c.args[0].args and isinstance(c.args[0].args[0], (ast.ListComp, ast.GeneratorExp)) else None)
        if comp is None:
            continue
        g = comp.generators[0]
        if unparse(g.iter) == 'self.G' and not g.ifs and unparse(comp.elt) == 'self.g_direc(%s, %s)' % (unparse(g.target), pk):
            okg, ol = True, unparse(c.func.value)
    rep.ob('orbit-whole-group', mod, pts, 'orbit of a representative = [self.g_direc(g, k) for g in self.G]', okg,
           '' if okg else 'the orbit compared with is not the image of the representative under every operation of the group: '
           'symmetry-equivalent points stay separate (or inequivalent ones are merged)', engine='flow', qual=q)
    # the membership test: whatever condition holding where the weight is added relates the point to the tolerance
    eps = None
    for a in fn.body:
        if isinstance(a, ast.Assign) and isinstance(a.targets[0], ast.Name) and 'threshold' in unparse(a.value):
            eps = a.targets[0].id
    if eps is None:
        raise AnalysisError('%s: tolerance variable not found' % q)
    tests = [c for c in cinc if eps in c and pk in c]
    if not tests:
        raise AnalysisError('%s: no condition at the weight increment relates the point %s to the tolerance %s' % (q, pk, eps))
    tt = tests[0].replace(' ', '')
    squared = any(k in tt for k in ('**2', 'np.dot(', 'np.vdot(', 'np.inner(', 'np.square(', 'np.linalg.norm(')) and 'np.linalg.norm(' not in tt \
        or any(k in tt for k in ('**2', 'np.dot(', 'np.vdot(', 'np.inner(', 'np.square('))
    first = any(k in tt for k in ('abs(', 'np.isclose(', 'np.allclose(', 'np.linalg.norm(')) and not squared
    tol2 = ('<%s**2' % eps in tt) or ('<%s*%s' % (eps, eps) in tt) or ('<=%s**2' % eps in tt)
    tol1 = (('<%s' % eps in tt) or ('<=%s' % eps in tt) or ('atol=%s' % eps in tt)) and not tol2
    if not (first or squared) or not (tol1 or tol2):
        raise AnalysisError('%s: degree of the match test not recognised: %s' % (q, tests[0][:100]))
    okt = (first and tol1) or (squared and tol2)
    rep.ob('orbit-test-first-degree', mod, incs[0], 'match test: %s' % tests[0][:110], okt,
           '' if okt else 'the distance between a point and an image is not compared in the same degree as the tolerance (|dk| against eps, '
           'or |dk|^2 against eps^2): with a loose threshold inequivalent neighbouring points are merged', engine='flow', qual=q)


def _full(rep, mod, fn):
    q = 'Crystal.fullkptmesh'
    rets = [r for r in walk_local(fn) if isinstance(r, ast.Return) and r.value is not None]
    if not rets:
        raise AnalysisError('%s: return not found' % q)
    res = unparse(rets[-1].value)
    loops = [x for x in fn.body if isinstance(x, ast.For) and unparse(x.iter) == res]
    inner = [y for lp_ in loops for y in ast.walk(lp_) if isinstance(y, ast.For) and 'self.BZG' in unparse(resolve_local(fn, y.iter))
             and '[' not in unparse(resolve_local(fn, y.iter)).replace('self.BZG]', '').split('self.BZG', 1)[1][:1]]
    if not loops or not inner:
        # locate failed: on a restructured tree this is undecided, on the pinned tree it is a violation of the rule's shape
        if getattr(rep, 'strict', True):
            rep.ob('fold-every-point', mod, fn, 'for k in mesh: for G in self.BZG: fold', False, 'not every point of the mesh is folded with every '
                   'vector of the BZ list', engine='flow', qual=q)
        else:
            rep.undecided('%s: fold loop over every mesh point and every BZ vector not located' % q)
        return
    k = unparse(loops[0].target)
    gnames = [n.id for n in ast.walk(inner[0].target) if isinstance(n, ast.Name)]
    ok = False
    for st in ast.walk(inner[0]):
        u = update_of(st) if isinstance(st, (ast.Assign, ast.AugAssign)) else None
        if u and u[0] == k and u[1] == 'Sub' and any(unparse(u[2]).replace(' ', '') in ('2.0*%s' % g, '2*%s' % g, '%s*2.0' % g, '%s*2' % g, '2.*%s' % g) for g in gnames):
            ok = True
    rep.ob('fold-every-point', mod, loops[0], 'for k in mesh: for G in self.BZG: ... k -= 2 G (in place, every point, every vector)', ok,
           '' if ok else 'not every point of the mesh is folded with every vector of the BZ list', engine='flow', qual=q)


CR = 'onsager/crystal.py'
BREAKERS = [
    (CR, "                    wtlist.append(basewt)", "                    wtlist.append(0)", 'weight-conservation'),
    (CR, "        basewt = 1 / Nkpt", "        basewt = 1 / len(self.G)", 'weight-conservation'),
    (CR, "            wsym += wtlist\n            kmin = kmax", "            wsym += wtlist", 'shells-tile'),
    (CR, "                    symmcomplist.append([self.g_direc(g, k) for g in self.G])", "                    symmcomplist.append([self.g_direc(g, k) for g in self.pointG[0][0]])", 'orbit-whole-group'),
    (CR, "                    if any(np.all(abs(k - gk) < eps) for gk in symmcomp):", "                    if any(np.sum((k - gk)**2) < eps for gk in symmcomp):", 'orbit-test-first-degree'),
    (CR, "                        match = True\n                        continue", "                        continue", 'weight-conservation'),
    (CR, "                for G in self.BZG:\n                    if np.dot(k, G) > np.dot(G, G):\n                        k -= 2. * G",
     "                for G in self.BZG[:1]:\n                    if np.dot(k, G) > np.dot(G, G):\n                        k -= 2. * G", 'fold-every-point'),
]
NEUTRALS = [
    (CR, "        basewt = 1 / Nkpt", "        basewt = 1. / Nkpt"),
]
