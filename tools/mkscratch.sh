#!/bin/bash
# builds /tmp/nw/N* (neutral refactors) and /tmp/sw/<seed> (seeded changes) as plain copies of /repo's tracked tree + patch
mkdir -p /tmp/nw /tmp/sw
mk() { # dir patch
  [ -d "$1" ] && return
  mkdir -p "$1" && git -C /repo archive HEAD | tar -x -C "$1" && ( cd "$1" && patch -s -p1 < "$2" ) || echo "cannot build $1"
}
for d in /verif/neutral/N*; do mk /tmp/nw/$(basename $d) $d/refactor.diff; done
for d in /verif/seeded/C*; do mk /tmp/sw/$(basename $d) $d/patch.diff; done
