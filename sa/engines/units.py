"""
E20 -- scaling degree under a uniform rate scaling ("units" of rate), and the tests that are not scale free.

Multiplying every jump rate by s multiplies rate matrices, biases and transport coefficients by s (degree 1), their
inverses by 1/s (degree -1) and leaves probabilities, geometry and energies alone (degree 0).  A *test* that compares a
quantity of known non-zero degree with a pure number -- ``np.allclose(bias, 0)`` (absolute tolerance 1e-8),
``np.abs(w) > 1e-8``, ``np.isclose(omega, 1)`` -- changes its outcome when all rates are scaled, so the computed result
is not homogeneous in the rates: small rates (low temperature, another time unit) silently take the other branch.

The degree of an expression is inferred bottom-up (flow-insensitive environment, fixed point over the function's
assignments) from seeds supplied by the caller (which calls return rates).  Unknown degree => nothing is reported.
Interprocedural to a fixed depth through self-methods, module-level functions and lambdas stored on self.
"""
import ast
from fractions import Fraction

from ..model import dotted, unparse, walk_local

ANY = 'any'      # the zero constant / an empty accumulator: takes the degree of what it is combined with
SUM_FUNCS = {'dot', 'tensordot', 'outer', 'multiply', 'kron', 'matmul', 'inner', 'vdot'}
SAME_FUNCS = {'sum', 'trace', 'array', 'abs', 'absolute', 'max', 'min', 'amax', 'amin', 'mean', 'diag', 'real', 'imag', 'copy', 'asarray',
              'transpose', 'reshape', 'ravel', 'fabs', 'sort', 'sorted', 'negative', 'cumsum', 'triu', 'tril', 'squeeze', 'conj',
              'ascontiguousarray', 'float', 'list', 'tuple', 'zeroclean', 'flatten', 'diagonal', 'nanmax', 'nanmin', 'norm', 'average',
              'eigvalsh', 'eigvals', 'svdvals', 'stack', 'concatenate', 'hstack', 'vstack', 'append', 'round', 'around'}
ZERO_FUNCS = {'exp', 'log', 'cos', 'sin', 'len', 'range', 'int', 'ones', 'eye', 'identity', 'arange', 'sign', 'isclose', 'allclose', 'any', 'all',
              'argmax', 'argmin', 'argsort', 'shape', 'count_nonzero', 'enumerate', 'isnan', 'isfinite', 'where', 'nonzero', 'bool', 'finfo'}
ANY_FUNCS = {'zeros', 'empty', 'zeros_like', 'empty_like'}
INV_FUNCS = {'inv', 'pinv', 'pinv2', 'pinvh'}
METH_SAME = {'copy', 'sum', 'max', 'min', 'flatten', 'ravel', 'reshape', 'transpose', 'trace', 'mean', 'real', 'conj', 'diagonal', 'astype',
             'squeeze', 'tolist', 'dot_self'}


def combine(a, b):
    """degree of a + b (or of a value that may be a or b)."""
    if a == ANY:
        return b
    if b == ANY:
        return a
    if a is None or b is None:
        return None
    return a if a == b else None


def add(a, b, sign=1):
    """degree of a * b (sign=+1) or a / b (sign=-1)."""
    if a == ANY or (b == ANY and sign > 0):
        return ANY
    if a is None or b is None or b == ANY:
        return None
    return a + sign * b


class Site:
    def __init__(self, node, fn_qual, what, deg, chain):
        self.node, self.qual, self.what, self.deg, self.chain = node, fn_qual, what, deg, chain


class Analyzer:
    def __init__(self, model, module, cls=None, call_degrees=None, attr_degrees=None, depth=2):
        self.model, self.module, self.cls = model, module, cls
        self.call_degrees = call_degrees or {}    # 'self.ratelist' -> degree or tuple of degrees
        self.attr_degrees = attr_degrees if attr_degrees is not None else {}    # 'self.maxrate' -> degree
        self.depth = depth
        self.sites = []
        self.visited = set()

    # ------------------------------------------------------------------ one function
    def run(self, fn, qual, params=None, chain=(), depth=None):
        depth = self.depth if depth is None else depth
        key = (id(fn), tuple(sorted((params or {}).items(), key=str)))
        if key in self.visited:
            return None
        self.visited.add(key)
        env = dict(params or {})
        selfname = fn.args.args[0].arg if isinstance(fn, (ast.FunctionDef, ast.AsyncFunctionDef)) and fn.args.args and self.cls is not None \
            and fn.args.args[0].arg in ('self', 'cls') else '\0'
        body = fn.body if isinstance(fn.body, list) else [ast.Return(value=fn.body)]
        ctx = _Ctx(self, fn, qual, env, selfname, chain, depth)
        # defaults of parameters that were not supplied: constants are pure numbers
        if isinstance(fn, (ast.FunctionDef, ast.Lambda)):
            args = fn.args.args
            for a, d in zip(args[len(args) - len(fn.args.defaults):], fn.args.defaults):
                if a.arg not in env and isinstance(d, ast.Constant) and isinstance(d.value, (int, float)) and not isinstance(d.value, bool):
                    env[a.arg] = ANY if d.value == 0 else Fraction(0)
        for _ in range(4):
            before = dict(env)
            for st in body:
                ctx.stmt(st)
            if env == before:
                break
        ctx.report = True
        for st in body:
            ctx.stmt(st)
        return ctx.ret


class _Ctx:
    def __init__(self, an, fn, qual, env, selfname, chain, depth):
        self.an, self.fn, self.qual, self.env, self.s, self.chain, self.depth = an, fn, qual, env, selfname, chain, depth
        self.report = False
        self.ret = ANY
        self.conflict = set()

    # ---------------------------------------------------------------- statements
    def bind(self, target, d):
        if isinstance(target, ast.Name):
            if target.id in self.conflict:
                return
            old = self.env.get(target.id, ANY)
            new = combine(old, d)
            if new is None and old is not None and old != ANY and d is not None and d != ANY:
                self.conflict.add(target.id)
            self.env[target.id] = new
        elif isinstance(target, (ast.Tuple, ast.List)):
            if isinstance(d, tuple) and len(d) == len(target.elts):
                for t, x in zip(target.elts, d):
                    self.bind(t, x)
            else:
                for t in target.elts:
                    self.bind(t, d if not isinstance(d, tuple) else None)
        elif isinstance(target, ast.Subscript):
            self.bind(target.value, d if not isinstance(d, tuple) else None)
        elif isinstance(target, ast.Starred):
            self.bind(target.value, d)
        elif isinstance(target, ast.Attribute):
            k = unparse(target)
            if k.startswith(self.s + '.'):
                k = 'self.' + k[len(self.s) + 1:]
                self.env[k] = combine(self.env.get(k, ANY), d if not isinstance(d, tuple) else None)

    def stmt(self, st):
        if isinstance(st, ast.Assign):
            d = self.deg(st.value)
            if isinstance(st.value, ast.Tuple) and len(st.targets) == 1 and isinstance(st.targets[0], ast.Tuple) \
                    and len(st.value.elts) == len(st.targets[0].elts):
                d = tuple(self.deg(e) for e in st.value.elts)
            for t in st.targets:
                self.bind(t, d)
        elif isinstance(st, ast.AugAssign):
            d = self.deg(st.value)
            cur = self.deg(st.target)
            if isinstance(st.op, (ast.Add, ast.Sub)):
                self.bind(st.target, d)
            elif isinstance(st.op, (ast.Mult, ast.MatMult)):
                self._rebind(st.target, add(cur, d))
            elif isinstance(st.op, ast.Div):
                self._rebind(st.target, add(cur, d, -1))
        elif isinstance(st, ast.AnnAssign) and st.value is not None:
            self.bind(st.target, self.deg(st.value))
        elif isinstance(st, (ast.For, ast.AsyncFor)):
            self.bind(st.target, self.elem(st.iter))
            for x in st.body + st.orelse:
                self.stmt(x)
        elif isinstance(st, ast.While):
            self.deg(st.test)
            for x in st.body + st.orelse:
                self.stmt(x)
        elif isinstance(st, ast.If):
            self.deg(st.test)
            for x in st.body + st.orelse:
                self.stmt(x)
        elif isinstance(st, (ast.With, ast.AsyncWith)):
            for x in st.body:
                self.stmt(x)
        elif isinstance(st, ast.Try):
            for x in st.body + st.orelse + st.finalbody + [y for h in st.handlers for y in h.body]:
                self.stmt(x)
        elif isinstance(st, ast.Return):
            if st.value is not None:
                d = tuple(self.deg(e) for e in st.value.elts) if isinstance(st.value, ast.Tuple) else self.deg(st.value)
                if self.ret == ANY:
                    self.ret = d
                elif isinstance(d, tuple) or isinstance(self.ret, tuple):
                    self.ret = tuple(combine(a, b) for a, b in zip(d, self.ret)) if isinstance(d, tuple) and isinstance(self.ret, tuple) \
                        and len(d) == len(self.ret) else None
                else:
                    self.ret = combine(self.ret, d)
        elif isinstance(st, ast.Expr):
            self.deg(st.value)
        elif isinstance(st, (ast.Assert, ast.Raise)):
            for x in ast.iter_child_nodes(st):
                if isinstance(x, ast.expr):
                    self.deg(x)

    def _rebind(self, target, d):
        # a rescaling (x /= xmax) replaces the degree rather than joining it
        if isinstance(target, ast.Name):
            self.env[target.id] = d
        elif isinstance(target, ast.Attribute):
            k = unparse(target)
            if k.startswith(self.s + '.'):
                self.env['self.' + k[len(self.s) + 1:]] = d

    # ---------------------------------------------------------------- iteration
    def elem(self, it):
        """degree of the elements produced by iterating ``it`` (tuple for zip / enumerate / dict.items)."""
        if isinstance(it, ast.Call):
            f = (dotted(it.func) or '').split('.')[-1]
            if f == 'zip':
                return tuple(self.elem(a) for a in it.args)
            if f == 'enumerate' and it.args:
                return (Fraction(0), self.elem(it.args[0]))
            if f in ('range', 'count'):
                return Fraction(0)
            if f == 'items' and isinstance(it.func, ast.Attribute):
                return (None, self.deg(it.func.value))
            if f in ('reversed', 'sorted', 'list', 'tuple', 'iter') and it.args:
                return self.elem(it.args[0])
        d = self.deg(it)
        return d if not isinstance(d, tuple) else combine_all(d)

    # ---------------------------------------------------------------- expressions
    def deg(self, e):
        d = self._deg(e)
        return d

    def _deg(self, e):
        Z = Fraction(0)
        if isinstance(e, ast.Constant):
            if isinstance(e.value, bool) or not isinstance(e.value, (int, float, complex)):
                return Z
            return ANY if e.value == 0 else Z
        if isinstance(e, ast.Name):
            if e.id in self.env:
                return self.env[e.id]
            return None
        if isinstance(e, ast.Attribute):
            k = unparse(e)
            if k.startswith(self.s + '.'):
                k = 'self.' + k[len(self.s) + 1:]
            if k in self.env:
                return self.env[k]
            if k in self.an.attr_degrees:
                return self.an.attr_degrees[k]
            if e.attr in ('T', 'real', 'imag', 'flat'):
                return self._deg(e.value)
            if e.attr in ('shape', 'size', 'ndim', 'dtype'):
                return Z
            return None
        if isinstance(e, ast.Subscript):
            for x in (e.slice.elts if isinstance(e.slice, ast.Tuple) else [e.slice]):
                if not isinstance(x, (ast.Slice, ast.Constant, ast.Name)):
                    self._deg(x)      # a mask such as v[:, np.abs(w) > tol] holds a test
            d = self._deg(e.value)
            if isinstance(d, tuple):
                if isinstance(e.slice, ast.Constant) and isinstance(e.slice.value, int) and -len(d) <= e.slice.value < len(d):
                    return d[e.slice.value]
                return combine_all(d)
            return d
        if isinstance(e, ast.UnaryOp):
            if isinstance(e.op, ast.Not):
                self._deg(e.operand)
                return Z
            return self._deg(e.operand)
        if isinstance(e, ast.BinOp):
            a, b = self._deg(e.left), self._deg(e.right)
            a = combine_all(a) if isinstance(a, tuple) else a
            b = combine_all(b) if isinstance(b, tuple) else b
            if isinstance(e.op, (ast.Add, ast.Sub)):
                return combine(a, b)
            if isinstance(e.op, (ast.Mult, ast.MatMult)):
                return add(a, b)
            if isinstance(e.op, (ast.Div, ast.FloorDiv)):
                return add(a, b, -1)
            if isinstance(e.op, ast.Pow):
                if isinstance(e.right, ast.Constant) and isinstance(e.right.value, (int, float)) and a not in (None, ANY):
                    return a * Fraction(e.right.value).limit_denominator(8)
                return ANY if a == ANY else (Z if a == Z else None)
            if isinstance(e.op, ast.Mod):
                return a
            return None
        if isinstance(e, ast.BoolOp):
            for v in e.values:
                self._deg(v)
            return Z
        if isinstance(e, ast.Compare):
            self.compare(e)
            return Z
        if isinstance(e, ast.IfExp):
            self._deg(e.test)
            return combine(self._deg(e.body), self._deg(e.orelse))
        if isinstance(e, (ast.List, ast.Tuple, ast.Set)):
            ds = [self._deg(x) for x in e.elts]
            if isinstance(e, ast.Tuple):
                return tuple(ds)
            return combine_all(ds)
        if isinstance(e, (ast.ListComp, ast.GeneratorExp, ast.SetComp)):
            for g in e.generators:
                self.bind(g.target, self.elem(g.iter))
                for c in g.ifs:
                    self._deg(c)
            d = self._deg(e.elt)
            return combine_all(d) if isinstance(d, tuple) else d
        if isinstance(e, ast.DictComp):
            for g in e.generators:
                self.bind(g.target, self.elem(g.iter))
                for c in g.ifs:
                    self._deg(c)
            return self._deg(e.value)
        if isinstance(e, ast.Dict):
            return combine_all([self._deg(v) for v in e.values if v is not None])
        if isinstance(e, ast.Lambda):
            return None
        if isinstance(e, ast.Call):
            return self.call(e)
        if isinstance(e, ast.Starred):
            return self._deg(e.value)
        if isinstance(e, ast.NamedExpr):
            d = self._deg(e.value)
            self.bind(e.target, d)
            return d
        return None

    def call(self, c):
        Z = Fraction(0)
        name = dotted(c.func) or ''
        last = name.split('.')[-1]
        args = [self._deg(a) for a in c.args]
        flat = [combine_all(a) if isinstance(a, tuple) else a for a in args]
        kw = {k.arg: self._deg(k.value) for k in c.keywords if k.arg}
        key = name if not name.startswith(self.s + '.') else 'self.' + name[len(self.s) + 1:]
        if key in self.an.call_degrees:
            return self.an.call_degrees[key]
        if last in ('allclose', 'isclose') and len(c.args) >= 2:
            self.closeness(c, flat, kw)
            return Z
        if last in SUM_FUNCS and len(flat) >= 2:
            return add(flat[0], flat[1])
        if last == 'einsum':
            d = Z
            for x in flat[1:]:
                d = add(d, x)
            return d
        if last == 'sqrt' and flat:
            return flat[0] / 2 if flat[0] not in (None, ANY) else flat[0]
        if last in INV_FUNCS and flat:
            self.inner_tolerances(c, flat, kw)
            return -flat[0] if flat[0] not in (None, ANY) else None
        if last == 'solve' and len(flat) >= 2:
            return add(flat[1], flat[0], -1)
        if last in ('eigh', 'eig') and flat:
            return (flat[0], Z)
        if last == 'svd' and flat:
            return (Z, flat[0], Z)
        if last in ANY_FUNCS:
            return ANY
        if last in ZERO_FUNCS:
            return Z
        if last in ('min', 'max', 'sum', 'abs', 'float') and flat and isinstance(c.func, ast.Name):
            return combine_all(flat) if last in ('min', 'max') else flat[0]
        if last in SAME_FUNCS and flat and not (isinstance(c.func, ast.Attribute) and not _is_module(c.func.value)):
            return flat[0]
        if last == 'next' and flat:
            return combine_all(flat)
        if isinstance(c.func, ast.Attribute) and not _is_module(c.func.value):
            base = self._deg(c.func.value)
            if last in METH_SAME or last in SAME_FUNCS:
                return combine_all(base) if isinstance(base, tuple) else base
            if last == 'dot' and flat:
                return add(base, flat[0])
            if last in ('append', 'extend', 'add', 'insert') and flat and isinstance(c.func.value, (ast.Name, ast.Attribute)):
                self.bind(c.func.value, flat[-1])
                return Z
        # interprocedural
        return self.inter(c, name, args, kw)

    def inter(self, c, name, args, kw):
        if self.depth <= 0:
            return None
        an = self.an
        target = None
        tq = None
        cls = an.cls
        if name.startswith(self.s + '.') and name.count('.') == 1 and cls is not None:
            m = name.split('.')[1]
            owner, f = an.model.find_method(cls, m) if an.model is not None else (None, cls.methods.get(m))
            if f is not None:
                target, tq = f, '%s.%s' % (cls.name, m)
            else:
                # a callable stored on self: every lambda / function assigned to self.<m> in the class
                lam = []
                for meth in cls.methods.values():
                    for n in ast.walk(meth):
                        if isinstance(n, ast.Assign) and any(unparse(t) == 'self.' + m for t in n.targets) and isinstance(n.value, ast.Lambda):
                            lam.append(n.value)
                out = ANY
                for k, l in enumerate(lam):
                    r = self._enter(l, '%s.%s<lambda %d>' % (cls.name, m, k + 1), c, args, kw, skip_self=False)
                    out = combine(out, combine_all(r) if isinstance(r, tuple) else r)
                return out if lam else None
        elif '.' not in name and an.module is not None and name in an.module.functions:
            target, tq = an.module.functions[name], name
        if target is None:
            return None
        return self._enter(target, tq, c, args, kw, skip_self=bool(target.args.args and target.args.args[0].arg in ('self', 'cls')))

    def _enter(self, target, tq, c, args, kw, skip_self):
        names = [a.arg for a in target.args.args]
        if skip_self:
            names = names[1:]
        params = {}
        for n, d in zip(names, args):
            params[n] = combine_all(d) if isinstance(d, tuple) else d
        for k, d in kw.items():
            params[k] = combine_all(d) if isinstance(d, tuple) else d
        params = {k: v for k, v in params.items() if v is not None}
        sub_sites = len(self.an.sites)
        visited = set(self.an.visited)
        r = self.an.run(target, tq, params, chain=self.chain + ((self.qual, c),), depth=self.depth - 1)
        if not self.report:
            del self.an.sites[sub_sites:]
            self.an.visited = visited
        return r

    # ---------------------------------------------------------------- the tests
    def _site(self, node, what, d):
        if self.report:
            self.an.sites.append(Site(node, self.qual, what, d, self.chain))

    def closeness(self, c, flat, kw):
        a, b = flat[0], flat[1]
        consts = [isinstance(x, ast.Constant) or (isinstance(x, ast.UnaryOp) and isinstance(x.operand, ast.Constant)) for x in c.args[:2]]
        other = None
        if consts[1] and not consts[0]:
            other = a
        elif consts[0] and not consts[1]:
            other = b
        if other in (None, ANY) or other == 0:
            return
        atol = kw.get('atol')
        if len(c.args) >= 4:
            atol = flat[3]
        if atol is not None and atol != ANY and atol == other:
            return
        self._site(c, '%s compares a quantity of rate degree %s with the pure number %s (absolute tolerance%s)'
                   % (unparse(c)[:70], other, unparse(c.args[1] if consts[1] else c.args[0]), '' if atol is None else ' of another degree'), other)

    def compare(self, e):
        sides = [e.left] + list(e.comparators)
        degs = []
        for x in sides:
            d = self._deg(x)
            degs.append(combine_all(d) if isinstance(d, tuple) else d)
        for (x, dx), (y, dy), op in zip(zip(sides, degs), zip(sides[1:], degs[1:]), e.ops):
            if not isinstance(op, (ast.Lt, ast.LtE, ast.Gt, ast.GtE)):
                continue
            for (p, dp), (q, dq) in (((x, dx), (y, dy)), ((y, dy), (x, dx))):
                if dp not in (None, ANY) and dp != 0 and dq is not None and dq != ANY and dq == 0:
                    self._site(e, '%s orders a quantity of rate degree %s (%s) against a pure number (%s)'
                               % (unparse(e)[:70], dp, unparse(p)[:30], unparse(q)[:30]), dp)

    def inner_tolerances(self, c, flat, kw):
        """pinv(a, atol=..) / pinv(a, rcond-as-absolute ...): an absolute cut-off on singular values of a dimensional matrix"""
        if flat[0] in (None, ANY) or flat[0] == 0:
            return
        for k in c.keywords:
            if k.arg in ('atol', 'cond', 'tol') and kw.get(k.arg) is not None and kw.get(k.arg) != ANY and kw.get(k.arg) != flat[0]:
                self._site(c, '%s: absolute cut-off %s=%s on the singular values of a matrix of rate degree %s'
                           % (unparse(c)[:60], k.arg, unparse(k.value), flat[0]), flat[0])


def combine_all(ds):
    out = ANY
    for d in ds:
        if isinstance(d, tuple):
            d = combine_all(d)
        out = combine(out, d)
        if out is None:
            return None
    return out


def _is_module(e):
    return isinstance(e, ast.Name) and e.id in ('np', 'numpy', 'scipy', 'math', 'linalg', 'la', 'sp') or \
        (isinstance(e, ast.Attribute) and _is_module(e.value))
