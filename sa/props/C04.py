"""
C04 -- results are invariant under reference choices and scale with rates (structural clauses).

Decided with the reference-class algebra (engine ``balance``):
  * every Boltzmann factor in the interstitial, Green-function and vacancy-mediated rate/probability routines has
    an argument of class zero: it is a difference of free energies referred to the same zero, so shifting all
    energies of a species and its transition states by a constant cannot change it;
  * arrays handed from Lij to _symmetricandescaperates and to the Green-function key have the reference class the
    callee documents; element-wise in-place additions only add class-zero (excess) quantities;
  * preene2betafree returns fully referenced arrays: each array is shifted by exactly the minima of the species it
    is referred to; makeLIMBpreene produces transition-state energies of the documented class;
  * prefactor expressions of the interstitial / Green-function rates have scaling degree zero under a joint scaling
    of site and transition prefactors;
  * the bias solvers contain no absolute tolerance (which would break the linear scaling with the rates) and both
    branches return the same sign.
Not decided: kT co-scaling, displacement invariance, exact linear scaling of the results (numerical).
"""
import ast
from fractions import Fraction as F

from ..model import AnalysisError, dotted, unparse, walk_local
from ..engines.balance import ClassEval, DegreeEval, exp_calls, vadd, vscale

Z1 = (F(0),)
ONE1 = (F(1),)
V, S, VS, Z2 = (F(1), F(0)), (F(0), F(1)), (F(1), F(1)), (F(0), F(0))

# documented reference classes (docstrings of Lij / _symmetricandescaperates / preene2betafree)
VM_PARAMS = {
    'Lij': {'bFV': V, 'bFS': S, 'bFSV': Z2, 'bFT0': V, 'bFT1': VS, 'bFT2': VS},
    '_symmetricandescaperates': {'bFV': V, 'bFSVkinetic': VS, 'bFT0': V, 'bFT1': VS, 'bFT2': VS},
    'preene2betafree': {'eneV': V, 'eneS': S, 'eneSV': Z2, 'eneT0': V, 'eneT1': VS, 'eneT2': VS},
    'makeLIMBpreene': {'eneS': S, 'eneSV': Z2, 'eneT0': V},
}
LIMB_OUT = {'eneT1': VS, 'eneT2': VS}
SINGLE = {'betaene': ONE1, 'betaeneT': ONE1}
DEG = {'pre': F(1), 'preT': F(1), 'self.SEjumps': F(0)}


class Walker:
    """statement walk that keeps the class environment and reports every exp() with the class of its argument."""

    def __init__(self, env, dim, scalars=()):
        self.ev = ClassEval(env, dim)
        self.scalars = set(scalars)
        self.exps = []  # (call node, class or None)
        self.inplace = []  # (node, class of addend)
        self.calls = []  # (call node, [arg classes])

    def expr(self, e, ev=None):
        ev = ev or self.ev
        if isinstance(e, (ast.ListComp, ast.GeneratorExp, ast.SetComp)):
            sub = ClassEval(ev.env, len(ev.zero))
            for g in e.generators:
                self.expr(g.iter, ev)
                sub.bind(g.target, g.iter)
            self.expr(e.elt, sub)
            return
        if isinstance(e, ast.Call):
            d = (dotted(e.func) or '').split('.')[-1]
            if d == 'exp' and e.args:
                self.exps.append((e, ev.cls(e.args[0])))
            self.calls.append((e, [ev.cls(a) for a in e.args], {k.arg: ev.cls(k.value) for k in e.keywords if k.arg}))
        for c in ast.iter_child_nodes(e):
            if isinstance(c, ast.expr):
                self.expr(c, ev)
            elif isinstance(c, ast.keyword):
                self.expr(c.value, ev)

    def block(self, stmts):
        for st in stmts:
            if isinstance(st, ast.Assign):
                self.expr(st.value)
                pairs = []
                t = st.targets[0]
                if isinstance(t, ast.Tuple) and isinstance(st.value, ast.Tuple) and len(t.elts) == len(st.value.elts):
                    pairs = list(zip(t.elts, st.value.elts))
                else:
                    pairs = [(t, st.value)]
                for tt, vv in pairs:
                    if isinstance(tt, ast.Name):
                        if self._scalar(vv):
                            self.scalars.add(tt.id)
                        self.ev.env[tt.id] = self._cls(vv)
            elif isinstance(st, ast.AugAssign):
                self.expr(st.value)
                c = self._cls(st.value)
                if isinstance(st.target, ast.Name) and isinstance(st.op, (ast.Add, ast.Sub)):
                    old = self.ev.env.get(st.target.id)
                    self.ev.env[st.target.id] = None if old is None or c is None else vadd(old, c, 1 if isinstance(st.op, ast.Add) else -1)
                elif isinstance(st.target, ast.Subscript) and isinstance(st.op, (ast.Add, ast.Sub)):
                    self.inplace.append((st, c))
            elif isinstance(st, (ast.For,)):
                self.expr(st.iter)
                self.ev.bind(st.target, st.iter)
                self.block(st.body)
            elif isinstance(st, ast.If):
                self.expr(st.test)
                self.block(st.body)
                self.block(st.orelse)
            elif isinstance(st, ast.Return) and st.value is not None:
                self.expr(st.value)
                self.ret = st
            elif isinstance(st, ast.Expr):
                self.expr(st.value)

    def _scalar(self, e):
        """a positive scalar built from the temperature only (1 / kT, beta ...): multiplying by it keeps the class."""
        names = {n.id for n in ast.walk(e) if isinstance(n, ast.Name)}
        return bool(names) and names <= self.scalars and not any(isinstance(n, (ast.Call, ast.Subscript, ast.Attribute)) for n in ast.walk(e))

    def _cls(self, e):
        # beta * x : positive scalar factor keeps the reference class; np.log(pre) does not move with references
        if isinstance(e, ast.BinOp) and isinstance(e.op, ast.Mult):
            for a, b in ((e.left, e.right), (e.right, e.left)):
                if self._scalar(a):
                    return self._cls(b)
        if isinstance(e, ast.BinOp) and isinstance(e.op, ast.Div) and self._scalar(e.right):
            return self._cls(e.left)
        if isinstance(e, ast.BinOp) and isinstance(e.op, (ast.Add, ast.Sub)):
            a, b = self._cls(e.left), self._cls(e.right)
            if a is None or b is None:
                return None
            return vadd(a, b, 1 if isinstance(e.op, ast.Add) else -1)
        if isinstance(e, ast.Call) and (dotted(e.func) or '').split('.')[-1] in ('log', 'ones', 'ones_like', 'zeros', 'zeros_like'):
            return self.ev.zero
        return self.ev.cls(e)


def run(model, rep, tier):
    rep.explanation = __doc__.strip()
    from ._common import caches_for
    caches_for(model, rep, 'C04')
    from ._common import scale_free_tests
    scale_free_tests(model, rep)
    from ._common import inverse_map_placed
    inverse_map_placed(model, rep, [('OnsagerCalc', 'Interstitial', '__init__', 'invmap'), ('OnsagerCalc', 'VacancyMediated', '__init__', 'invmap')])
    rep.not_decided = 'kT co-scaling, displacement invariance and exact proportionality to the rates (numerical)'
    rep.rule('boltzmann-balanced', 'the argument of every np.exp has zero net weight in every reference class')
    rep.rule('class-of-argument', 'arrays passed on have the reference class the callee documents; partial in-place additions are class-zero')
    rep.rule('fully-referenced-output', 'preene2betafree returns class-zero arrays; LIMB transition energies have the documented class')
    rep.rule('prefactor-degree', 'rate expressions have scaling degree 0 under a joint scaling of prefactors')
    rep.rule('scale-homogeneous-solver', 'bias solvers carry no absolute tolerance and agree in sign')
    nexp = 0
    oc = model.mod('OnsagerCalc')
    # ---- single-species routines
    single = [('OnsagerCalc', 'Interstitial.siteprob'), ('OnsagerCalc', 'Interstitial.ratelist'),
              ('OnsagerCalc', 'Interstitial.symmratelist'), ('GFcalc', 'GFCrystalcalc.SymmRates'),
              ('GFcalc', 'GFCrystalcalc.SetRates')]
    for mname, q in single:
        mod = model.mod(mname)
        fn = model.func(mname, q)
        w = Walker(SINGLE, 1)
        w.block(fn.body)
        nexp += _report_exps(rep, mod, q, w)
        # degree of the rate expressions
        _degrees(rep, mod, q, fn)
    # ---- energy factors in the derivative block of Interstitial.diffusivity
    rep.rule('energy-factors-class-zero', 'an additive energy expression that multiplies a rate is a difference of energies (class zero)')
    for q in ('Interstitial.diffusivity',):
        mod = model.mod('OnsagerCalc')
        fn = model.func('OnsagerCalc', q)
        w = Walker(SINGLE, 1)
        w.block(fn.body)
        nfac = 0
        seen = set()
        for n in walk_local(fn):
            if not (isinstance(n, ast.BinOp) and isinstance(n.op, ast.Mult)):
                continue
            for side, other in ((n.left, n.right), (n.right, n.left)):
                if isinstance(other, ast.Constant):
                    continue      # a numerical coefficient inside a larger linear form
                if isinstance(side, ast.BinOp) and isinstance(side.op, (ast.Add, ast.Sub)) and id(side) not in seen:
                    seen.add(id(side))
                    c = w._cls(side)
                    if c is None:
                        continue
                    # only expressions that involve an energy at all
                    if not any(w.ev.cls(x) not in (None, w.ev.zero) for x in ast.walk(side) if isinstance(x, (ast.Name, ast.Subscript))):
                        continue
                    nfac += 1
                    ok = all(x == 0 for x in c)
                    rep.ob('energy-factors-class-zero', mod, side, '%s: factor (%s) has class %s' % (q, unparse(side)[:60], _fmt(c)), ok,
                           '' if ok else 'the factor moves when every site and transition-state energy is shifted by the same constant, so '
                           'the derivative output changes under a shift that leaves all rates unchanged (one term is referred to the '
                           'lowest site energy, the other is absolute)', engine='balance', qual=q)
        if nfac == 0:
            rep.undecided('%s: no energy factor of a rate was located' % q)
    # ---- vacancy-mediated
    ci = model.cls('OnsagerCalc', 'VacancyMediated')
    for name in ('_symmetricandescaperates', 'Lij'):
        fn = ci.methods.get(name)
        if fn is None:
            raise AnalysisError('anchor vanished: VacancyMediated.%s' % name)
        w = Walker(VM_PARAMS[name], 2)
        w.block(fn.body)
        nexp += _report_exps(rep, oc, 'VacancyMediated.' + name, w)
        for st, c in w.inplace:
            if c is None:
                continue
            ok = all(x == 0 for x in c)
            rep.ob('class-of-argument', oc, st, '%s: %s adds class %s' % (name, unparse(st)[:70], _fmt(c)), ok,
                   '' if ok else 'only some entries of the array receive a quantity that moves with a reference energy: the '
                                 'entries end up referred to different zeros', engine='balance', qual='VacancyMediated.' + name)
        if name == 'Lij':
            for call, args, kws in w.calls:
                f = unparse(call.func)
                if f == 'self._symmetricandescaperates':
                    want = list(VM_PARAMS['_symmetricandescaperates'].items())
                    for (p, wc), a, c in zip(want, call.args, args):
                        if c is None:
                            raise AnalysisError('Lij: reference class of argument %s not resolved' % unparse(a))
                        rep.ob('class-of-argument', oc, a, 'Lij passes %s (class %s) as %s (documented %s)' % (unparse(a), _fmt(c), p, _fmt(wc)),
                               c == wc, '' if c == wc else 'the array is referred to another zero than the callee assumes: '
                                                           'Boltzmann factors built from it are not reference-invariant',
                               engine='balance', qual='VacancyMediated.Lij')
                if f == 'vacancyThermoKinetics':
                    a, b = kws.get('betaene'), kws.get('betaeneT')
                    ok = a is not None and a == b
                    rep.ob('class-of-argument', oc, call, 'Green-function key: betaene class %s, betaeneT class %s' % (_fmt(a), _fmt(b)), ok,
                           '' if ok else 'site and transition-state energies given to the Green function are referred to different zeros',
                           engine='balance', qual='VacancyMediated.Lij')
    rep.floor('Boltzmann factors analysed', nexp, 14)
    # ---- preene2betafree
    fn = ci.methods.get('preene2betafree')
    if fn is None:
        raise AnalysisError('anchor vanished: VacancyMediated.preene2betafree')
    w = Walker(VM_PARAMS['preene2betafree'], 2, scalars={'kT'})
    w.block(fn.body)
    ret = getattr(w, 'ret', None)
    if ret is None or not isinstance(ret.value, ast.Tuple):
        raise AnalysisError('preene2betafree: tuple return not found')
    for e in ret.value.elts:
        c = w._cls(e)
        if c is None:
            raise AnalysisError('preene2betafree: class of %s not resolved' % unparse(e))
        ok = all(x == 0 for x in c)
        rep.ob('fully-referenced-output', oc, ret, 'preene2betafree returns %s with residual class %s' % (unparse(e), _fmt(c)), ok,
               '' if ok else '%s is not shifted by exactly the minima of the species it is referred to: results depend on '
                             'the zero of energy' % unparse(e), engine='balance', qual='VacancyMediated.preene2betafree')
    limb_classes(model, rep, oc, ci)
    _solver(model, rep)



def limb_classes(model, rep, oc, ci):
    """reference classes of the back-filled (LIMB) transition-state energies (shared with C07)."""
    # ---- LIMB
    fn = ci.methods.get('makeLIMBpreene')
    w = Walker(VM_PARAMS['makeLIMBpreene'], 2)
    # walk while recording classes of subscript assignments; the local behind each returned key is read off the
    # returned dictionary (never assumed to be called like the key)
    outs = {}
    rets = [n for n in walk_local(fn) if isinstance(n, ast.Return) and isinstance(n.value, ast.Dict)]
    if len(rets) != 1:
        raise AnalysisError('makeLIMBpreene: dictionary return not found')
    key_of = {v.id: k.value for k, v in zip(rets[0].value.keys, rets[0].value.values)
              if isinstance(k, ast.Constant) and isinstance(v, ast.Name)}

    def limb(stmts):
        for st in stmts:
            if isinstance(st, ast.For):
                w.ev.bind(st.target, st.iter)
                limb(st.body)
            elif isinstance(st, ast.Assign):
                t = st.targets[0]
                if isinstance(t, ast.Name):
                    w.ev.env[t.id] = w._cls(st.value)
                elif isinstance(t, ast.Subscript) and isinstance(t.value, ast.Name) and key_of.get(t.value.id) in LIMB_OUT:
                    outs[key_of[t.value.id]] = (st, w._cls(st.value))
            elif isinstance(st, ast.AugAssign) and isinstance(st.target, ast.Subscript) and isinstance(st.target.value, ast.Name):
                c = w._cls(st.value)
                nm = st.target.value.id
                old = w.ev.env.get(nm)
                if isinstance(st.op, (ast.Add, ast.Sub)) and c is not None and old is not None and any(x != 0 for x in c):
                    rep.ob('class-of-argument', oc, st, 'makeLIMBpreene: %s' % unparse(st), False,
                           'partial in-place addition of a reference-dependent quantity', engine='balance',
                           qual='VacancyMediated.makeLIMBpreene')
    limb(fn.body)
    for k, want in LIMB_OUT.items():
        if k not in outs or outs[k][1] is None:
            raise AnalysisError('makeLIMBpreene: class of %s not resolved' % k)
        st, c = outs[k]
        rep.ob('fully-referenced-output', oc, st, 'makeLIMBpreene: %s has class %s (documented %s)' % (unparse(st)[:80], _fmt(c), _fmt(want)),
               c == want, '' if c == want else 'back-filled transition state is not referred to vacancy + solute as documented',
               engine='balance', qual='VacancyMediated.makeLIMBpreene')

def _fmt(c):
    return 'unknown' if c is None else '(' + ','.join(str(x) for x in c) + ')'


def _report_exps(rep, mod, q, w):
    n = 0
    for call, c in w.exps:
        n += 1
        if c is None:
            raise AnalysisError('%s: reference class of %s not resolved' % (q, unparse(call)))
        ok = all(x == 0 for x in c)
        rep.ob('boltzmann-balanced', mod, call, '%s: %s  net %s' % (q, unparse(call), _fmt(c)), ok,
               '' if ok else 'the exponent is not a difference of free energies referred to the same zero: shifting the '
                             'reference energy changes the result', engine='balance', qual=q)
    return n


def _degrees(rep, mod, q, fn):
    ev = DegreeEval(DEG)
    # derived arrays
    for n in walk_local(fn):
        if isinstance(n, ast.Assign) and isinstance(n.targets[0], ast.Name):
            v = n.value
            if isinstance(v, ast.Call) and v.args and isinstance(v.args[0], ast.ListComp):
                d = ev.deg(v.args[0].elt)
                if d is not None:
                    ev.env[n.targets[0].id] = d

    def elts(e, env):
        """innermost comprehension elements with loop bindings (zip distributes degrees)."""
        if isinstance(e, (ast.ListComp, ast.GeneratorExp)):
            sub = DegreeEval(env.env)
            for g in e.generators:
                it = g.iter
                if isinstance(it, ast.Call) and dotted(it.func) == 'zip' and isinstance(g.target, ast.Tuple):
                    for t, a in zip(g.target.elts, it.args):
                        if isinstance(t, ast.Name):
                            sub.env[t.id] = env.deg(a)
            yield from elts(e.elt, sub)
            return
        has = False
        for c in ast.iter_child_nodes(e):
            if isinstance(c, ast.expr):
                for x in elts(c, env) if any(isinstance(y, (ast.ListComp, ast.GeneratorExp)) for y in ast.walk(c)) else []:
                    has = True
                    yield x
        if not has and exp_calls(e):
            yield e, env

    for st in walk_local(fn):
        if isinstance(st, (ast.Return, ast.Assign)) and st.value is not None and exp_calls(st.value):
            for e, env in elts(st.value, ev):
                d = env.deg(e)
                if d is None:
                    continue
                rep.ob('prefactor-degree', mod, e, '%s: %s  degree %s' % (q, unparse(e)[:90], d), d in (0, 1) and _deg_ok(q, d),
                       '' if _deg_ok(q, d) else 'scaling all prefactors together changes this rate/probability by a power %s' % d,
                       engine='balance', qual=q)


def _deg_ok(q, d):
    # unnormalised site probabilities carry degree 1 and are normalised by their sum afterwards
    return d == 0 or (q.endswith('siteprob') and d == 1)


def _solver(model, rep):
    mod = model.mod('OnsagerCalc')
    init = model.func('OnsagerCalc', 'Interstitial.__init__')
    lambdas = [n for n in walk_local(init) if isinstance(n, ast.Assign) and unparse(n.targets[0]) == 'self.bias_solver']
    if len(lambdas) != 2 or not all(isinstance(n.value, ast.Lambda) for n in lambdas):
        raise AnalysisError('Interstitial.__init__: the two bias_solver branches were not found')
    signs = []
    for n in lambdas:
        body = n.value.body
        neg = sum(1 for x in ast.walk(body) if isinstance(x, ast.UnaryOp) and isinstance(x.op, ast.USub))
        signs.append(neg % 2)
        bad = [k.arg for c in ast.walk(body) if isinstance(c, ast.Call) for k in c.keywords
               if k.arg in ('atol', 'tol', 'cond', 'eps')]
        rep.ob('scale-homogeneous-solver', mod, n, unparse(n)[:110], not bad,
               '' if not bad else 'absolute tolerance %s in the solver: multiplying every rate by a factor no longer multiplies '
                                  'the result by that factor (small rates are cut off)' % bad, engine='balance',
               qual='Interstitial.__init__')
    ok = signs[0] == signs[1]
    rep.ob('scale-homogeneous-solver', mod, lambdas[0], 'solve branch and pinv branch return the same sign', ok,
           '' if ok else 'the two solver branches differ by a sign', engine='balance', qual='Interstitial.__init__')
    # branch selection
    par = getattr(lambdas[0], '_parent', None)
    ok = isinstance(par, ast.If) and unparse(par.test) == 'self.omega_invertible' and 'solve(' in unparse(par.body[0]) \
        and 'pinv(' in unparse(par.orelse[0])
    rep.ob('scale-homogeneous-solver', mod, par or init, 'invertible -> solve ; otherwise -> pinv', ok,
           '' if ok else 'a singular projected rate matrix would be handed to solve()', engine='balance',
           qual='Interstitial.__init__')


OC = 'onsager/OnsagerCalc.py'
BREAKERS = [
    (OC, "return [[pT * np.exp(siteene[i] - beT) / sitepre[i]", "return [[pT * np.exp(-beT) / sitepre[i]", 'boltzmann-balanced'),
    (OC, "bFT1 -= bFVmin + bFSmin", "bFT1 -= bFVmin", 'fully-referenced-output'),
    (OC, "omega0escape[v1, j] = np.exp(-bF + bFV[v1])", "omega0escape[v1, j] = np.exp(-bF)", 'boltzmann-balanced'),
    (OC, "bFSVkin = np.array([bFS[s] + bFV[v] for (s, v) in self.kineticsvWyckoff])", "bFSVkin = np.array([bFS[s] for (s, v) in self.kineticsvWyckoff])",
     'class-of-argument'),
    (OC, "prob[kindex] *= np.exp(-bFSV[tindex])", "prob[kindex] *= np.exp(-bFSVkin[kindex])", 'boltzmann-balanced'),
    (OC, "self.bias_solver = lambda omega, b: np.dot(pinv(omega), b)", "self.bias_solver = lambda omega, b: np.dot(pinv(omega, atol=1e-8), b)",
     'scale-homogeneous-solver'),
    (OC, "eneT1[j] = eneT0[jt] + 0.5 * (eneSVkin[SP[0]] + eneSVkin[SP[1]])", "eneT1[j] = eneT0[jt] + (eneSVkin[SP[0]] + eneSVkin[SP[1]])",
     'fully-referenced-output'),
]
NEUTRALS = [
    (OC, "omega0escape[v1, j] = np.exp(-bF + bFV[v1])", "omega0escape[v1, j] = np.exp(bFV[v1] - bF)"),
    (OC, "bFT1 -= bFVmin + bFSmin", "bFT1 -= bFSmin\n        bFT1 -= bFVmin"),
]
