"""
E17 -- index-family ("axis") typing: an abstract interpretation of function bodies over a small type
language in which every integer index, every length and every array / list axis carries the *family* it
ranges over (site, Wyckoff set, state of a star set, star, vector star, omega-K jump, Cartesian component ...).

    Int(F)      an index into family F              Size(F)   the number of members of F
    Seq(F, E)   a list / array whose leading axis is indexed by F (None = positional / unknown), elements E
    Tup(...)    a fixed tuple                       Obj(C, t) an instance of repository class C; ``t`` tags
                                                              the instance so that e.g. thermo and kinetic
                                                              star sets have distinct state / star families
    PS          a PairState                         Dict(K,V) NUM (a number)  TOP (unknown)  BOT (no value yet)

The families of attributes, parameters and returns of the repository's classes are a frozen table (the
``SCHEMA`` passed in, confirmed by reading the code and its own comments); everything else is inferred from
how values are built: ``range(len(x))``, ``enumerate``, ``zip(itertools.count(), ...)``, comprehensions,
``np.zeros((n, m))``, fancy indexing, ``np.dot``, broadcasting, ``.T`` ...

An obligation is recorded only where *both* sides are known; a violation is a definite clash of two known,
different families (unknown never alarms):
    axis-subscript    A[i]: the family of i is the family of the axis it indexes
    axis-compare      ==, !=, <, in: both operands range over the same family
    axis-elementwise  a + b, a * b, a += b on arrays: aligned (broadcast) axes have the same family
    axis-contract     np.dot(a, b) contracts two axes of the same family
    axis-zip          zip(a, b, ...) pairs sequences over the same family
    axis-arith        i + n / i - n on indices / sizes stays within one family
    axis-schema       values stored in attributes, passed as arguments, returned: agree with the table

Flow-sensitive on straight-line code; at merges types are joined (differing -> unknown); loops are run to a
two-pass fix point.  Nothing is executed.
"""
import ast

from ..model import AnalysisError, dotted, unparse

TOP = ('top',)
NUM = ('num',)
BOT = ('bot',)
PS = ('ps',)
COUNT = ('count',)


def Int(f): return ('int', f)
def Size(f): return ('size', f)
def Seq(f, e): return ('seq', f, e)
def Tup(ts): return ('tup', tuple(ts))
def Obj(c, t): return ('obj', c, t)
def Dict(k, v): return ('dict', k, v)


def known(f):
    return f is not None and not f.startswith('?') and not f.endswith(':?') and ':?' not in f


def clash(f, g):
    return known(f) and known(g) and f != g


def kind(t):
    return t[0]


def show(t):
    k = t[0]
    if k == 'int': return str(t[1] or '?')
    if k == 'size': return '#' + str(t[1] or '?')
    if k == 'seq': return '[%s]%s' % (t[1] or '*', show(t[2]))
    if k == 'tup': return '(' + ','.join(show(x) for x in t[1]) + ')'
    if k == 'obj': return 'obj:%s:%s' % (t[1], t[2])
    if k == 'dict': return '{%s:%s}' % (show(t[1]), show(t[2]))
    if k == 'meth': return 'meth:%s.%s' % (show(t[1]), t[2])
    return k


# ------------------------------------------------------------------ type DSL
def parse_type(s):
    s = s.replace(' ', '')
    t, rest = _ptype(s)
    if rest:
        raise ValueError('trailing text in type %r: %r' % (s, rest))
    return t


def _pfam(s):
    n = 0
    while n < len(s) and (s[n].isalnum() or s[n] in '_:@?~*'):
        n += 1
    return s[:n], s[n:]


def _ptype(s):
    if s.startswith('['):
        f, rest = _pfam(s[1:])
        assert rest.startswith(']'), s
        e, rest = _ptype(rest[1:])
        return Seq(None if f == '*' else f, e), rest
    if s.startswith('('):
        ts = []
        rest = s[1:]
        while True:
            t, rest = _ptype(rest)
            ts.append(t)
            if rest.startswith(','):
                rest = rest[1:]
                continue
            assert rest.startswith(')'), s
            return Tup(ts), rest[1:]
    if s.startswith('{'):
        k, rest = _ptype(s[1:])
        assert rest.startswith('='), s
        v, rest = _ptype(rest[1:])
        assert rest.startswith('}'), s
        return Dict(k, v), rest[1:]
    if s.startswith('#'):
        f, rest = _pfam(s[1:])
        return Size(f), rest
    if s.startswith('obj:'):
        body, rest = _pfam(s[4:])
        c, _, tag = body.partition(':')
        return Obj(c, tag or '?'), rest
    f, rest = _pfam(s)
    if f == 'num': return NUM, rest
    if f == 'top': return TOP, rest
    if f == 'PS': return PS, rest
    if not f:
        raise ValueError('cannot parse type at %r' % s)
    return Int(f), rest


def subst_tag(t, tag, rigid=False):
    """instantiate '@' with an instance tag; with ``rigid`` also turn generic '?x' families into rigid '~x'."""
    def fam(f):
        if f is None: return None
        f = f.replace('@', tag)
        if rigid and f.startswith('?'):
            f = '~' + f[1:]
        return f
    k = t[0]
    if k in ('int', 'size'): return (k, fam(t[1]))
    if k == 'seq': return Seq(fam(t[1]), subst_tag(t[2], tag, rigid))
    if k == 'tup': return Tup(subst_tag(x, tag, rigid) for x in t[1])
    if k == 'obj': return Obj(t[1], fam(t[2]))
    if k == 'dict': return Dict(subst_tag(t[1], tag, rigid), subst_tag(t[2], tag, rigid))
    return t


def subst_generic(t, sub):
    def fam(f):
        if f is not None and f.startswith('?'):
            return sub.get(f)
        return f
    k = t[0]
    if k in ('int', 'size'): return (k, fam(t[1]))
    if k == 'seq': return Seq(fam(t[1]), subst_generic(t[2], sub))
    if k == 'tup': return Tup(subst_generic(x, sub) for x in t[1])
    if k == 'dict': return Dict(subst_generic(t[1], sub), subst_generic(t[2], sub))
    return t


# ------------------------------------------------------------------ lattice
def join(a, b):
    if a == b: return a
    if a == BOT: return b
    if b == BOT: return a
    ka, kb = a[0], b[0]
    if ka == kb:
        if ka in ('int', 'size'):
            return (ka, None)
        if ka == 'seq':
            return Seq(a[1] if a[1] == b[1] else None, join(a[2], b[2]))
        if ka == 'tup' and len(a[1]) == len(b[1]):
            return Tup(join(x, y) for x, y in zip(a[1], b[1]))
        if ka == 'obj' and a[1] == b[1]:
            return Obj(a[1], '?')
        if ka == 'dict':
            return Dict(join(a[1], b[1]), join(a[2], b[2]))
    if {ka, kb} == {'int', 'num'}:
        return NUM
    return TOP


def join_env(e1, e2):
    out = dict(e1)
    for k, v in e2.items():
        out[k] = join(out[k], v) if k in out else v
    return out


def axes(t):
    """(list of axis families, terminal element type) of a nested Seq."""
    fs = []
    while t[0] == 'seq':
        fs.append(t[1])
        t = t[2]
    return fs, t


def build(fs, e):
    for f in reversed(fs):
        e = Seq(f, e)
    return e


def depth_known(t):
    return axes(t)[1][0] in ('num', 'int', 'size')


def compat(d, t, sub=None, path=''):
    """clashes between a declared type ``d`` and an inferred type ``t``; binds generic families in ``sub``."""
    out = []

    def fam(fd, ft, what):
        if fd is not None and fd.startswith('?') and sub is not None:
            if fd in sub:
                fd = sub[fd]
            else:
                if known(ft):
                    sub[fd] = ft
                return
        if clash(fd, ft):
            out.append('%s%s: %s expected, %s found' % (path, what, fd, ft))

    kd, kt = d[0], t[0]
    if kd in ('top', 'bot') or kt in ('top', 'bot'):
        return out
    if kd in ('int', 'size') and kt == kd:
        fam(d[1], t[1], '')
    elif kd == 'seq' and kt == 'seq':
        fam(d[1], t[1], ' axis')
        out += compat(d[2], t[2], sub, path + '[]')
    elif kd == 'tup' and kt == 'tup':
        if len(d[1]) != len(t[1]):
            out.append('%s: tuple of %d expected, tuple of %d found' % (path, len(d[1]), len(t[1])))
        else:
            for n, (x, y) in enumerate(zip(d[1], t[1])):
                out += compat(x, y, sub, path + '.%d' % n)
    elif kd == 'seq' and kt == 'tup':
        for n, y in enumerate(t[1]):
            out += compat(d[2], y, sub, path + '.%d' % n)
    elif kd == 'tup' and kt == 'seq':
        for n, x in enumerate(d[1]):
            out += compat(x, t[2], sub, path + '.%d' % n)
    elif kd == 'dict' and kt == 'dict':
        out += compat(d[1], t[1], sub, path + '{key}') + compat(d[2], t[2], sub, path + '{val}')
    elif kd == 'obj' and kt == 'obj':
        if d[1] == t[1]:
            fam(d[2], t[2], ' instance')
    elif (kd == 'int' and kt in ('tup', 'seq', 'ps')) or (kt == 'int' and known(t[1]) and kd in ('tup', 'seq', 'ps')):
        out.append('%s: %s expected, %s found' % (path, show(d), show(t)))
    return out


def has_known(t):
    k = t[0]
    if k in ('int', 'size'): return known(t[1])
    if k == 'seq': return known(t[1]) or has_known(t[2])
    if k == 'tup': return any(has_known(x) for x in t[1])
    if k == 'dict': return has_known(t[1]) or has_known(t[2])
    if k == 'obj': return known(t[2])
    return False


def overlap_known(d, t):
    """is there at least one position where both types carry a known family (so that compat decided something)?"""
    kd, kt = d[0], t[0]
    if kd in ('int', 'size') and kt == kd:
        return known(d[1]) and known(t[1])
    if kd == 'seq' and kt == 'seq':
        return (known(d[1]) and known(t[1])) or overlap_known(d[2], t[2])
    if kd == 'tup' and kt == 'tup' and len(d[1]) == len(t[1]):
        return any(overlap_known(x, y) for x, y in zip(d[1], t[1]))
    if kd == 'seq' and kt == 'tup':
        return any(overlap_known(d[2], y) for y in t[1])
    if kd == 'tup' and kt == 'seq':
        return any(overlap_known(x, t[2]) for x in d[1])
    if kd == 'dict' and kt == 'dict':
        return overlap_known(d[1], t[1]) or overlap_known(d[2], t[2])
    if kd == 'obj' and kt == 'obj':
        return d[1] == t[1] and known(d[2]) and known(t[2])
    return False


# ------------------------------------------------------------------ schema access
class Schema:
    """``classes``: {'Class': {'attrs': {name: type-string}, 'methods': {name: ({param: type-string}, ret-string)}}}
    ``functions``: {name: ({param: ts}, ret)} for module-level functions; ret 'same:<param>' returns the argument's type."""

    def __init__(self, classes, functions=None, module_of=None):
        self.classes = classes
        self.functions = functions or {}
        self.module_of = module_of or {}
        self._cache = {}
        # validate all type strings up front: a typo must not silently become TOP
        for c, d in classes.items():
            for a, ts in d.get('attrs', {}).items():
                self.p(ts)
            for m, (ps, r) in d.get('methods', {}).items():
                for ts in ps.values():
                    self.p(ts)
                if r and not r.startswith('same:'):
                    self.p(r)
        for m, (ps, r) in self.functions.items():
            for ts in ps.values():
                self.p(ts)
            if r and not r.startswith('same:'):
                self.p(r)

    def p(self, ts):
        if ts not in self._cache:
            self._cache[ts] = parse_type(ts)
        return self._cache[ts]

    def attr(self, cls, name, tag, rigid=False):
        d = self.classes.get(cls)
        if d is None or name not in d.get('attrs', {}):
            return None
        return subst_tag(self.p(d['attrs'][name]), tag, rigid)

    def method(self, cls, name):
        d = self.classes.get(cls)
        if d is None:
            return None
        return d.get('methods', {}).get(name)


ELEMENTWISE = {'exp', 'sqrt', 'abs', 'log', 'negative', 'square', 'copy', 'zeros_like', 'ones_like', 'empty_like',
               'asarray', 'array', 'absolute', 'real', 'imag', 'conj', 'sign', 'round', 'around', 'ascontiguousarray',
               'float64', 'cos', 'sin', 'log10', 'isfinite', 'isnan'}
ALLOC = {'zeros', 'ones', 'empty', 'full'}
REDUCE_ALL = {'sum', 'min', 'max', 'amin', 'amax', 'any', 'all', 'allclose', 'isclose', 'mean', 'prod', 'trace',
              'linalg.norm', 'linalg.det', 'argmin', 'argmax', 'array_equal'}


class Interp:
    """interprets one function body."""

    def __init__(self, eng, mod, clsname, fn, self_t, env=None, sig=None, qual=None):
        self.eng, self.mod, self.clsname, self.fn = eng, mod, clsname, fn
        self.self_t = self_t
        self.env = dict(env or {})
        self.sig = sig
        self.attrenv = {}
        self.qual = qual or getattr(fn, '_qualname', fn.name)
        self.ret_t = None
        self.self_name = None
        self.returns = []

    # -- reporting
    def ob(self, rule, node, ok, msg=''):
        self.eng.record(rule, self.mod, node, self.qual, ok, msg)

    def unknown(self, rule, node):
        self.eng.unknown(rule, self.mod, node, self.qual)

    # -- entry
    def run(self):
        fn = self.fn
        a = fn.args
        names = [x.arg for x in a.posonlyargs + a.args + a.kwonlyargs]
        params = self.sig[0] if self.sig else {}
        for n, name in enumerate(names):
            if n == 0 and self.self_t is not None and self.clsname and not _is_static(fn):
                if _is_classmethod(fn):
                    self.env[name] = ('class', self.clsname)
                else:
                    self.env[name] = self.self_t
                    self.self_name = name
                continue
            ts = params.get(name)
            tag = self.self_t[2] if self.self_t is not None and self.self_t[0] == 'obj' else '?'
            self.env[name] = subst_tag(self.eng.schema.p(ts), tag, rigid=True) if ts else TOP
        if a.vararg: self.env[a.vararg.arg] = TOP
        if a.kwarg: self.env[a.kwarg.arg] = TOP
        if self.sig and self.sig[1] and not self.sig[1].startswith('same:'):
            tag = self.self_t[2] if self.self_t is not None and self.self_t[0] == 'obj' else '?'
            self.ret_t = subst_tag(self.eng.schema.p(self.sig[1]), tag, rigid=True)
        self.block(fn.body)

    # -- statements
    def block(self, body):
        for st in body:
            self.stmt(st)

    def stmt(self, st):
        m = getattr(self, 's_' + type(st).__name__, None)
        if m is None:
            for ch in ast.iter_child_nodes(st):
                if isinstance(ch, ast.expr):
                    self.ev(ch)
            return
        m(st)

    def s_Expr(self, st):
        self.ev(st.value)

    def s_Assign(self, st):
        t = self.ev(st.value)
        if self.eng.debug:
            print('   %s:%d  %s  :: %s' % (self.qual, st.lineno, unparse(st.targets[0])[:40], show(t)))
        for tg in st.targets:
            self.bind(tg, t, st, valnode=st.value)

    def s_AnnAssign(self, st):
        if st.value is not None:
            self.bind(st.target, self.ev(st.value), st, valnode=st.value)

    def s_AugAssign(self, st):
        tl = self.ev_load(st.target)
        tv = self.ev(st.value)
        res = self.binop(st.op, tl, tv, st)
        if isinstance(st.target, ast.Name):
            self.env[st.target.id] = res if res != TOP or tl == TOP else join(tl, res)
        elif isinstance(st.target, ast.Attribute):
            self.bind(st.target, res, st, valnode=st.value)

    def s_For(self, st):
        it = self.ev(st.iter)
        el = self.elem(it)
        pre = dict(self.env)
        self.bind(st.target, el, st)
        self.block(st.body)
        self.env = join_env(pre, self.env)
        self.bind(st.target, el, st)
        self.block(st.body)
        self.env = join_env(pre, self.env)
        self.block(st.orelse)

    s_AsyncFor = s_For

    def s_While(self, st):
        self.ev(st.test)
        pre = dict(self.env)
        self.block(st.body)
        self.env = join_env(pre, self.env)
        self.ev(st.test)
        self.block(st.body)
        self.env = join_env(pre, self.env)
        self.block(st.orelse)

    def s_If(self, st):
        self.ev(st.test)
        e0 = dict(self.env)
        self.block(st.body)
        e1 = self.env
        self.env = dict(e0)
        self.block(st.orelse)
        self.env = join_env(e1, self.env)

    def s_Try(self, st):
        e0 = dict(self.env)
        self.block(st.body)
        e1 = dict(self.env)
        outs = []
        for h in st.handlers:
            self.env = join_env(e0, e1)
            if h.name: self.env[h.name] = TOP
            self.block(h.body)
            outs.append(self.env)
        self.env = dict(e1)
        self.block(st.orelse)
        for o in outs:
            self.env = join_env(self.env, o)
        self.block(st.finalbody)

    s_TryStar = s_Try

    def s_With(self, st):
        for it in st.items:
            self.ev(it.context_expr)
            if it.optional_vars is not None:
                self.bind(it.optional_vars, TOP, st)
        self.block(st.body)

    s_AsyncWith = s_With

    def s_Return(self, st):
        if st.value is None:
            return
        t = self.ev(st.value)
        if self.eng.debug:
            print('   %s:%d  return :: %s' % (self.qual, st.lineno, show(t)))
        entry = {'node': st, 'type': t, 'keys': {}}
        if isinstance(st.value, ast.Dict):
            for kk, vv in zip(st.value.keys, st.value.values):
                if isinstance(kk, ast.Constant) and isinstance(kk.value, str):
                    entry['keys'][kk.value] = (vv, self.ev(vv))
        self.returns.append(entry)
        if self.ret_t is not None:
            # a bare `return None` / `return []` for the degenerate case is not a typed return
            if isinstance(st.value, ast.Constant) or (isinstance(st.value, ast.List) and not st.value.elts):
                return
            self.check_schema(self.ret_t, t, st, 'return value of %s' % self.qual)

    def s_FunctionDef(self, st):
        sub = Interp(self.eng, self.mod, None, st, None, env=self.env, qual=self.qual + '.' + st.name)
        sub.self_name = self.self_name
        sub.run()
        self.env[st.name] = TOP

    s_AsyncFunctionDef = s_FunctionDef

    def s_ClassDef(self, st):
        self.env[st.name] = TOP

    def s_Delete(self, st):
        pass

    def s_Import(self, st):
        pass

    s_ImportFrom = s_Import

    # -- binding
    def bind(self, tg, t, st, valnode=None):
        if isinstance(tg, ast.Name):
            self.env[tg.id] = t
        elif isinstance(tg, (ast.Tuple, ast.List)):
            n = len(tg.elts)
            if any(isinstance(e, ast.Starred) for e in tg.elts):
                for e in tg.elts:
                    self.bind(e.value if isinstance(e, ast.Starred) else e, TOP, st)
                return
            if t[0] == 'tup' and len(t[1]) == n:
                parts = t[1]
            elif t[0] == 'seq':
                parts = [t[2]] * n
            else:
                parts = [TOP] * n
            vals = valnode.elts if isinstance(valnode, (ast.Tuple, ast.List)) and len(valnode.elts) == n else [None] * n
            for e, p, v in zip(tg.elts, parts, vals):
                self.bind(e, p, st, valnode=v)
        elif isinstance(tg, ast.Attribute):
            base = self.ev(tg.value)
            if base[0] == 'obj':
                d = self.eng.schema.attr(base[1], tg.attr, base[2])
                if d is not None:
                    self.check_schema(d, t, st, '%s.%s' % (unparse(tg.value), tg.attr), node=tg)
                else:
                    self.attrenv[(unparse(tg.value), tg.attr)] = t
        elif isinstance(tg, ast.Subscript):
            base = self.ev(tg.value)
            el = self.subscript(base, tg, store=True)
            if el is not None and t[0] in ('int', 'tup', 'ps') and el[0] in ('int', 'tup', 'ps'):
                self.check_schema(el, t, st, 'element of %s' % unparse(tg.value), node=tg)
            # weak update of a local array / list filled element by element
            if isinstance(tg.value, ast.Name) and base[0] == 'seq' and not isinstance(tg.slice, (ast.Slice, ast.Tuple)):
                if base[2] in (NUM, BOT) and t[0] == 'int' and known(t[1]):
                    self.env[tg.value.id] = Seq(base[1], t)
                elif base[2][0] == 'int' and t[0] == 'int' and clash(base[2][1], t[1]):
                    self.env[tg.value.id] = Seq(base[1], Int(None))
        elif isinstance(tg, ast.Starred):
            self.bind(tg.value, TOP, st)

    def check_schema(self, d, t, st, what, node=None):
        sub = {}
        cl = compat(d, t, sub)
        if cl:
            self.ob('axis-schema', node or st, False, '%s: %s (declared %s, built %s)' % (what, '; '.join(cl), show(d), show(t)))
        elif overlap_known(d, t):
            self.ob('axis-schema', node or st, True)

    # -- expressions
    def elem(self, t):
        k = t[0]
        if k == 'seq': return t[2]
        if k == 'count': return Int(None)
        if k == 'dict': return t[1]
        if k == 'tup':
            out = BOT
            for x in t[1]:
                out = join(out, x)
            return TOP if out == BOT else out
        return TOP

    def ev_load(self, node):
        return self.ev(node)

    def ev(self, node):
        m = getattr(self, 'e_' + type(node).__name__, None)
        if m is None:
            for ch in ast.iter_child_nodes(node):
                if isinstance(ch, ast.expr):
                    self.ev(ch)
            return TOP
        return m(node)

    def e_Constant(self, n):
        if isinstance(n.value, bool): return TOP
        if isinstance(n.value, (int, float, complex)): return NUM
        if isinstance(n.value, str): return ('str', n.value)
        return TOP

    def e_Name(self, n):
        if n.id in self.env:
            return self.env[n.id]
        if n.id in self.mod.imports:
            return ('mod', self.mod.imports[n.id])
        if n.id in self.mod.classes:
            return ('class', n.id)
        if n.id in self.mod.functions:
            return ('fn', n.id)
        return ('builtin', n.id)

    def e_Attribute(self, n):
        b = self.ev(n.value)
        k = b[0]
        if k == 'mod':
            return ('mod', b[1] + '.' + n.attr)
        if k == 'obj':
            if n.attr == '__class__':
                return ('class', b[1])
            key = (unparse(n.value), n.attr)
            t = self.eng.schema.attr(b[1], n.attr, b[2])
            if t is not None:
                return t
            if key in self.attrenv:
                return self.attrenv[key]
            return ('meth', b, n.attr)
        if k == 'ps':
            if n.attr in ('i', 'j'): return Int('S')
            if n.attr in ('dx', 'R'): return Seq('X', NUM)
            return ('meth', b, n.attr)
        if k == 'seq':
            if n.attr == 'T':
                fs, e = axes(b)
                if e[0] in ('num', 'int'):
                    return build(list(reversed(fs)), e)
                return TOP
            if n.attr in ('shape', 'size', 'ndim', 'dtype'):
                return TOP
            return ('meth', b, n.attr)
        if k in ('dict', 'class', 'str'):
            return ('meth', b, n.attr)
        return TOP

    def e_Tuple(self, n):
        return Tup(self.ev(e) for e in n.elts)

    def e_List(self, n):
        out = BOT
        for e in n.elts:
            out = join(out, self.ev(e))
        return Seq(None, out)

    e_Set = e_List

    def e_Dict(self, n):
        k = v = BOT
        for kk, vv in zip(n.keys, n.values):
            if kk is not None:
                k = join(k, self.ev(kk))
            v = join(v, self.ev(vv))
        return Dict(k if k != BOT else TOP, v if v != BOT else TOP)

    def e_IfExp(self, n):
        self.ev(n.test)
        return join(self.ev(n.body), self.ev(n.orelse))

    def e_BoolOp(self, n):
        out = BOT
        for v in n.values:
            out = join(out, self.ev(v))
        return out

    def e_UnaryOp(self, n):
        t = self.ev(n.operand)
        if isinstance(n.op, ast.Not): return TOP
        if t[0] == 'seq': return t
        if t[0] == 'num': return NUM
        return TOP

    def e_NamedExpr(self, n):
        t = self.ev(n.value)
        self.bind(n.target, t, n)
        return t

    def e_Lambda(self, n):
        return TOP

    def e_JoinedStr(self, n):
        for v in n.values:
            self.ev(v)
        return TOP

    def e_FormattedValue(self, n):
        self.ev(n.value)
        return TOP

    def e_Starred(self, n):
        self.ev(n.value)
        return TOP

    def e_Slice(self, n):
        for x in (n.lower, n.upper, n.step):
            if x is not None:
                self.ev(x)
        return ('slice',)

    def _comp(self, n, elt_fn):
        saved = dict(self.env)
        fam = None
        simple = len(n.generators) == 1 and not n.generators[0].ifs
        for g in n.generators:
            it = self.ev(g.iter)
            if simple and it[0] == 'seq':
                fam = it[1]
            self.bind(g.target, self.elem(it), n)
            for c in g.ifs:
                self.ev(c)
        out = elt_fn()
        self.env = saved
        return fam, out

    def e_ListComp(self, n):
        fam, e = self._comp(n, lambda: self.ev(n.elt))
        return Seq(fam, e)

    e_GeneratorExp = e_ListComp

    def e_SetComp(self, n):
        fam, e = self._comp(n, lambda: self.ev(n.elt))
        return Seq(None, e)

    def e_DictComp(self, n):
        fam, kv = self._comp(n, lambda: (self.ev(n.key), self.ev(n.value)))
        return Dict(kv[0], kv[1])

    def e_BinOp(self, n):
        return self.binop(n.op, self.ev(n.left), self.ev(n.right), n)

    def binop(self, op, a, b, node):
        ka, kb = a[0], b[0]
        if ka == 'seq' or kb == 'seq':
            if isinstance(op, ast.MatMult):
                return self.dot(a, b, node)
            if ka == 'seq' and kb == 'seq':
                fa, ea = axes(a)
                fb, eb = axes(b)
                if ea != NUM or eb != NUM:
                    # lists of indices / tuples / states / unknowns: '+' is concatenation, anything else is not typed
                    if isinstance(op, ast.Add) and ea != NUM and eb != NUM:
                        return Seq(None, join(a[2], b[2]))
                    return TOP
                if depth_known(a) and depth_known(b):
                    n = max(len(fa), len(fb))
                    pa = [None] * (n - len(fa)) + fa
                    pb = [None] * (n - len(fb)) + fb
                    sa = [False] * (n - len(fa)) + [True] * len(fa)
                    sb = [False] * (n - len(fb)) + [True] * len(fb)
                    res, bad, dec = [], [], False
                    for x, y, hx, hy in zip(pa, pb, sa, sb):
                        if hx and hy and known(x) and known(y):
                            dec = True
                            if x != y:
                                bad.append('%s vs %s' % (x, y))
                        res.append(x if known(x) else y)
                    if bad:
                        self.ob('axis-elementwise', node, False, 'element-wise %s combines axes of different families: %s (%s with %s)'
                                % (type(op).__name__, ', '.join(bad), show(a), show(b)))
                    elif dec:
                        self.ob('axis-elementwise', node, True)
                    return build(res, NUM)
                return TOP
            s, o = (a, b) if ka == 'seq' else (b, a)
            if o[0] in ('num', 'top', 'int', 'size', 'builtin'):
                fs, e = axes(s)
                if isinstance(op, ast.Mult) and e[0] not in ('num',) and o[0] in ('num', 'size', 'int'):
                    return Seq(None, s[2]) if ka == 'seq' and not depth_known(s) else (build(fs, NUM) if e[0] == 'num' else TOP)
                return build(fs, NUM) if e[0] == 'num' else (s if e[0] == 'top' else TOP)
            return TOP
        if ka in ('int', 'size') and kb in ('int', 'size') and isinstance(op, (ast.Add, ast.Sub)):
            if ka == 'size' and kb == 'size':
                return NUM   # adding two counts (e.g. a total number of parameters) is not index arithmetic
            if clash(a[1], b[1]):
                self.ob('axis-arith', node, False, 'index arithmetic mixes families %s and %s' % (a[1], b[1]))
                return TOP
            if known(a[1]) and known(b[1]):
                self.ob('axis-arith', node, True)
                if ka == 'size' and kb == 'size' and isinstance(op, ast.Sub):
                    return NUM
                return (('int', a[1]) if 'int' in (ka, kb) else ('size', a[1])) if isinstance(op, ast.Add) and 'size' not in (ka, kb) else NUM
            return NUM
        if ka in ('int', 'size', 'num') and kb in ('int', 'size', 'num'):
            return NUM
        return TOP

    def dot(self, a, b, node):
        if a[0] != 'seq' or b[0] != 'seq':
            s = a if a[0] == 'seq' else b
            o = b if a[0] == 'seq' else a
            if s[0] == 'seq' and o[0] == 'num':
                return s
            return TOP
        if not (depth_known(a) and depth_known(b)):
            return TOP
        fa, _ = axes(a)
        fb, _ = axes(b)
        x = fa[-1]
        y = fb[0] if len(fb) == 1 else fb[-2]
        if clash(x, y):
            self.ob('axis-contract', node, False, 'np.dot contracts an axis over %s with an axis over %s (%s . %s)' % (x, y, show(a), show(b)))
        elif known(x) and known(y):
            self.ob('axis-contract', node, True)
        res = fa[:-1] + (fb[:-2] + fb[-1:] if len(fb) >= 2 else [])
        return build(res, NUM)

    def e_Compare(self, n):
        left = self.ev(n.left)
        for op, r in zip(n.ops, n.comparators):
            right = self.ev(r)
            if isinstance(op, (ast.In, ast.NotIn)):
                rr = right[2] if right[0] == 'seq' else (right[1] if right[0] == 'dict' else TOP)
                self._cmp(left, rr, n, 'in')
            elif isinstance(op, (ast.Is, ast.IsNot)):
                pass
            else:
                self._cmp(left, right, n, type(op).__name__)
            left = right
        return TOP

    def _cmp(self, a, b, node, opname):
        if a[0] in ('int', 'size') and b[0] in ('int', 'size'):
            if clash(a[1], b[1]):
                self.ob('axis-compare', node, False, 'comparison (%s) between an index over %s and an index over %s' % (opname, a[1], b[1]))
            elif known(a[1]) and known(b[1]):
                self.ob('axis-compare', node, True)
        elif a[0] == 'tup' and b[0] == 'tup' and len(a[1]) == len(b[1]):
            for x, y in zip(a[1], b[1]):
                self._cmp(x, y, node, opname)

    # -- subscripts
    def e_Subscript(self, n):
        base = self.ev(n.value)
        r = self.subscript(base, n)
        return TOP if r is None else r

    def _index_one(self, fam, idx_node, idx_t, node, el):
        """index one axis of family ``fam`` (element type after peeling: ``el``); returns the resulting type builder:
        ('peel',) or ('keep', newfam)."""
        if isinstance(idx_node, ast.Slice):
            for x in (idx_node.lower, idx_node.upper):
                if x is not None:
                    t = self.ev(x)
                    if t[0] in ('int', 'size'):
                        if clash(fam, t[1]):
                            self.ob('axis-subscript', node, False, 'slice bound over %s applied to an axis over %s in %s' % (t[1], fam, unparse(node)))
                        elif known(fam) and known(t[1]):
                            self.ob('axis-subscript', node, True)
            if idx_node.step is not None:
                self.ev(idx_node.step)
            # positions stay aligned with the family only when the slice starts at the beginning (x[:n], x[:])
            aligned = idx_node.lower is None and idx_node.step is None
            return ('keep', fam if aligned else None)
        k = idx_t[0]
        if k == 'int':
            if clash(fam, idx_t[1]):
                self.ob('axis-subscript', node, False, 'index over %s used on an axis over %s in %s' % (idx_t[1], fam, unparse(node)))
            elif known(fam) and known(idx_t[1]):
                self.ob('axis-subscript', node, True)
            return ('peel',)
        if k == 'size':
            if clash(fam, idx_t[1]):
                self.ob('axis-subscript', node, False, 'size of %s used as an index on an axis over %s in %s' % (idx_t[1], fam, unparse(node)))
            return ('peel',)
        if k == 'seq':
            e = idx_t[2]
            if e[0] == 'int':
                if clash(fam, e[1]):
                    self.ob('axis-subscript', node, False, 'array of indices over %s used on an axis over %s in %s' % (e[1], fam, unparse(node)))
                elif known(fam) and known(e[1]):
                    self.ob('axis-subscript', node, True)
            return ('keep', idx_t[1])
        if k == 'num' or isinstance(idx_node, ast.Constant) or (isinstance(idx_node, ast.UnaryOp) and isinstance(idx_node.operand, ast.Constant)):
            return ('peel',)
        if k == 'tup':
            return ('unknown',)
        return ('peel?',)

    def subscript(self, base, n, store=False):
        sl = n.slice
        k = base[0]
        if k == 'tup':
            self.ev(sl)
            if isinstance(sl, ast.Constant) and isinstance(sl.value, int) and -len(base[1]) <= sl.value < len(base[1]):
                return base[1][sl.value]
            return self.elem(base)
        if k == 'dict':
            self.ev(sl)
            return base[2]
        if k != 'seq':
            self.ev(sl)
            return None
        idxs = sl.elts if isinstance(sl, ast.Tuple) else [sl]
        if any(isinstance(x, ast.Constant) and x.value is Ellipsis for x in idxs) or \
                any(isinstance(x, ast.Constant) and x.value is None for x in idxs):
            self.ev(sl)
            return None
        cur = base
        kept = []
        for ix in idxs:
            it = ('slice',) if isinstance(ix, ast.Slice) else self.ev(ix)
            if cur[0] == 'tup' and isinstance(ix, ast.Constant) and isinstance(ix.value, int) and len(idxs) == 1:
                return cur[1][ix.value] if -len(cur[1]) <= ix.value < len(cur[1]) else None
            if cur[0] != 'seq':
                # more indices than known axes: depth unknown
                for jx in idxs[idxs.index(ix) + 1:]:
                    if not isinstance(jx, ast.Slice): self.ev(jx)
                return None
            r = self._index_one(cur[1], ix, it, n, cur[2])
            if r[0] == 'peel':
                cur = cur[2]
            elif r[0] == 'keep':
                kept.append(r[1])
                cur = cur[2]
            else:
                return None
        return build(kept, cur)

    # -- calls
    def e_Call(self, n):
        f = n.func
        # method-style mutation of local lists first (append / extend / pop / add)
        args = [self.ev(a) for a in n.args]
        kw = {k.arg: self.ev(k.value) for k in n.keywords}
        ft = self.ev(f)
        k = ft[0]
        if k == 'builtin':
            return self.call_builtin(ft[1], n, args, kw)
        if k == 'mod':
            return self.call_module(ft[1], n, args, kw)
        if k == 'meth':
            return self.call_method(ft[1], ft[2], n, args, kw)
        if k == 'fn':
            return self.call_function(ft[1], n, args, kw)
        if k == 'class':
            if ft[1] == 'PairState': return PS
            if ft[1] in self.eng.schema.classes:
                # cls(...) / self.__class__(...) inside the class's own methods builds the object the method is
                # about (loaders, copy): it shares the families of ``self``
                if ft[1] == self.clsname and self.self_t is not None and self.self_t[0] == 'obj':
                    return Obj(ft[1], self.self_t[2])
                return Obj(ft[1], '?')
            return TOP
        if k == 'obj':
            sig = self.eng.schema.method(ft[1], '__call__')
            if sig is not None:
                return self.apply_sig(ft, '__call__', sig, n, args, kw)
        return TOP

    def call_builtin(self, name, n, args, kw):
        a0 = args[0] if args else TOP
        if name == 'len':
            return Size(a0[1]) if a0[0] == 'seq' and a0[1] is not None else (NUM if a0[0] in ('seq', 'tup') else TOP)
        if name == 'range':
            fams = [a[1] for a in args if a[0] in ('size', 'int')]
            if len(args) == 1 and a0[0] == 'size':
                return Seq(a0[1], Int(a0[1]))
            if fams:
                f = fams[0]
                if any(clash(f, g) for g in fams[1:]):
                    self.ob('axis-arith', n, False, 'range() bounds over different families: %s' % ', '.join(str(x) for x in fams))
                    return Seq(None, Int(None))
                return Seq(None, Int(f))
            return Seq(None, Int(None))
        if name == 'enumerate':
            if a0[0] == 'seq':
                if len(args) > 1 or 'start' in kw:
                    return Seq(None, Tup([Int(None), a0[2]]))
                return Seq(a0[1], Tup([Int(a0[1]), a0[2]]))
            if a0[0] == 'dict':
                return Seq(None, Tup([Int(None), a0[1]]))
            return Seq(None, Tup([Int(None), TOP]))
        if name == 'zip':
            fams = [a[1] for a in args if a[0] == 'seq' and known(a[1])]
            f = fams[0] if fams else None
            if fams and any(g != f for g in fams[1:]):
                self.ob('axis-zip', n, False, 'zip pairs sequences over different families: %s' % ', '.join(sorted(set(fams))))
                f = None
            elif len(fams) > 1:
                self.ob('axis-zip', n, True)
            els = []
            for a in args:
                if a == COUNT:
                    els.append(Int(f))
                else:
                    els.append(self.elem(a))
            return Seq(f, Tup(els))
        if name == 'reversed':
            return a0 if a0[0] == 'seq' else TOP
        if name in ('list', 'tuple'):
            if a0[0] == 'seq': return a0
            if a0[0] == 'tup': return a0
            if a0[0] == 'dict': return Seq(None, a0[1])
            return Seq(None, TOP) if args else Seq(None, BOT)
        if name in ('set', 'frozenset', 'sorted'):
            if a0[0] == 'seq': return Seq(None, a0[2])
            if a0[0] == 'dict': return Seq(None, a0[1])
            return Seq(None, BOT if not args else TOP)
        if name == 'sum':
            e = self.elem(a0) if a0[0] in ('seq', 'tup') else TOP
            return e if e[0] in ('seq', 'num') else (NUM if e[0] in ('int', 'size') else TOP)
        if name in ('min', 'max'):
            if len(args) == 1:
                return self.elem(a0) if a0[0] in ('seq', 'tup') else TOP
            out = BOT
            for a in args:
                out = join(out, a)
            return out
        if name == 'next':
            e = self.elem(a0) if a0[0] == 'seq' else TOP
            return join(e, args[1]) if len(args) > 1 else e
        if name in ('abs', 'float', 'complex'):
            return a0 if a0[0] == 'seq' else NUM
        if name == 'int':
            return a0 if a0[0] == 'int' else NUM
        if name == 'getattr':
            if len(n.args) >= 2 and isinstance(n.args[1], ast.Constant) and isinstance(n.args[1].value, str):
                fake = ast.Attribute(value=n.args[0], attr=n.args[1].value, ctx=ast.Load())
                ast.copy_location(fake, n)
                t = self.e_Attribute(fake)
                if t[0] == 'meth':
                    return TOP
                return t
            if a0 == PS:
                # attribute name chosen at run time: 'i' / 'j' are both site indices, anything else is not an index
                a1 = args[1] if len(args) > 1 else TOP
                return TOP
            return TOP
        if name == 'dict':
            return a0 if a0[0] == 'dict' else Dict(TOP, TOP)
        if name in ('isinstance', 'hasattr', 'any', 'all', 'print', 'str', 'repr', 'bool', 'type', 'id', 'hash', 'callable'):
            return TOP
        return TOP

    def shape_to_axes(self, node, t):
        """families of an allocation shape expression."""
        if t[0] == 'tup':
            return [x[1] if x[0] == 'size' else None for x in t[1]]
        if t[0] == 'size':
            return [t[1]]
        if t[0] in ('num', 'int'):
            return [None]
        return None

    def call_module(self, name, n, args, kw):
        a0 = args[0] if args else TOP
        if name == 'itertools.count':
            return COUNT
        if name in ('copy.deepcopy', 'copy.copy'):
            return a0
        if name == 'itertools.product':
            return Seq(None, Tup([self.elem(a) for a in args])) if 'repeat' not in kw else Seq(None, TOP)
        if name == 'itertools.chain':
            out = BOT
            for a in args:
                out = join(out, self.elem(a))
            return Seq(None, out if out != BOT else TOP)
        if not (name.startswith('numpy.') or name.startswith('scipy.')):
            return TOP
        short = name.split('.', 1)[1]
        if short in ALLOC:
            fs = self.shape_to_axes(n.args[0] if n.args else None, a0)
            if fs is None:
                return TOP
            return build(fs, NUM)
        if short in ELEMENTWISE:
            if a0[0] == 'seq':
                fs, e = axes(a0)
                if short in ('array', 'asarray', 'copy', 'ascontiguousarray'):
                    if e[0] == 'tup' and all(x[0] in ('int', 'num') for x in e[1]):
                        return a0   # array of index tuples keeps its element families for later unpacking
                    return a0
                return build(fs, NUM) if e[0] in ('num', 'int', 'size') else a0
            if a0[0] == 'tup' and short in ('array', 'asarray'):
                return Seq(None, self.elem(a0))
            return NUM if a0[0] in ('num', 'int', 'size') else TOP
        if short == 'dot':
            if len(args) >= 2:
                return self.dot(args[0], args[1], n)
            return TOP
        if short == 'unique':
            if a0[0] == 'seq':
                fs, e = axes(a0)
                return Seq(None, e)
            return TOP
        if short == 'eye':
            return Seq(a0[1], Seq(a0[1], NUM)) if a0[0] == 'size' else Seq(None, Seq(None, NUM))
        if short == 'diag':
            if a0[0] == 'seq' and depth_known(a0):
                fs, e = axes(a0)
                if len(fs) == 1: return Seq(fs[0], Seq(fs[0], NUM))
                if len(fs) == 2: return Seq(fs[0] if fs[0] == fs[1] else None, NUM)
            return TOP
        if short in ('linalg.inv', 'linalg.pinv'):
            if a0[0] == 'seq' and depth_known(a0):
                fs, e = axes(a0)
                if len(fs) == 2:
                    return build([fs[1], fs[0]], NUM)
            return TOP
        if short in ('linalg.eigh', 'linalg.eig'):
            if a0[0] == 'seq' and depth_known(a0):
                fs, e = axes(a0)
                if len(fs) == 2:
                    return Tup([Seq(None, NUM), Seq(fs[0], Seq(None, NUM))])
            return Tup([TOP, TOP])
        if short == 'outer':
            if len(args) == 2 and args[0][0] == 'seq' and args[1][0] == 'seq' and depth_known(args[0]) and depth_known(args[1]):
                fa, _ = axes(args[0])
                fb, _ = axes(args[1])
                if len(fa) == 1 and len(fb) == 1:
                    return build([fa[0], fb[0]], NUM)
            return TOP
        if short == 'pad':
            return Seq(a0[1], a0[2]) if a0[0] == 'seq' else TOP
        if short in ('arange',):
            return Seq(a0[1], Int(a0[1])) if a0[0] == 'size' and len(args) == 1 else Seq(None, Int(None))
        if short in REDUCE_ALL:
            if 'axis' in kw or len(args) > 1:
                return TOP
            return NUM
        if short == 'where':
            return TOP
        if short == 'cross':
            return a0 if a0[0] == 'seq' else TOP
        return TOP

    def call_function(self, name, n, args, kw):
        sig = self.eng.schema.functions.get(name)
        if sig is None:
            return TOP
        fn = self.mod.functions.get(name)
        return self.apply_sig(None, name, sig, n, args, kw, fndef=fn, skip_self=False)

    def call_method(self, recv, name, n, args, kw):
        k = recv[0]
        a0 = args[0] if args else TOP
        if k == 'seq':
            recv_node = n.func.value
            if name == 'copy' or name == 'astype' or name == 'conj':
                return recv
            if name == 'flatten' or name == 'ravel':
                return Seq(None, axes(recv)[1])
            if name in ('append', 'add'):
                if isinstance(recv_node, ast.Name) and recv_node.id in self.env:
                    self.env[recv_node.id] = Seq(recv[1] if recv[2] == BOT and False else None, join(recv[2], a0))
                elif recv[2][0] in ('int', 'tup', 'ps') and a0[0] in ('int', 'tup', 'ps'):
                    self.check_schema(recv[2], a0, n, 'element appended to %s' % unparse(recv_node))
                elif isinstance(recv_node, ast.Subscript) and isinstance(recv_node.value, ast.Name) and recv_node.value.id in self.env:
                    # listlist[ind].append(x): refine the inner element type of a local list of lists
                    outer = self.env[recv_node.value.id]
                    if outer[0] == 'seq' and outer[2][0] == 'seq':
                        self.env[recv_node.value.id] = Seq(outer[1], Seq(outer[2][1], join(outer[2][2], a0)))
                return TOP
            if name == 'extend':
                if isinstance(recv_node, ast.Name) and recv_node.id in self.env and a0[0] == 'seq':
                    self.env[recv_node.id] = Seq(None, join(recv[2], a0[2]))
                return TOP
            if name == 'pop':
                if args and a0[0] == 'int':
                    if clash(recv[1], a0[1]):
                        self.ob('axis-subscript', n, False, 'pop(index over %s) on a list over %s' % (a0[1], recv[1]))
                    elif known(recv[1]) and known(a0[1]):
                        self.ob('axis-subscript', n, True)
                return recv[2]
            if name == 'index':
                return Int(recv[1])
            if name in ('sum', 'min', 'max', 'any', 'all', 'mean', 'prod'):
                return NUM if not args and 'axis' not in kw else TOP
            if name == 'dot':
                return self.dot(recv, a0, n)
            if name == 'transpose' and not args:
                fs, e = axes(recv)
                return build(list(reversed(fs)), e) if e[0] in ('num', 'int') else TOP
            if name in ('sort', 'reverse', 'fill', 'clear', 'remove', 'insert', 'discard', 'update'):
                return TOP
            if name in ('tolist',):
                return recv
            return TOP
        if k == 'dict':
            if name == 'get':
                return join(recv[2], args[1]) if len(args) > 1 else recv[2]
            if name == 'items': return Seq(None, Tup([recv[1], recv[2]]))
            if name == 'keys': return Seq(None, recv[1])
            if name == 'values': return Seq(None, recv[2])
            if name == 'copy': return recv
            if name in ('pop', 'setdefault'): return recv[2]
            return TOP
        if k == 'ps':
            if name in ('g', '__neg__', '__add__', '__sub__', '__xor__', 'zero', 'fromcrys', 'fromcrys_latt'):
                return PS
            return TOP
        if k == 'class':
            if recv[1] == 'PairState':
                return PS if name in ('zero', 'fromcrys', 'fromcrys_latt') else TOP
            sig = self.eng.schema.method(recv[1], name)
            if sig is not None:
                return self.apply_sig(Obj(recv[1], '?'), name, sig, n, args, kw)
            return TOP
        if k == 'obj':
            sig = self.eng.schema.method(recv[1], name)
            if sig is not None:
                return self.apply_sig(recv, name, sig, n, args, kw)
            return TOP
        return TOP

    def apply_sig(self, recv, name, sig, n, args, kw, fndef=None, skip_self=True):
        params, ret = sig
        tag = recv[2] if recv is not None else '?'
        if fndef is None and recv is not None:
            fndef = self.eng.method_def(recv[1], name)
        sub = {}
        if fndef is not None:
            names = [a.arg for a in fndef.args.posonlyargs + fndef.args.args]
            if skip_self and names and not _is_static(fndef):
                names = names[1:]
        else:
            names = list(params)
        bound = {}
        for nm, t in zip(names, args):
            bound[nm] = t
        for nm, t in kw.items():
            if nm is not None:
                bound[nm] = t
        for nm, t in bound.items():
            ts = params.get(nm)
            if ts is None:
                continue
            d = subst_tag(self.eng.schema.p(ts), tag)
            cl = compat(d, t, sub)
            what = 'argument %s of %s' % (nm, name)
            if cl:
                self.ob('axis-schema', n, False, '%s: %s (declared %s, passed %s)' % (what, '; '.join(cl), show(d), show(t)))
            elif overlap_known(d, t):
                self.ob('axis-schema', n, True)
        if not ret:
            return TOP
        if ret.startswith('same:'):
            return bound.get(ret[5:], TOP)
        return subst_generic(subst_tag(self.eng.schema.p(ret), tag), sub)


def _is_static(fn):
    return any((dotted(d) or '') == 'staticmethod' for d in fn.decorator_list)


def _is_classmethod(fn):
    return any((dotted(d) or '') == 'classmethod' for d in fn.decorator_list)


class Engine:
    def __init__(self, model, schema, debug=False):
        self.model = model
        self.schema = schema
        self.debug = debug
        self.results = {}   # (rule, relpath, qual, construct) -> [ok, msg, node, mod]
        self._bynode = {}
        self.unknowns = 0

    def method_def(self, cls, name):
        modname = self.schema.module_of.get(cls)
        if modname is None:
            for mn, m in self.model.modules.items():
                if cls in m.classes:
                    modname = mn
                    break
        if modname is None:
            return None
        ci = self.model.modules[modname].classes.get(cls)
        return ci.methods.get(name) if ci else None

    def record(self, rule, mod, node, qual, ok, msg):
        k0 = (rule, id(node))
        cur = self._bynode.get(k0)
        if cur is not None:
            if not ok and cur[0]:
                cur[0], cur[1] = False, msg
            return
        text = unparse(node) if not isinstance(node, ast.stmt) or isinstance(node, (ast.Assign, ast.AugAssign, ast.Return, ast.Expr)) \
            else unparse(node).split('\n')[0]
        key = (rule, mod.relpath, qual, text)
        ent = self.results.get(key)
        if ent is None:
            ent = self.results[key] = [ok, msg, node, mod]
        elif not ok and ent[0]:
            ent[0], ent[1] = False, msg
        self._bynode[k0] = ent

    def unknown(self, rule, mod, node, qual):
        self.unknowns += 1

    def run_method(self, modname, clsname, meth, tag='self'):
        mod = self.model.mod(modname)
        ci = mod.classes.get(clsname)
        if ci is None or meth not in ci.methods:
            raise AnalysisError('anchor vanished: %s.%s.%s' % (modname, clsname, meth))
        fn = ci.methods[meth]
        sig = self.schema.method(clsname, meth)
        it = Interp(self, mod, clsname, fn, Obj(clsname, tag), sig=sig, qual='%s.%s' % (clsname, meth))
        it.run()
        return it

    def run_function(self, modname, name):
        mod = self.model.mod(modname)
        fn = mod.functions.get(name)
        if fn is None:
            raise AnalysisError('anchor vanished: %s.%s' % (modname, name))
        it = Interp(self, mod, None, fn, None, sig=self.schema.functions.get(name), qual=name)
        it.run()
        return it

    def emit(self, rep, only=None):
        """write the recorded obligations into a Report; returns counts per function."""
        per = {}
        for (rule, rel, qual, construct), (ok, msg, node, mod) in sorted(self.results.items(), key=lambda kv: (kv[0][1], getattr(kv[1][2], 'lineno', 0), kv[0][0])):
            if only is not None and not only(qual):
                continue
            rep.ob(rule, mod, node, construct, ok, msg, engine='axes', qual=qual)
            per[qual] = per.get(qual, 0) + 1
        return per
