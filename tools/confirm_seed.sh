#!/bin/bash
# usage: confirm_seed.sh <Cxx> <variant>   -- confirms a seeded change in a scratch worktree of /repo HEAD
# writes /tmp/seed/<Cxx>/confirm_<variant>.txt ; removes the worktree afterwards
id=$1; v=$2
src=${SEEDROOT:-/tmp/seed}/$id
wt=/tmp/cw/$id$v
[ -f /tmp/seed/rebased/${id}_$v.diff ] && REB=/tmp/seed/rebased/${id}_$v.diff
out=$src/confirm_$v.txt
mkdir -p /tmp/cw
git -C /repo worktree remove --force $wt 2>/dev/null
git -C /repo worktree add -q --detach $wt HEAD || { echo "worktree failed" > $out; exit 1; }
{
echo "head: $(git -C /repo rev-parse --short HEAD)"
cd $wt
cp $src/demo_$v.py $wt/demo_$v.py
echo "== demo on clean tree"
timeout 1800 /venv/bin/python demo_$v.py > /tmp/cw/$id$v.clean.log 2>&1; echo "clean_exit=$?"
tail -3 /tmp/cw/$id$v.clean.log
if [ -n "$REB" ] && git apply --check $REB 2>/dev/null; then git apply $REB; echo "patch_applies=rebased";
elif git apply --check $src/patch_$v.diff 2>/dev/null; then git apply $src/patch_$v.diff; echo "patch_applies=yes";
else git apply --3way $src/patch_$v.diff 2>&1 | tail -2; echo "patch_applies=3way"; fi
git diff --stat | tail -3
echo "== demo on patched tree"
timeout 1800 /venv/bin/python demo_$v.py > /tmp/cw/$id$v.patched.log 2>&1; echo "patched_exit=$?"
tail -3 /tmp/cw/$id$v.patched.log
echo "== full suite on patched tree"
timeout 3000 /venv/bin/python -m pytest -q -p no:cacheprovider -n 6 --timeout=900 test 2>&1 | tail -8
echo "== import location"
/venv/bin/python -c "import onsager; print(onsager.__file__)"
} > $out 2>&1
cd /
git -C /repo worktree remove --force $wt
rm -f /tmp/cw/$id$v.*.log
echo done >> $out
