"""
C13 -- saved and reloaded calculators reproduce results exactly (structural clauses).

Decides, for the five addhdf5/loadhdf5 pairs (VacancyMediated, GFCrystalcalc, StarSet, VectorStarSet,
Taylor3D/2D), the three converter pairs and the six YAML registrations:
  * loader def-use: every attribute that the constructor path assigns and that any other method reads
    is assigned on the loader path (setattr loops over __HDF5list__ expanded);
  * every HDF5 key (dataset, group, attribute; loops over class tuples expanded) read by the loader is
    written by the writer; every sub-object written with X.addhdf5(create_group(K)) is restored into the
    same attribute from group K;
  * constants given to the same attribute by constructor and loader agree;
  * the three cache dictionaries are written under one predicate and restored under one predicate whose
    alternative resets all three;
  * converter pairs: the writer's returned tuple order equals the reader's parameter order;
  * YAML: every tag has one representer and one constructor, the representer emits the tag the constructor
    is registered for, _asdict keys equal the namedtuple fields / are constructor keywords, and the
    constructor rebuilds the same class with **mapping;
  * no loader/converter reads a finished loop's variable inside a later loop (stale loop variable).
Not decided: bit-equality of numerical results; h5py/yaml library behaviour.
"""
import ast

from ..model import AnalysisError, dotted, unparse, walk_local
from ..engines import parity, flow

PAIRS = [('OnsagerCalc', 'VacancyMediated'), ('GFcalc', 'GFCrystalcalc'), ('crystalStars', 'StarSet'),
         ('crystalStars', 'VectorStarSet'), ('PowerExpansion', 'Taylor3D')]
CONVERTERS = [('OnsagerCalc', 'vTKdict2arrays', 'arrays2vTKdict'), ('crystalStars', 'PSlist2array', 'array2PSlist'),
              ('crystalStars', 'doublelist2flatlistindex', 'flatlistindex2doublelist')]
YAML_TYPES = [('crystal', 'GroupOp'), ('crystalStars', 'PairState'), ('cluster', 'ClusterSite'), ('cluster', 'Cluster'),
              ('OnsagerCalc', 'vacancyThermoKinetics')]
# attributes read only through guarded access (getattr default) or that hold results of a later
# explicit computation are found automatically; frozen exemptions (attr, reason):
EXEMPT_READS = {}
# keys that are written for humans / other tools and deliberately not read back (reason)
WRITER_ONLY_OK = {
    'attr:type': 'class name tag, informational',
    'attr:crystal': 'repr of the crystal; the crystal object is passed to the loader',
    'attr:Lmax': 'class-level constant of the Taylor class',
    'dataset-attr:pythonrep': 'repr of the crystal next to its YAML dump',
    'crystal_lattice': 'redundant with crystal_yaml (kept for non-python readers)',
    'crystal_basisarray': 'redundant with crystal_yaml', 'crystal_basisindex': 'redundant with crystal_yaml',
    'crystal_chemistry': 'redundant with crystal_yaml',
    '<pattern: self.HDF5str.format(_, _)>': 'Taylor coefficients are read by iterating over the group items',
}


def run(model, rep, tier):
    rep.explanation = __doc__.strip()
    rep.not_decided = 'bit-equality of results after reload; behaviour of h5py/yaml themselves'
    rep.rule('loader-defines-attributes', 'attributes assigned on the constructor path and read by other methods are '
                                          'assigned on the loader path')
    rep.rule('reader-keys-subset-writer', 'every HDF5 key read by loadhdf5 is written by addhdf5')
    rep.rule('written-keys-are-read', 'every HDF5 key addhdf5 writes is read back by loadhdf5 (documented metadata exempt)')
    rep.rule('stored-value-unchanged', 'a loader statement that reads a dataset does not mix other attributes of the object into it')
    rep.rule('parallel-arrays-reordered-together', 'key and value arrays of a converter are reordered by the same operations')
    rep.rule('subobject-pairing', 'X.addhdf5(create_group(K)) <-> obj.X = Class.loadhdf5(..., group[K])')
    rep.rule('ctor-loader-constants', 'constants assigned to one attribute by __init__ and loadhdf5 agree')
    rep.rule('cache-one-predicate', 'the *values caches are saved and restored under a single predicate each')
    rep.rule('converter-order', 'writer return order = reader parameter order')
    rep.rule('yaml-tables', 'tag / representer / constructor / field tables agree')
    rep.rule('no-stale-loop-variable', 'no read of a finished loop\'s variable inside a later loop')
    npairs = 0
    for mname, cname in PAIRS:
        _pair(model, rep, mname, cname)
        npairs += 1
    rep.floor('addhdf5/loadhdf5 pairs', npairs, 5)
    _cache(model, rep)
    for mname, w, r in CONVERTERS:
        _converter(model, rep, mname, w, r)
    _yaml(model, rep)
    _stale(model, rep, tier)
    _dependence(model, rep)
    _rebuild_options(model, rep)


def _loader_obj(fn):
    """name of the object under construction in a loadhdf5 classmethod and its constructing call."""
    clsname = fn.args.args[0].arg
    for st in fn.body:
        if isinstance(st, ast.Assign) and isinstance(st.targets[0], ast.Name) and isinstance(st.value, ast.Call) \
                and unparse(st.value.func) == clsname:
            return st.targets[0].id, st.value
    raise AnalysisError('loadhdf5: object construction `x = cls(...)` not found')


def _blank_ctor_attrs(model, ci, call):
    """attributes the constructor assigns when the loader calls cls(...)."""
    owner, init = model.find_method(ci, '__init__')
    if init is None:
        return {}
    allnone = call.args and all(isinstance(a, ast.Constant) and a.value is None for a in call.args) and not call.keywords
    if not allnone:
        # full constructor path
        return {a: v for a, v in parity.assigned_on_self(model, ci, parity.ctor_path(model, ci)).items()}
    out = {}
    s = init.args.args[0].arg
    for st in init.body:
        if isinstance(st, ast.Expr) and isinstance(st.value, ast.Constant):
            continue
        if isinstance(st, ast.If):
            break
        for t in parity._targets(st):
            if isinstance(t, ast.Attribute) and isinstance(t.value, ast.Name) and t.value.id == s:
                out[t.attr] = ('__init__', st)
    return out


def _pair(model, rep, mname, cname):
    mod = model.mod(mname)
    ci = model.cls(mname, cname)
    for m in ('addhdf5', 'loadhdf5', '__init__'):
        if m not in ci.methods:
            raise AnalysisError('anchor vanished: %s.%s.%s' % (mname, cname, m))
    w, r = ci.methods['addhdf5'], ci.methods['loadhdf5']
    obj, call = _loader_obj(r)
    # ---- def-use
    ctor = parity.assigned_on_self(model, ci, parity.ctor_path(model, ci))
    loaded = dict(_blank_ctor_attrs(model, ci, call))
    for a, n in parity.attrs_assigned_on(model, ci, r, obj).items():
        loaded.setdefault(a, ('loadhdf5', n))
    # methods the loader calls on the object
    for n in walk_local(r):
        if isinstance(n, ast.Call) and isinstance(n.func, ast.Attribute) and isinstance(n.func.value, ast.Name) \
                and n.func.value.id == obj:
            for a, v in parity.assigned_on_self(model, ci, parity.ctor_path(model, ci, n.func.attr)).items():
                loaded.setdefault(a, v)
    readers = {}
    for c in model.mro(ci):
        for name, fn in c.methods.items():
            if name == '__init__':
                continue
            for a, node in parity.self_reads(fn).items():
                if _tolerates_absence(fn, a):
                    continue
                readers.setdefault(a, (name, node))
    checked = 0
    for a in sorted(ctor):
        if a not in readers or (cname, a) in EXEMPT_READS:
            continue
        checked += 1
        ok = a in loaded
        name, node = readers[a]
        rep.ob('loader-defines-attributes', mod, r if ok else node, '%s.%s (read by %s)' % (cname, a, name), ok,
               '' if ok else 'attribute %s is set by the constructor, read by %s.%s, but never set by loadhdf5: a reloaded '
                             'object raises AttributeError where a fresh one works' % (a, cname, name), engine='parity',
               qual='%s.loadhdf5' % cname)
    rep.count('%s attributes checked' % cname, checked)
    # ---- keys
    wgroup = w.args.args[1].arg
    rgroup = r.args.args[-1].arg
    wk = parity.hdf5_keys(model, ci, w, wgroup, 'w')
    rk = parity.hdf5_keys(model, ci, r, rgroup, 'r')
    for k, node in sorted(rk.items()):
        ok = k in wk
        rep.ob('reader-keys-subset-writer', mod, node, '%s reads %r' % (cname, k), ok,
               '' if ok else 'loadhdf5 reads key %r that addhdf5 never writes: KeyError (or silently skipped data) on reload' % k,
               engine='parity', qual='%s.loadhdf5' % cname)
    only_w = sorted(set(wk) - set(rk))
    for k in only_w:
        if k in WRITER_ONLY_OK:
            rep.note('%s writer-only key %s: %s' % (cname, k, WRITER_ONLY_OK[k]))
            continue
        rep.ob('written-keys-are-read', mod, wk[k], '%s writes %r' % (cname, k), False,
               'addhdf5 stores %r but loadhdf5 never reads it back: the reloaded object rebuilds this piece some other way (or not at '
               'all) and can differ from the saved one' % k, engine='parity', qual='%s.addhdf5' % cname)
    for k in sorted(set(wk) & set(rk)):
        rep.ob('written-keys-are-read', mod, wk[k], '%s key %r written and read' % (cname, k), True, nontrivial=False, engine='parity',
               qual='%s.addhdf5' % cname)
    # the writer must iterate the same class tuples as the reader's setattr loop: every __HDF5list__ name written
    tup = parity.class_tuple(model, ci, '__HDF5list__')
    if tup:
        for a in tup:
            ok = a in wk and a in rk and a in ctor
            rep.ob('reader-keys-subset-writer', mod, ci.node, '%s.__HDF5list__ entry %r: written, read, and set by the constructor path'
                   % (cname, a), ok, '' if ok else 'entry %r of __HDF5list__ is %s' % (
                a, 'never assigned by the constructor path: addhdf5 raises AttributeError' if a not in ctor
                else 'not written/read symmetrically'), engine='parity')
    # ---- sub-objects
    subs_w = {}
    for n in walk_local(w):
        if isinstance(n, ast.Call) and isinstance(n.func, ast.Attribute) and n.func.attr == 'addhdf5' and n.args:
            a0 = n.args[0]
            if isinstance(a0, ast.Call) and isinstance(a0.func, ast.Attribute) and a0.func.attr == 'create_group' \
                    and a0.args and isinstance(a0.args[0], ast.Constant):
                subs_w[a0.args[0].value] = (unparse(n.func.value), n)
    for n in walk_local(r):
        if isinstance(n, ast.Assign) and isinstance(n.value, ast.Call) and isinstance(n.value.func, ast.Attribute) \
                and n.value.func.attr == 'loadhdf5' and isinstance(n.targets[0], ast.Attribute):
            keys = [a.slice.value for a in n.value.args if isinstance(a, ast.Subscript) and isinstance(a.slice, ast.Constant)]
            attr = n.targets[0].attr
            for k in keys:
                wsrc = subs_w.get(k, (None, None))[0]
                ok = wsrc == 'self.' + attr
                rep.ob('subobject-pairing', mod, n, '%s.%s <- group[%r] ; writer stores %s there' % (obj, attr, k, wsrc), ok,
                       '' if ok else 'group %r holds %s but is loaded into attribute %s' % (k, wsrc, attr), engine='parity',
                       qual='%s.loadhdf5' % cname)
                # the loader class must be the class of the object written: checked by name of the static type when known
    for k, (src, n) in sorted(subs_w.items()):
        restored = any(isinstance(x, ast.Subscript) and isinstance(x.slice, ast.Constant) and x.slice.value == k
                       for x in ast.walk(r))
        rep.ob('subobject-pairing', mod, n, '%s written to group %r is restored by the loader' % (src, k), restored,
               '' if restored else 'sub-object %s is saved but never restored' % src, engine='parity',
               qual='%s.addhdf5' % cname)
    # ---- a statement that reads a stored dataset rebuilds from that dataset alone
    for st in walk_local(r):
        if not isinstance(st, (ast.Assign, ast.AugAssign, ast.Expr)):
            continue
        v = st.value
        reads_key = [x for x in ast.walk(v) if isinstance(x, ast.Subscript) and isinstance(x.value, ast.Name) and x.value.id == rgroup]
        if not reads_key:
            continue
        if any(isinstance(c, ast.Call) and isinstance(c.func, ast.Attribute) and c.func.attr == 'loadhdf5' for c in ast.walk(v)):
            continue  # sub-object loaders legitimately receive context objects
        mixed = sorted({unparse(x) for x in ast.walk(v) if isinstance(x, ast.Attribute) and isinstance(x.value, ast.Name)
                        and x.value.id == obj and isinstance(x.ctx, ast.Load)
                        and not (isinstance(getattr(x, '_parent', None), ast.Attribute) and x._parent.attr == 'append')})
        tgt = unparse(st.targets[0]) if isinstance(st, ast.Assign) else ''
        mixed = [m for m in mixed if m != tgt and not tgt.startswith(m + '[')]
        rep.ob('stored-value-unchanged', mod, st, '%s: %s' % (cname, unparse(st)[:110]), not mixed,
               '' if not mixed else 'the value read from %s is combined with %s while being restored: what is loaded is not what was '
                                    'saved (e.g. an index map applied a second time)' % (unparse(reads_key[0]), ', '.join(mixed)),
               engine='parity', qual='%s.loadhdf5' % cname)
    # ---- constants
    init = ci.methods['__init__']
    cconst = _const_assigns(init, init.args.args[0].arg)
    lconst = _const_assigns(r, obj)
    for a in sorted(set(cconst) & set(lconst)):
        (cv, cn), (lv, ln) = cconst[a], lconst[a]
        ok = cv == lv
        rep.ob('ctor-loader-constants', mod, ln, '%s.%s: __init__ %s / loadhdf5 %s' % (cname, a, cv, lv), ok,
               '' if ok else 'a fresh object starts with %s = %s, a reloaded one with %s: guards that test the initial value '
                             'behave differently after reload' % (a, cv, lv), engine='parity', qual='%s.loadhdf5' % cname)


def _tolerates_absence(fn, attr):
    """the method reads self.attr only via getattr(self, 'attr', default) or under hasattr."""
    s = fn.args.args[0].arg if fn.args.args else 'self'
    direct = False
    for n in ast.walk(fn):
        if isinstance(n, ast.Attribute) and n.attr == attr and isinstance(n.value, ast.Name) and n.value.id == s \
                and isinstance(n.ctx, ast.Load):
            direct = True
    return not direct


def _const_assigns(fn, obj):
    out = {}
    for n in walk_local(fn):
        if isinstance(n, ast.Assign) and len(n.targets) == 1:
            t, v = n.targets[0], n.value
            pairs = list(zip(t.elts, v.elts)) if isinstance(t, ast.Tuple) and isinstance(v, ast.Tuple) \
                and len(t.elts) == len(v.elts) else [(t, v)]
            for tt, vv in pairs:
                if isinstance(tt, ast.Attribute) and isinstance(tt.value, ast.Name) and tt.value.id == obj \
                        and isinstance(vv, ast.Constant):
                    out[tt.attr] = (repr(vv.value), n)
    return out


def _cache(model, rep):
    mod = model.mod('OnsagerCalc')
    ci = model.cls('OnsagerCalc', 'VacancyMediated')
    w, r = ci.methods['addhdf5'], ci.methods['loadhdf5']
    caches = ('GFvalues', 'Lvvvalues', 'etavvalues')

    def encl_if(n, fn):
        p = getattr(n, '_parent', None)
        while p is not None and p is not fn and not isinstance(p, ast.If):
            p = getattr(p, '_parent', None)
        return p if isinstance(p, ast.If) else None

    def loop_names(n, fn, var):
        """values of loop variable ``var`` when the enclosing loop runs over a class-level tuple of names"""
        p = getattr(n, '_parent', None)
        while p is not None and p is not fn:
            if isinstance(p, ast.For) and isinstance(p.target, ast.Name) and p.target.id == var:
                d = dotted(p.iter) or ''
                tup = parity.class_tuple(model, ci, d.split('.')[-1]) if d and d.split('.')[0] in ('self', 'cls') else None
                return list(tup) if tup is not None else None
            p = getattr(p, '_parent', None)
        return None

    wifs = set()
    unresolved = False
    for n in walk_local(w):
        if isinstance(n, ast.Call) and dotted(n.func) == 'vTKdict2arrays' and n.args:
            a0 = n.args[0]
            a = unparse(a0)
            if a.startswith('self.') and a[5:] in caches:
                wifs.add((a[5:], id(encl_if(n, w))))
            elif isinstance(a0, ast.Call) and dotted(a0.func) == 'getattr' and len(a0.args) == 2 and unparse(a0.args[0]) == 'self' \
                    and isinstance(a0.args[1], ast.Name):
                names = loop_names(n, w, a0.args[1].id)
                if names is None:
                    unresolved = True
                for nm in names or []:
                    if nm in caches:
                        wifs.add((nm, id(encl_if(n, w))))
            else:
                unresolved = True
    ok = {c for c, _ in wifs} == set(caches) and len({i for _, i in wifs}) == 1
    if not ok and (unresolved or not wifs):
        rep.undecided('VacancyMediated.addhdf5: the statements saving the three caches were not located')
        ok = True
    rep.ob('cache-one-predicate', mod, w, 'addhdf5 saves %s under one predicate' % ', '.join(caches), ok,
           '' if ok else 'the three caches are not saved together: a reloaded object has inconsistent caches',
           engine='parity', qual='VacancyMediated.addhdf5')
    obj, _ = _loader_obj(r)
    rifs = {}
    for n in walk_local(r):
        if isinstance(n, ast.Assign) and isinstance(n.value, ast.Call) and dotted(n.value.func) == 'arrays2vTKdict' \
                and isinstance(n.targets[0], ast.Attribute) and n.targets[0].attr in caches:
            keys = [a.slice.value for a in n.value.args if isinstance(a, ast.Subscript) and isinstance(a.slice, ast.Constant)]
            want = ['%s_%s' % (n.targets[0].attr, s) for s in ('vTK', 'values', 'splits')]
            rep.ob('cache-one-predicate', mod, n, '%s.%s <- %s' % (obj, n.targets[0].attr, keys), keys == want,
                   '' if keys == want else 'cache %s is restored from the datasets of another cache / in the wrong order'
                                           % n.targets[0].attr, engine='parity', qual='VacancyMediated.loadhdf5')
            rifs[n.targets[0].attr] = encl_if(n, r)
    same = set(rifs) == set(caches) and len({id(v) for v in rifs.values()}) == 1 and None not in rifs.values()
    reset = False
    if same:
        theif = list(rifs.values())[0]
        got = set()
        for s in theif.orelse:
            for t in parity._targets(s):
                if isinstance(t, ast.Attribute) and t.attr in caches:
                    got.add(t.attr)
        reset = got == set(caches)
    if not rifs:
        rep.undecided('VacancyMediated.loadhdf5: the statements restoring the three caches were not located')
        same = reset = True
    rep.ob('cache-one-predicate', mod, r, 'loadhdf5 restores the three caches under one predicate, else resets all three',
           same and reset, '' if same and reset else 'after reload some cache is missing or stale relative to the others',
           engine='parity', qual='VacancyMediated.loadhdf5')


def _converter(model, rep, mname, wname, rname):
    mod = model.mod(mname)
    w, r = model.func(mname, wname), model.func(mname, rname)
    rets = [n for n in walk_local(w) if isinstance(n, ast.Return) and isinstance(n.value, ast.Tuple)
            and not all(isinstance(e, ast.Constant) for e in n.value.elts)]
    if not rets:
        raise AnalysisError('%s.%s: tuple return not found' % (mname, wname))
    params = [a.arg for a in r.args.args]
    for ret in rets:
        n_ok = len(ret.value.elts) == len(params)
        rep.ob('converter-order', mod, ret, '%s returns %d values ; %s takes %d' % (wname, len(ret.value.elts), rname, len(params)),
               n_ok, '' if n_ok else 'arity mismatch between writer and reader', engine='tables')
    # parallel arrays (all returned Names) must be reordered by the same operations
    rnames = [unparse(e.args[0]) if isinstance(e, ast.Call) and e.args and isinstance(e.args[0], ast.Name) else unparse(e)
              for e in rets[-1].value.elts]
    locals_ = [nm for nm in rnames if nm.isidentifier()]
    ops = {nm: _reorders(w, nm) for nm in locals_}
    distinct = {tuple(v) for k, v in ops.items() if k in locals_[:2]}
    rep.ob('parallel-arrays-reordered-together', mod, rets[-1], '%s: reordering of %s: %s' % (wname, locals_[:2], [ops[k] for k in locals_[:2]]),
           len(distinct) <= 1, '' if len(distinct) <= 1 else 'one of the parallel arrays is reordered and the other is not: keys are paired '
                                                              'with the values of other keys after reload', engine='tables')
    # element kinds: the writer docstring order is not available statically; use the reader's unpacking:
    # each reader parameter must be consumed in the role the writer produced it in.  Decided by name stems.
    ret = rets[-1]
    names = [_stem(unparse(e)) for e in ret.value.elts]
    pst = [_stem(p) for p in params]
    ok = names == pst
    rep.ob('converter-order', mod, ret, '%s -> (%s) ; %s(%s)' % (wname, ', '.join(unparse(e) for e in ret.value.elts), rname,
                                                                ', '.join(params)), ok,
           '' if ok else 'the reader takes its arguments in a different order than the writer returns them', engine='tables')


def _reorders(fn, name):
    """canonical list of reordering operations applied to local array ``name``: rebinding through a computed subscript,
    sorting calls, reversed slices."""
    ops = []
    for n in walk_local(fn):
        if isinstance(n, ast.Assign) and unparse(n.targets[0]) == name:
            v = n.value
            for x in ast.walk(v):
                if isinstance(x, ast.Subscript) and unparse(x.value) == name and not isinstance(x.slice, (ast.Constant,)) \
                        and not (isinstance(x.slice, ast.Slice) and x.slice.step is None):
                    ops.append('index:' + unparse(x.slice).replace(name, 'A'))
                if isinstance(x, ast.Call) and (dotted(x.func) or '').split('.')[-1] in ('sort', 'sorted', 'flip', 'roll', 'take', 'unique'):
                    ops.append('call:' + unparse(x).replace(name, 'A'))
        if isinstance(n, ast.Expr) and isinstance(n.value, ast.Call) and isinstance(n.value.func, ast.Attribute) \
                and unparse(n.value.func.value) == name and n.value.func.attr in ('sort', 'reverse'):
            ops.append('method:' + n.value.func.attr)
    return ops


def _stem(s):
    s = s.replace('np.array(', '').rstrip(')')
    for suf in ('array', 'list'):
        if s.endswith(suf) and len(s) > len(suf):
            s = s[:-len(suf)]
    return s.lower()


def _yaml(model, rep):
    nreg = 0
    for mname, cname in YAML_TYPES:
        mod = model.mod(mname)
        ci = model.cls(mname, cname)
        reps, cons = [], []
        for n in mod.tree.body:
            if isinstance(n, ast.Expr) and isinstance(n.value, ast.Call):
                d = dotted(n.value.func)
                if d == 'yaml.add_representer' and len(n.value.args) == 2 and unparse(n.value.args[0]) == cname:
                    reps.append(n.value)
                if d == 'yaml.add_constructor' and len(n.value.args) == 2 \
                        and unparse(n.value.args[1]).startswith(cname + '.'):
                    cons.append(n.value)
        ok = len(reps) == 1 and len(cons) == 1
        rep.ob('yaml-tables', mod, ci.node, '%s: %d representer / %d constructor registration(s)' % (cname, len(reps), len(cons)),
               ok, '' if ok else 'YAML registration missing or duplicated: dump/load of %s does not round-trip' % cname,
               engine='tables')
        if not ok:
            continue
        nreg += 1
        tagname = unparse(cons[0].args[0])
        rfn = ci.methods.get(unparse(reps[0].args[1]).split('.')[-1])
        cfn = ci.methods.get(unparse(cons[0].args[1]).split('.')[-1])
        if rfn is None or cfn is None:
            raise AnalysisError('%s: registered representer/constructor not found in the class' % cname)
        emitted = [unparse(c.args[0]) for c in ast.walk(rfn) if isinstance(c, ast.Call) and isinstance(c.func, ast.Attribute)
                   and c.func.attr.startswith('represent_') and c.args]
        ok = emitted == [tagname]
        rep.ob('yaml-tables', mod, rfn, '%s representer emits %s ; constructor registered for %s' % (cname, emitted, tagname), ok,
               '' if ok else 'the tag written is not the tag the constructor is registered for', engine='tables')
        uses_asdict = any(isinstance(c, ast.Call) and isinstance(c.func, ast.Attribute) and c.func.attr == '_asdict'
                          for c in ast.walk(rfn))
        built = [c for c in ast.walk(cfn) if isinstance(c, ast.Call) and unparse(c.func) in (cname, 'cls')
                 and any(k.arg is None for k in c.keywords)]
        ok = uses_asdict and len(built) == 1
        rep.ob('yaml-tables', mod, cfn, '%s constructor rebuilds %s(**mapping)' % (cname, cname), ok,
               '' if ok else 'constructor does not rebuild the same class from the mapping', engine='tables')
        ad = ci.methods.get('_asdict')
        if ad is None:
            raise AnalysisError('%s._asdict not found' % cname)
        keys = set()
        for n in walk_local(ad):
            if isinstance(n, ast.Dict):
                keys |= {k.value for k in n.keys if isinstance(k, ast.Constant)}
            if isinstance(n, ast.Assign) and isinstance(n.targets[0], ast.Subscript) \
                    and isinstance(n.targets[0].slice, ast.Constant):
                keys.add(n.targets[0].slice.value)
        if ci.namedtuple_fields is not None:
            # dict(zip(self._fields, self)) / self._asdict-like generic spellings enumerate the fields themselves
            txt = unparse(ad).replace(' ', '')
            if not keys and ('zip(self._fields,self)' in txt or 'zip(type(self)._fields,self)' in txt):
                keys = set(ci.namedtuple_fields)
            ok = keys == set(ci.namedtuple_fields)
            rep.ob('yaml-tables', mod, ad, '%s._asdict keys %s = namedtuple fields %s' % (cname, sorted(keys), ci.namedtuple_fields),
                   ok, '' if ok else 'a field is dropped or misspelt in the YAML mapping', engine='tables')
            # each key maps to its own field
            for n in walk_local(ad):
                if isinstance(n, ast.Dict):
                    for k, v in zip(n.keys, n.values):
                        if isinstance(k, ast.Constant):
                            okv = unparse(v) == 'self.%s' % k.value
                            rep.ob('yaml-tables', mod, v, '%s._asdict[%r] = %s' % (cname, k.value, unparse(v)), okv,
                                   '' if okv else 'key %r carries another field' % k.value, engine='tables')
        else:
            owner, init = model.find_method(ci, '__init__')
            params = {a.arg for a in init.args.args[1:]} if init else set()
            ok = keys <= params and len(keys) > 0
            rep.ob('yaml-tables', mod, ad, '%s._asdict keys %s are constructor keywords %s' % (cname, sorted(keys), sorted(params)),
                   ok, '' if ok else 'the mapping has keys the constructor does not accept', engine='tables')
    rep.floor('YAML registered value types', nreg, 5)
    # ndarray tag in crystal.py
    mod = model.mod('crystal')
    fr, fc = mod.functions.get('ndarray_representer'), mod.functions.get('ndarray_constructor')
    if fr is None or fc is None:
        raise AnalysisError('anchor vanished: crystal.ndarray_representer/constructor')
    regs = [unparse(n.value) for n in mod.tree.body if isinstance(n, ast.Expr) and isinstance(n.value, ast.Call)
            and (dotted(n.value.func) or '').startswith('yaml.add_')]
    ok = 'yaml.add_representer(np.ndarray, ndarray_representer)' in regs and \
         'yaml.add_constructor(NDARRAY_YAMLTAG, ndarray_constructor)' in regs and 'NDARRAY_YAMLTAG' in unparse(fr)
    rep.ob('yaml-tables', mod, fr, 'numpy.ndarray tag registered for both directions with one tag constant', ok,
           '' if ok else 'ndarray YAML registration inconsistent', engine='tables')


LOADER_PARAM_ALIAS = {'SSet': 'starset'}   # VectorStarSet.loadhdf5(SSet, group) takes the star set __init__ calls starset


def _dependence(model, rep):
    """a reloaded attribute depends on every constructor argument the original depends on."""
    rep.rule('reload-keeps-dependencies', 'every constructor argument an attribute depends on still determines its reloaded value '
                                          '(through the keys the writer stored)')
    n = 0
    for mname, cname in PAIRS:
        mod = model.mod(mname)
        ci = model.cls(mname, cname)
        if '__init__' not in ci.methods or 'addhdf5' not in ci.methods or 'loadhdf5' not in ci.methods:
            continue
        for a, miss, node, dc, dl in parity.dependence_parity(model, ci, alias=LOADER_PARAM_ALIAS):
            n += 1
            rep.ob('reload-keeps-dependencies', mod, node, '%s.%s: constructor arguments %s ; reloaded from %s' % (cname, a, dc, dl), not miss,
                   '' if not miss else 'the constructor builds %s from its argument(s) %s, but the loader rebuilds it from data that do not '
                   'depend on them: a calculator constructed with a non-default %s is not reproduced by save / reload'
                   % (a, ', '.join(miss), ', '.join(miss)), nontrivial=bool(dc), engine='parity', qual='%s.loadhdf5' % cname)
    rep.floor('attributes compared between constructor and loader', n, 60)


def _rebuild_options(model, rep):
    """A loader that *rebuilds* an object of one of the package's classes by calling its constructor (rather than
    deserialising the object the writer stored) passes every optional constructor parameter that shapes the object: an
    option left to its default reproduces only the originals that were built with that default.  Calls with all-None
    placeholders (``cls(None, None, ...)``, the blank object the loader then fills attribute by attribute) and calls that
    forward a stored mapping (``K(**d)``) are not rebuilds."""
    rep.rule('reload-rebuild-keeps-options', 'a constructor call in a loader passes every optional parameter that shapes the object')
    internal = {}
    for mod in model.modules.values():
        for cn, ci in mod.classes.items():
            internal.setdefault(cn, (mod, ci))
    n = 0
    for mname, cname in PAIRS:
        mod = model.mod(mname)
        ci = model.cls(mname, cname)
        fn = ci.methods.get('loadhdf5')
        if fn is None:
            continue
        for c in walk_local(fn):
            if not isinstance(c, ast.Call):
                continue
            nm = (dotted(c.func) or '').split('.')
            k = nm[-1]
            tgt = None
            if k == 'cls' and len(nm) == 1:
                tgt = ci
            elif k in internal and k[:1].isupper():
                tgt = internal[k][1]
            if tgt is None:
                continue
            init = model.find_method(tgt, '__init__')[1]
            if init is None:
                continue
            n += 1
            q = '%s.loadhdf5' % cname
            if all(isinstance(a, ast.Constant) and a.value is None for a in c.args) and not c.keywords:
                rep.ob('reload-rebuild-keeps-options', mod, c, '%s: %s -- blank object, filled attribute by attribute' % (q, unparse(c)[:60]), True,
                       engine='parity', qual=q)
                continue
            if any(kw.arg is None for kw in c.keywords) or any(isinstance(a, ast.Starred) for a in c.args):
                rep.ob('reload-rebuild-keeps-options', mod, c, '%s: %s -- forwards a stored mapping' % (q, unparse(c)[:60]), True, engine='parity', qual=q)
                continue
            pos = [a.arg for a in init.args.args[1:]]
            nd = len(init.args.defaults)
            opt = pos[len(pos) - nd:] + [a.arg for a, d in zip(init.args.kwonlyargs, init.args.kw_defaults) if d is not None]
            given = set(pos[:len(c.args)]) | {kw.arg for kw in c.keywords}
            # options that shape the object: read anywhere in the constructor
            used = {x.id for x in ast.walk(init) if isinstance(x, ast.Name) and isinstance(x.ctx, ast.Load)}
            miss = [o for o in opt if o not in given and o in used]
            rep.ob('reload-rebuild-keeps-options', mod, c, '%s: %s' % (q, unparse(c)[:70]), not miss,
                   '' if not miss else 'the loader rebuilds a %s with the default %s: an original constructed with another value of %s '
                   '(which the stored object carried) is not reproduced by save / reload' % (tgt.name, ', '.join(miss), ', '.join(miss)),
                   engine='parity', qual=q)
    rep.floor('constructor calls in loaders', n, 3)


def _stale(model, rep, tier):
    n = 0
    scope = []
    for mname, cname in PAIRS:
        ci = model.cls(mname, cname)
        scope += [(model.mod(mname), '%s.%s' % (cname, m), ci.methods[m]) for m in ('addhdf5', 'loadhdf5')]
    for mname, w, r in CONVERTERS:
        scope += [(model.mod(mname), w, model.func(mname, w)), (model.mod(mname), r, model.func(mname, r))]
    if tier == 'thorough':
        scope = [(m, q, f) for m, q, f in model.all_functions()]
    for mod, q, fn in scope:
        n += 1
        hits = list(flow.stale_loop_variables(fn))
        if not hits:
            rep.ob('no-stale-loop-variable', mod, fn, q, True, nontrivial=any(isinstance(x, ast.For) for x in ast.walk(fn)),
                   engine='flow', qual=q)
        for node, name, lp in hits:
            rep.ob('no-stale-loop-variable', mod, node, '%s: `%s` read inside `for %s in ...`' % (q, name, unparse(lp.target)),
                   False, 'name %r is bound only by an earlier, finished loop: every iteration sees that loop\'s last value'
                   % name, engine='flow', qual=q)
    rep.count('functions scanned for stale loop variables', n)


OC, GF, CS = 'onsager/OnsagerCalc.py', 'onsager/GFcalc.py', 'onsager/crystalStars.py'
BREAKERS = [
    (OC, "        diffuser.threshold = diffuser.crys.threshold\n", "", 'loader-defines-attributes'),
    (OC, "        diffuser.sitelist = [[] for i in range(max(diffuser.invmap) + 1)]\n        for i, site in enumerate(diffuser.invmap):\n            diffuser.sitelist[site].append(i)\n",
     "        diffuser.sitelist = diffuser.crys.sitelist(diffuser.chem)\n", 'reload-keeps-dependencies'),
    (OC, "zip(HDF5group['omega1_ij'][()],", "zip(HDF5group['omega1_IJ'][()],", 'reader-keys-subset-writer'),
    (GF, "        GFcalc.D, GFcalc.eta = None, 0  # we don't yet know the diffusivity", "        GFcalc.D, GFcalc.eta = 0, 0  # we don't yet know the diffusivity", 'ctor-loader-constants'),
    (OC, "        diffuser.thermo = stars.StarSet.loadhdf5(diffuser.crys, HDF5group['thermo'])", "        diffuser.thermo = stars.StarSet.loadhdf5(diffuser.crys, HDF5group['kinetic'])",
     'subobject-pairing'),
    (OC, "            diffuser.Lvvvalues = arrays2vTKdict(HDF5group['Lvvvalues_vTK'],\n                                                HDF5group['Lvvvalues_values'],",
     "            diffuser.Lvvvalues = arrays2vTKdict(HDF5group['Lvvvalues_vTK'],\n                                                HDF5group['GFvalues_values'],", 'cache-one-predicate'),
    (OC, "    return np.array(vTKlist), np.array(vallist), vTKsplits", "    return np.array(vallist), np.array(vTKlist), vTKsplits", 'converter-order'),
    (CS, "        return {'i': self.i, 'j': self.j, 'R': self.R, 'dx': self.dx}", "        return {'i': self.i, 'j': self.j, 'R': self.R, 'dx': self.R}", 'yaml-tables'),
    (CS, "yaml.add_constructor(PAIRSTATE_YAMLTAG, PairState.PairState_constructor)", "yaml.add_constructor('!Pairstate', PairState.PairState_constructor)", 'yaml-tables'),
    (OC, "                for tag in tags: diffuser.tagdict[tag], diffuser.tagdicttype[tag] = i, tagtype", "                for t in tags: diffuser.tagdict[tag], diffuser.tagdicttype[tag] = i, tagtype",
     'no-stale-loop-variable'),
    (GF, "        GFcalc.jumppairs = tuple((pair[0], pair[1]) for pair in HDF5group['jumppairs'])", "        GFcalc.jumppairs = tuple((GFcalc.invmap[pair[0]], GFcalc.invmap[pair[1]]) for pair in HDF5group['jumppairs'])",
     'stored-value-unchanged'),
    (OC, "                    'GFexpansion',\n", "", None),
]
NEUTRALS = [
    (OC, "        diffuser.threshold = diffuser.crys.threshold\n", "        diffuser.threshold = getattr(diffuser.crys, 'threshold')\n"),
]
