"""
helpers for reading code in the normal form of sa/engines/norm.py: loop / comprehension headers as flat bindings,
guard prefixes of loop bodies, name-insensitive comparison.
"""
import ast

from ..model import unparse, dotted


class Pos:
    """the running position index of ``enumerate(seqs...)``."""

    def __init__(self, seqs):
        self.seqs = seqs

    def __repr__(self):
        return 'position in (%s)' % ', '.join(unparse(s) for s in self.seqs)


def _zip_args(it):
    if isinstance(it, ast.Call) and dotted(it.func) == 'zip' and not it.keywords:
        return list(it.args)
    return None


def bindings(target, it):
    """[(target node, source)] for a ``for target in it`` header: ``source`` is the expression the target runs over
    (an element of it per iteration) or a ``Pos`` for the index of enumerate."""
    if isinstance(it, ast.Call) and dotted(it.func) == 'enumerate' and len(it.args) == 1 and not it.keywords \
            and isinstance(target, (ast.Tuple, ast.List)) and len(target.elts) == 2:
        inner = it.args[0]
        z = _zip_args(inner)
        return [(target.elts[0], Pos(z if z is not None else [inner]))] + bindings(target.elts[1], inner)
    z = _zip_args(it)
    if z is not None and isinstance(target, (ast.Tuple, ast.List)) and len(target.elts) == len(z):
        out = []
        for t, a in zip(target.elts, z):
            out += bindings(t, a)
        return out
    return [(target, it)]


def bound_from(target, it, source_text):
    """the target node bound from the source whose text is ``source_text`` (None if absent)."""
    for t, s in bindings(target, it):
        if not isinstance(s, Pos) and unparse(s) == source_text:
            return t
    return None


def position_of(target, it):
    """(target node, [sequences]) of the enumerate index of a header, or None."""
    for t, s in bindings(target, it):
        if isinstance(s, Pos):
            return t, s.seqs
    return None


def split_guards(body):
    """leading ``if c: continue`` statements of a loop body -> ([conditions under which the iteration is skipped], rest)."""
    guards = []
    k = 0
    while k < len(body) and isinstance(body[k], ast.If) and not body[k].orelse and len(body[k].body) == 1 \
            and isinstance(body[k].body[0], ast.Continue):
        guards.append(body[k].test)
        k += 1
    return guards, body[k:]


def names(node):
    return {n.id for n in ast.walk(node) if isinstance(n, ast.Name)}


def target_names(node):
    return [n.id for n in ast.walk(node) if isinstance(n, ast.Name)]


def root(node):
    while isinstance(node, (ast.Subscript, ast.Attribute)):
        node = node.value
    return node


def base_text(node):
    """text of the container of an element expression: A for A[i][j], self.x for self.x[i]."""
    while isinstance(node, ast.Subscript):
        node = node.value
    return unparse(node)


def param_deps(fn):
    """flow-insensitive data dependence of locals on parameters: returns f(expr) -> set of parameter names whose value can
    reach ``expr`` through assignments / augmented assignments / loop bindings of the function."""
    a = fn.args
    params = {x.arg for x in a.posonlyargs + a.args + a.kwonlyargs}
    if a.vararg: params.add(a.vararg.arg)
    if a.kwarg: params.add(a.kwarg.arg)
    defs = {}   # local name -> list of expressions feeding it

    def feed(target, value):
        for n in ast.walk(target):
            if isinstance(n, ast.Name):
                defs.setdefault(n.id, []).append(value)

    for n in ast.walk(fn):
        if isinstance(n, ast.Assign):
            for t in n.targets:
                feed(root_target(t), n.value)
        elif isinstance(n, ast.AugAssign):
            feed(root_target(n.target), n.value)
        elif isinstance(n, (ast.For, ast.comprehension)):
            feed(n.target, n.iter)
        elif isinstance(n, ast.NamedExpr):
            feed(n.target, n.value)
    cache = {}

    def of_name(name, seen):
        if name in cache:
            return cache[name]
        out = {name} if name in params else set()
        if name in seen:
            return out
        seen = seen | {name}
        for v in defs.get(name, []):
            for m in ast.walk(v):
                if isinstance(m, ast.Name):
                    out |= of_name(m.id, seen)
        if not seen - {name}:
            cache[name] = out
        return out

    def of(expr):
        out = set()
        for m in ast.walk(expr):
            if isinstance(m, ast.Name):
                out |= of_name(m.id, frozenset())
        return out
    return of


def root_target(t):
    """the node whose names are (re)defined by assigning to ``t``: the container for element / attribute stores."""
    if isinstance(t, (ast.Tuple, ast.List)):
        return t
    while isinstance(t, (ast.Subscript, ast.Attribute, ast.Starred)):
        t = t.value
    return t
