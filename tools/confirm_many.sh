#!/bin/bash
# usage: confirm_many.sh C15:a C15:b ...   (sequential)
for x in "$@"; do id=${x%%:*}; v=${x##*:}; [ -f ${SEEDROOT:-/tmp/seed}/$id/patch_$v.diff ] && /verif/tools/confirm_seed.sh $id $v; done
