"""
E2 ``alias`` -- allocation-token may-alias analysis of one function (structured, flow-sensitive:
straight-line strong updates, union at joins, loops iterated to a fixed point) with callee summaries.

Tokens:  'F@<line>:<col>'  fresh allocation at that site
         'P:<param>'       the caller's object passed as parameter
         'A:<path>'        the object stored in attribute path (self.x, self.GFcalc.D)
         'E:<path>'        an element of the container stored at path (dict value, list item)
         'C'               immutable constant / scalar
         'O:<callee>'      result of an unresolved call (opaque; reported, never a violation by itself)

One level of structure below a fresh token is tracked (so that a *shallow* copy -- ``list(x)``, ``x[:]``, a comprehension that
passes elements through, iteration through ``enumerate``/``zip`` -- keeps the identity of what it contains):
    Analyzer.elems[F]   set of tokens of the elements of the fresh container allocated at F
    Analyzer.tuples[F]  list (per position) of token sets of the fresh tuple allocated at F
"""
import ast

from ..model import dotted, unparse, walk_local

FRESH_METHODS = {'copy', 'astype', 'tolist', 'flatten', 'sum', 'dot', 'max', 'min', 'mean', 'trace', 'conj',
                 'conjugate', 'round', 'cumsum', 'prod', 'format', 'join', 'split', 'strip', 'index', 'count', 'keys',
                 'values', 'items', 'tobytes', 'all', 'any', 'nonzero', 'argsort', 'argmax', 'argmin', 'std', 'var',
                 '__repr__', '__str__', 'inv'}
VIEW_METHODS = {'reshape', 'ravel', 'squeeze', 'transpose', 'swapaxes', 'view', 'diagonal'}
VIEW_ATTRS = {'T', 'real', 'imag', 'flat', 'data'}
NP_VIEW_FUNCS = {'asarray', 'ascontiguousarray', 'asanyarray', 'reshape', 'ravel', 'squeeze', 'transpose', 'atleast_1d',
                 'atleast_2d', 'atleast_3d', 'swapaxes', 'diagonal', 'real', 'imag', 'broadcast_to'}
PURE_BUILTINS = {'len', 'sum', 'min', 'max', 'abs', 'float', 'int', 'str', 'range', 'enumerate', 'zip', 'sorted', 'list',
                 'tuple', 'set', 'dict', 'any', 'all', 'next', 'iter', 'reversed', 'round', 'bool', 'frozenset', 'hash',
                 'isinstance', 'type', 'repr', 'print', 'map', 'filter', 'getattr'}
INPLACE_METHODS = {'sort', 'append', 'pop', 'remove', 'insert', 'extend', 'clear', 'reverse', 'fill', 'put', 'itemset',
                   'resize', 'update', 'add', 'discard', 'setdefault', 'popitem', 'partition', 'byteswap', 'setfield'}


def is_fresh(tokens):
    return all(t.startswith('F@') or t == 'C' for t in tokens)


class Write:
    def __init__(self, node, name, tokens, kind):
        self.node, self.name, self.tokens, self.kind = node, name, frozenset(tokens), kind


class Analysis:
    """result of analysing one function."""

    def __init__(self):
        self.returns = []  # (Return node, [token-set per returned element], [element expr])
        self.writes = []  # Write objects: in-place writes through local names
        self.stores = []  # (node, path, tokens) : attribute / container stores  self.a[k] = v
        self.opaque = set()
        self.env_at = {}  # id(stmt) -> env before the statement


class Analyzer:
    def __init__(self, model=None, module=None, cls=None, summaries=None, depth=2, typed=None):
        self.model, self.module, self.cls = model, module, cls
        self.summaries = summaries if summaries is not None else {}
        self.depth = depth
        self.typed = typed or {}  # 'self.GFcalc' -> ClassInfo
        self.elems = {}   # fresh container token -> tokens of its elements
        self.tuples = {}  # fresh tuple token -> [tokens per position]

    # ------------------------------------------------------------ one level of structure
    def elements(self, toks):
        """tokens of the elements of the containers ``toks`` (iteration, non-constant subscript)."""
        out = set()
        for t in toks:
            if t in self.elems:
                out |= self.elems[t]
            elif t in self.tuples:
                for pos in self.tuples[t]:
                    out |= pos
            elif t.startswith('A:'):
                out.add('E:' + t[2:])
            else:
                out.add(t)
        return out

    def _container(self, node, elem_toks):
        f = self._fresh(node)
        self.elems.setdefault(f, set()).update(t for t in elem_toks if t != 'C')
        return f

    def _tuple(self, node, positions):
        f = self._fresh(node)
        old = self.tuples.get(f)
        if old is None or len(old) != len(positions):
            self.tuples[f] = [set(p) for p in positions]
        else:
            for o, p in zip(old, positions):
                o |= p
        return f

    def _comprehension(self, e, env, res):
        cur = dict(env)
        for g in e.generators:
            it = self.tok(g.iter, cur, res)
            cur = self._assign(g.target, self.elements(it), cur, Analysis(), g)
            for c in g.ifs:
                self.tok(c, cur, res)
        return cur

    # ------------------------------------------------------------ expressions
    def tok(self, e, env, res):
        if e is None:
            return {'C'}
        if isinstance(e, ast.Constant):
            return {'C'}
        if isinstance(e, ast.Name):
            if e.id in env:
                return set(env[e.id])
            return {'C'} if e.id in ('True', 'False', 'None') else {'U:' + e.id}
        if isinstance(e, ast.Attribute):
            d = dotted(e)
            if e.attr in VIEW_ATTRS:
                return self.tok(e.value, env, res)
            if d and d.split('.')[0] == self.selfname:
                return {'A:' + d.replace(self.selfname, 'self', 1)}
            base = self.tok(e.value, env, res)
            # attribute of a local object: a field of that object (shares storage with it)
            out = set()
            for t in base:
                if t.startswith(('A:', 'P:')):
                    out.add(t + '.' + e.attr)
                elif t.startswith('F@') or t == 'C':
                    out.add(t)
                else:
                    out.add(t)
            return out or {'C'}
        if isinstance(e, ast.Subscript):
            base = self.tok(e.value, env, res)
            if self._fancy(e.slice, env):
                return {self._fresh(e)}
            out = set()
            for t in base:
                if t in self.tuples:
                    pos = self.tuples[t]
                    k = e.slice.value if isinstance(e.slice, ast.Constant) and isinstance(e.slice.value, int) else None
                    if k is not None and -len(pos) <= k < len(pos):
                        out |= pos[k]
                    else:
                        for p_ in pos:
                            out |= p_
                elif t in self.elems:
                    if isinstance(e.slice, ast.Slice):
                        out.add(self._container(e, self.elems[t]))  # x[a:b] of a list: a shallow copy
                    else:
                        out |= self.elems[t]
                elif t.startswith('A:'):
                    out.add('E:' + t[2:])
                else:
                    out.add(t)
            return out or {'C'}
        if isinstance(e, (ast.BinOp, ast.UnaryOp, ast.Compare)):
            for sub in ast.iter_child_nodes(e):
                if isinstance(sub, ast.expr):
                    self.tok(sub, env, res)
            return {self._fresh(e)}
        if isinstance(e, ast.BoolOp):
            out = set()
            for v in e.values:
                out |= self.tok(v, env, res)
            return out
        if isinstance(e, ast.IfExp):
            # the path assumption (``inplace`` is False) selects the branch exactly as it does for an ``if`` statement
            known = self._assumed(e.test)
            if known is True:
                return self.tok(e.body, env, res)
            if known is False:
                return self.tok(e.orelse, env, res)
            return self.tok(e.body, env, res) | self.tok(e.orelse, env, res)
        if isinstance(e, (ast.ListComp, ast.SetComp, ast.GeneratorExp)):
            cur = self._comprehension(e, env, res)
            return {self._container(e, self.tok(e.elt, cur, res))}
        if isinstance(e, (ast.List, ast.Set)):
            et = set()
            for x in e.elts:
                et |= self.tok(x, env, res)
            return {self._container(e, et)}
        if isinstance(e, ast.Tuple):
            return {self._tuple(e, [self.tok(x, env, res) for x in e.elts])}
        if isinstance(e, ast.Dict):
            et = set()
            for x in e.values:
                et |= self.tok(x, env, res)
            return {self._container(e, et)}
        if isinstance(e, ast.DictComp):
            cur = self._comprehension(e, env, res)
            return {self._container(e, self.tok(e.value, cur, res))}
        if isinstance(e, (ast.JoinedStr, ast.Lambda)):
            return {self._fresh(e)}
        if isinstance(e, ast.Starred):
            return self.tok(e.value, env, res)
        if isinstance(e, ast.Call):
            return self._call(e, env, res)
        return {self._fresh(e)}

    def _fresh(self, e):
        # one token per allocation *node*: two copies of an inlined helper share positions but are different allocations
        pos = (getattr(e, 'lineno', 0), getattr(e, 'col_offset', 0))
        if not hasattr(self, '_sites'):
            self._sites = {}
        ids = self._sites.setdefault(pos, [])
        if id(e) not in ids:
            ids.append(id(e))
        k = ids.index(id(e))
        return 'F@%d:%d' % pos + ('' if k == 0 else '#%d' % k)

    def _fancy(self, sl, env):
        """index expression that makes numpy return a copy (list / array index)."""
        elts = sl.elts if isinstance(sl, ast.Tuple) else [sl]
        for x in elts:
            if isinstance(x, (ast.List, ast.ListComp)):
                return True
            if isinstance(x, ast.Name) and x.id in self.listnames:
                return True
            if isinstance(x, ast.Attribute) and unparse(x) in self.listnames:
                return True
        return False

    def _self_attr_access(self, c):
        """the attribute name when the call reads an attribute of self by name: getattr(self, 'n'[, d]),
        self.__dict__.setdefault('n', d), self.__dict__.get('n'[, d]), vars(self).get / setdefault."""
        f = c.func
        if isinstance(f, ast.Name) and f.id == 'getattr' and len(c.args) >= 2 and isinstance(c.args[0], ast.Name) \
                and c.args[0].id == self.selfname and isinstance(c.args[1], ast.Constant):
            return str(c.args[1].value)
        if isinstance(f, ast.Attribute) and f.attr in ('setdefault', 'get') and c.args and isinstance(c.args[0], ast.Constant) \
                and unparse(f.value) in ('%s.__dict__' % self.selfname, 'vars(%s)' % self.selfname):
            return str(c.args[0].value)
        return None

    def _call(self, c, env, res):
        f = c.func
        d = dotted(f)
        nm = self._self_attr_access(c)
        if nm is not None:
            out = {'A:self.' + nm}
            for a in c.args[2:] if isinstance(f, ast.Name) else c.args[1:]:
                out |= {t for t in self.tok(a, env, res) if t != 'C' and not t.startswith('F@')}
            return out
        argtoks = [self.tok(a, env, res) for a in c.args] + [self.tok(k.value, env, res) for k in c.keywords]
        if isinstance(f, ast.Attribute):
            recv = f.value
            rd = dotted(recv)
            root = rd.split('.')[0] if rd else None
            # numpy / library namespace
            if root is not None and self.module is not None and root in self.module.imports and root != self.selfname \
                    and root not in env:
                if f.attr in NP_VIEW_FUNCS and c.args:
                    return argtoks[0]
                return {self._fresh(c)}
            if f.attr in ('values', 'items') and not c.args:
                el = self.elements(self.tok(recv, env, res))
                if f.attr == 'values':
                    return {self._container(c, el)}
                return {self._container(c, {self._tuple(c.func, [{'C'}, el])})}
            if f.attr == 'copy' and not c.args:
                # list.copy() / dict.copy() are shallow; ndarray.copy() is a new buffer (no recorded elements)
                rt = self.tok(recv, env, res)
                el = set()
                for t in rt:
                    if t in self.elems:
                        el |= self.elems[t]
                return {self._container(c, el)} if el else {self._fresh(c)}
            if f.attr in FRESH_METHODS:
                self.tok(recv, env, res)
                return {self._fresh(c)}
            if f.attr == 'get':
                base = self.tok(recv, env, res)
                out = set()
                for t in base:
                    out.add('E:' + t[2:] if t.startswith('A:') else t)
                if len(c.args) > 1:
                    out |= argtoks[1]
                else:
                    out.add('C')
                return out
            if f.attr in VIEW_METHODS:
                return self.tok(recv, env, res)
            # method of a repository class: summary
            s = self._summary(c, recv, f.attr)
            if s is not None:
                return s
            res.opaque.add(unparse(f))
            return {'O:' + unparse(f)}
        if isinstance(f, ast.Name):
            if f.id == 'getattr' and len(c.args) >= 2:
                base = self.tok(c.args[0], env, res)
                out = set()
                for t in base:
                    out.add(t + '.<attr>' if t.startswith(('A:', 'P:')) else t)
                    if t.startswith('P:'):
                        out.add(t)
                if len(c.args) > 2:
                    out |= argtoks[2]
                return out
            if f.id == 'dict' and not c.args:
                et = set()
                for t_ in argtoks:
                    et |= t_
                return {self._container(c, et)}
            if f.id in ('list', 'tuple', 'sorted', 'reversed', 'iter', 'set', 'frozenset') and len(c.args) >= 1:
                return {self._container(c, self.elements(argtoks[0]))}
            if f.id == 'enumerate' and c.args:
                return {self._container(c, {self._tuple(c.func, [{'C'}, self.elements(argtoks[0])])})}
            if f.id == 'zip' and c.args:
                return {self._container(c, {self._tuple(c.func, [self.elements(t) for t in argtoks[:len(c.args)]])})}
            if f.id in PURE_BUILTINS:
                return {self._fresh(c)}
            if self.model is not None and self.module is not None:
                ci = self.model.resolve_class(self.module, f.id)
                if ci is not None:
                    return {self._fresh(c)}
                if f.id in self.module.functions:
                    return {self._fresh(c)}  # module-level helpers build new objects (confirmed for the anchors)
                if f.id in self.module.imports:
                    return {self._fresh(c)}
            res.opaque.add(f.id)
            return {'O:' + f.id}
        # calling the result of an expression (self.GFcalc(...) handled above as Attribute? no: Name/Attribute only)
        return {self._fresh(c)}

    def _summary(self, call, recv, meth):
        """tokens returned by recv.meth(...) for receivers typed as repository classes:
        union over the callee's return statements, with the callee's 'self' re-rooted at the receiver."""
        if self.model is None:
            return None
        rtext = unparse(recv)
        ci = None
        if rtext == self.selfname:
            ci = self.cls
        elif rtext.replace(self.selfname, 'self', 1) in self.typed:
            ci = self.typed[rtext.replace(self.selfname, 'self', 1)]
        if ci is None:
            return None
        owner, fn = self.model.find_method(ci, meth)
        if fn is None:
            return None
        key = (owner.module.name, owner.name, meth)
        if key not in self.summaries:
            self.summaries[key] = {'C'}  # recursion guard
            if self.depth <= 0:
                self.summaries[key] = {'O:' + meth}
            else:
                sub = Analyzer(self.model, owner.module, owner, self.summaries, self.depth - 1, typed={})
                r = sub.run(fn)
                out = set()
                for _, toks, _ in r.returns:
                    for t in toks:
                        out |= t
                self.summaries[key] = out or {'C'}
        out = set()
        prefix = rtext.replace(self.selfname, 'self', 1)
        for t in self.summaries[key]:
            if t.startswith(('A:self', 'E:self')):
                out.add(t[:2] + prefix + t[6:])
            elif t.startswith('P:'):
                out.add('O:param-of-' + meth)
            else:
                out.add(t)
        return out

    # ------------------------------------------------------------ statements
    def _assumed(self, test):
        """truth value of a branch test under the caller's assumptions (path specialisation), or None."""
        assume = getattr(self, 'assume', None) or {}
        if isinstance(test, ast.Name) and test.id in assume:
            return bool(assume[test.id])
        if isinstance(test, ast.UnaryOp) and isinstance(test.op, ast.Not) and isinstance(test.operand, ast.Name) \
                and test.operand.id in assume:
            return not bool(assume[test.operand.id])
        return None

    def run(self, fn):
        res = Analysis()
        self.fn = fn
        self.selfname = fn.args.args[0].arg if fn.args.args and self.cls is not None and \
            (self.cls.kind(fn.name) if fn.name in self.cls.methods and self.cls.methods[fn.name] is fn else 'instance') \
            == 'instance' else '\0'
        env = {}
        allp = fn.args.posonlyargs + fn.args.args + fn.args.kwonlyargs
        for a in allp:
            if a.arg != self.selfname:
                env[a.arg] = {'P:' + a.arg}
        # names that hold python lists (fancy indices)
        self.listnames = set()
        for n in walk_local(fn):
            if isinstance(n, ast.Assign) and len(n.targets) == 1 and isinstance(n.targets[0], ast.Name) \
                    and isinstance(n.value, (ast.List, ast.ListComp)):
                self.listnames.add(n.targets[0].id)
        self.listnames |= getattr(self, 'extra_lists', set())
        self._block(fn.body, env, res)
        return res

    def _merge(self, a, b):
        out = {}
        for k in set(a) | set(b):
            out[k] = set(a.get(k, ())) | set(b.get(k, ()))
        return out

    def _leaves(self, st):
        """the statement never falls through (under the path assumptions): what follows it in the block is unreachable."""
        if isinstance(st, (ast.Return, ast.Raise, ast.Continue, ast.Break)):
            return True
        if isinstance(st, ast.If):
            known = self._assumed(st.test)
            if known is True:
                return self._block_leaves(st.body)
            if known is False:
                return self._block_leaves(st.orelse)
            return self._block_leaves(st.body) and self._block_leaves(st.orelse)
        return False

    def _block_leaves(self, stmts):
        return any(self._leaves(s) for s in stmts)

    def _block(self, stmts, env, res):
        for st in stmts:
            env = self._stmt(st, env, res)
            if self._leaves(st):
                break
        return env

    def _assign(self, target, toks, env, res, node):
        if isinstance(target, ast.Name):
            env = dict(env)
            env[target.id] = set(toks)
            return env
        if isinstance(target, (ast.Tuple, ast.List)):
            n = len(target.elts)
            structured = [t for t in toks if t in self.tuples and len(self.tuples[t]) == n]
            rest = set(toks) - set(structured)
            for k, t in enumerate(target.elts):
                tk = set(rest)
                for st_ in structured:
                    tk |= self.tuples[st_][k]
                env = self._assign(t, tk or {'C'}, env, res, node)
            return env
        if isinstance(target, ast.Attribute):
            d = dotted(target)
            if d and d.split('.')[0] == self.selfname:
                path = d.replace(self.selfname, 'self', 1)
                res.stores.append((node, path, frozenset(toks)))
                # names holding these tokens now also alias the attribute
                env = {k: (v | {'A:' + path} if (v & toks and not is_fresh_const(toks)) else v) for k, v in env.items()}
            return env
        if isinstance(target, ast.Subscript):
            base = target.value
            d = dotted(base)
            if d and d.split('.')[0] == self.selfname:
                path = d.replace(self.selfname, 'self', 1)
                res.stores.append((node, path + '[]', frozenset(toks)))
                env = {k: (v | {'E:' + path} if (v & toks and any(t.startswith('F@') for t in v & toks)) else v)
                       for k, v in env.items()}
                return env
            if isinstance(base, ast.Name) or isinstance(base, ast.Subscript):
                root = base
                while isinstance(root, ast.Subscript):
                    root = root.value
                if isinstance(root, ast.Name):
                    # the object whose item is replaced: the innermost base (c[i][2][:] = v writes the array c[i][2])
                    written = self.tok(base, env, res) if isinstance(base, ast.Subscript) else env.get(root.id, {'U:' + root.id})
                    for t in written:
                        if t in self.elems and not isinstance(target.slice, ast.Slice):
                            self.elems[t] |= {x for x in toks if x != 'C'}
                    res.writes.append(Write(node, root.id, written, 'subscript-store'))
            return env
        return env

    def _stmt(self, st, env, res):
        res.env_at[id(st)] = env
        if isinstance(st, ast.Assign):
            v = st.value
            if isinstance(v, ast.Tuple) and len(st.targets) == 1 and isinstance(st.targets[0], ast.Tuple) \
                    and len(v.elts) == len(st.targets[0].elts):
                toks = [self.tok(x, env, res) for x in v.elts]
                for t, tk in zip(st.targets[0].elts, toks):
                    env = self._assign(t, tk, env, res, st)
                return env
            toks = self.tok(v, env, res)
            for t in st.targets:
                env = self._assign(t, toks, env, res, st)
            return env
        if isinstance(st, ast.AugAssign):
            self.tok(st.value, env, res)
            t = st.target
            if isinstance(t, ast.Name):
                res.writes.append(Write(st, t.id, env.get(t.id, {'U:' + t.id}), 'augassign'))
                return env
            if isinstance(t, ast.Subscript):
                root = t.value
                while isinstance(root, ast.Subscript):
                    root = root.value
                d = dotted(root)
                if isinstance(root, ast.Name):
                    written = self.tok(t.value, env, res) if isinstance(t.value, ast.Subscript) else env.get(root.id, {'U:' + root.id})
                    res.writes.append(Write(st, root.id, written, 'subscript-augassign'))
                elif d and d.split('.')[0] == self.selfname:
                    res.stores.append((st, d.replace(self.selfname, 'self', 1) + '[]', frozenset()))
                return env
            if isinstance(t, ast.Attribute):
                d = dotted(t)
                if d and d.split('.')[0] == self.selfname:
                    res.stores.append((st, d.replace(self.selfname, 'self', 1), frozenset()))
            return env
        if isinstance(st, ast.Expr):
            v = st.value
            self.tok(v, env, res)
            calls = v.elts if isinstance(v, ast.Tuple) else [v]
            for c in calls:
                if isinstance(c, ast.Call) and isinstance(c.func, ast.Attribute) and c.func.attr in INPLACE_METHODS:
                    root = c.func.value
                    while isinstance(root, ast.Subscript):
                        root = root.value
                    if isinstance(root, ast.Name):
                        recv_t = self.tok(c.func.value, env, res) if isinstance(c.func.value, ast.Subscript) \
                            else env.get(root.id, {'U:' + root.id})
                        if c.func.attr in ('append', 'add', 'insert', 'extend', 'update') and c.args:
                            at = self.tok(c.args[-1], env, res)
                            if c.func.attr in ('extend', 'update'):
                                at = self.elements(at)
                            for t_ in recv_t:
                                if t_ in self.elems:
                                    self.elems[t_] |= {x for x in at if x != 'C'}
                        res.writes.append(Write(st, root.id, recv_t, 'method:' + c.func.attr))
                    else:
                        d = dotted(root)
                        if d and d.split('.')[0] == self.selfname:
                            res.stores.append((st, d.replace(self.selfname, 'self', 1) + '.' + c.func.attr + '()', frozenset()))
            return env
        if isinstance(st, ast.Return):
            v = st.value
            elts = v.elts if isinstance(v, ast.Tuple) else [v]
            res.returns.append((st, [self.tok(x, env, res) for x in elts], elts))
            return env
        if isinstance(st, ast.If):
            known = self._assumed(st.test)
            if known is True:
                return self._block(st.body, env, res)
            if known is False:
                return self._block(st.orelse, env, res)
            self.tok(st.test, env, res)
            e1 = self._block(st.body, env, res)
            e2 = self._block(st.orelse, env, res)
            t1, t2 = _terminates(st.body), _terminates(st.orelse)
            if t1 and not t2:
                return e2
            if t2 and not t1:
                return e1
            return self._merge(e1, e2)
        if isinstance(st, (ast.For, ast.AsyncFor)):
            it = self.tok(st.iter, env, res)
            # loop variable: element of the iterable
            elem = self.elements(it)
            nwrites, nstores, nrets = len(res.writes), len(res.stores), len(res.returns)
            cur = env
            for _ in range(3):
                start = self._assign(st.target, elem, cur, res, st)
                del res.writes[nwrites:], res.stores[nstores:], res.returns[nrets:]
                after = self._block(st.body, start, res)
                new = self._merge(cur, after)
                if new == cur:
                    break
                cur = new
            cur = self._block(st.orelse, cur, res)
            return cur
        if isinstance(st, ast.While):
            nwrites, nstores, nrets = len(res.writes), len(res.stores), len(res.returns)
            cur = env
            for _ in range(3):
                del res.writes[nwrites:], res.stores[nstores:], res.returns[nrets:]
                after = self._block(st.body, cur, res)
                new = self._merge(cur, after)
                if new == cur:
                    break
                cur = new
            return self._block(st.orelse, cur, res)
        if isinstance(st, ast.With):
            for it in st.items:
                tk = self.tok(it.context_expr, env, res)
                if it.optional_vars is not None:
                    env = self._assign(it.optional_vars, tk, env, res, st)
            return self._block(st.body, env, res)
        if isinstance(st, ast.Try):
            e = self._block(st.body, env, res)
            for h in st.handlers:
                e = self._merge(e, self._block(h.body, env, res))
            e = self._block(st.orelse, e, res)
            return self._block(st.finalbody, e, res)
        return env


def is_fresh_const(toks):
    return all(t == 'C' for t in toks)


def _terminates(stmts):
    return bool(stmts) and isinstance(stmts[-1], (ast.Return, ast.Raise, ast.Continue, ast.Break))


def live_after(fn, name, node):
    """True when ``name`` is read after ``node`` (later line, or anywhere inside a loop enclosing node)."""
    line = getattr(node, 'end_lineno', getattr(node, 'lineno', 0))
    loops = []
    p = getattr(node, '_parent', None)
    while p is not None and p is not fn:
        if isinstance(p, (ast.For, ast.While)):
            loops.append(p)
        p = getattr(p, '_parent', None)
    for n in walk_local(fn):
        if isinstance(n, ast.Name) and n.id == name and isinstance(n.ctx, ast.Load):
            if n.lineno > line:
                return True
            if any(any(x is n for x in ast.walk(lp)) for lp in loops):
                return True
    return False
