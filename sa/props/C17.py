"""
C17 -- Taylor-expansion change of variables and inversion are exact (structural clauses).

Not decided: the rotation tables and the inverse series (evaluation is execution).  Decided, restricted to
rotatedirections / rotatecoeff / rotate / irotate / inversecoeff / inv:
  * override: the 3D rotatedirections is overridden by Taylor2D; rotate / inv construct through type(self);
  * purity: rotatecoeff (inplace=False) and inversecoeff never write through their operand; irotate is the only
    in-place form;
  * accumulation: no augmented assignment through an array-valued index in the rotation-table builders (products of
    powers that land on the same reduced power must all be accumulated);
  * inversion series: every truncation filter inside inversecoeff is the same predicate on the *shifted* power
    (n + leading inverse power <= Nmax), the number of series terms is (Nmax - leading power) // first tail power, and the
    leading term must be isotropic (l = 0) and strictly lowest, otherwise an error is raised.
"""
import ast

from ..model import AnalysisError, dotted, unparse, walk_local
from ..engines import pattern
from ..engines.linform import canon
from . import _taylor

SCOPE = ['rotatedirections', 'rotatecoeff', 'rotate', 'irotate', 'inversecoeff', 'inv']


def run(model, rep, tier):
    rep.explanation = __doc__.strip()
    from ._common import caches_for
    caches_for(model, rep, 'C17')
    rep.not_decided = 'that rotate(p) evaluates to the original at the transformed point; that inv() * original = identity'
    nspec, nctor = _taylor.override_rule(model, rep, scope_methods=set(SCOPE))
    rep.floor('3D-specific members in scope', nspec, 1)
    rep.floor('construction sites in scope', nctor, 2)
    _taylor.purity_rule(model, rep, ['rotatecoeff', 'inversecoeff'])
    n = _taylor.fancy_rule(model, rep, methods={'rotatedirections', 'rotatecoeff', 'inversecoeff', 'makedirectmult', 'makeLprojections'})
    rep.floor('table builders scanned for array-valued accumulation', n, 5)
    mod = model.mod('PowerExpansion')
    t3 = model.cls('PowerExpansion', 'Taylor3D')
    ic = t3.methods.get('inversecoeff')
    if ic is None:
        raise AnalysisError('anchor vanished: Taylor3D.inversecoeff')
    rep.rule('series-truncation', 'all truncation filters of the inverse series test the shifted power against Nmax alike')
    filters = []
    for lc in [x for x in ast.walk(ic) if isinstance(x, ast.ListComp)]:
        for g in lc.generators:
            for cond in g.ifs:
                if 'Nmax' in unparse(cond):
                    # only filters over the *unshifted* terms (a direct product with the leading inverse) are judged: a filter
                    # over a list that some helper has already shifted compares another quantity and is left undecided
                    if not (isinstance(g.iter, ast.Call) and unparse(g.iter.func).endswith('productcoeff') and isinstance(g.target, ast.Tuple)):
                        rep.undecided('inversecoeff: truncation filter `%s` over %s not judged' % (unparse(cond), unparse(g.iter)[:40]))
                        continue
                    v = unparse(g.target.elts[0]) if isinstance(g.target, ast.Tuple) else unparse(g.target)
                    from ..engines.linform import rename
                    filters.append((canon(rename(cond, {v: 'N'})), cond))
    rep.floor('truncation filters in inversecoeff', len(filters), 2)
    kinds = {f for f, _ in filters}
    ok = len(kinds) <= 1
    rep.ob('series-truncation', mod, ic, 'inversecoeff: truncation filters %s' % sorted(unparse(c) for _, c in filters), ok,
           '' if ok else 'the series terms are truncated by different predicates: higher-order terms of the inverse are dropped '
                         '(or kept) inconsistently when the leading power is not zero', engine='siblings', qual='Taylor3D.inversecoeff')
    lead = pattern.find(ic, '_N_p = -_N_lead[0]')
    okf = False
    if lead and filters:
        want = canon(ast.parse('N + %s <= Nmax' % lead[0]['_N_p'], mode='eval').body)
        okf = kinds <= {want}
    rep.ob('series-truncation', mod, ic, 'filters compare (n + leading inverse power) with Nmax', okf,
           '' if okf else 'the filter does not use the power shifted by the leading term', engine='siblings', qual='Taylor3D.inversecoeff')
    ns = pattern.find(ic, '_N_s = (Nmax - _N_p) // _N_t[0][0]')
    oks = bool(ns) and bool(lead) and ns[0]['_N_p'] == lead[0]['_N_p'] and pattern.has(ic, 'for _N_k in range(2, _N_s + 1):\n    _E_b'.replace('_E_b', 'pass')) is not None
    loops = [x for x in walk_local(ic) if isinstance(x, ast.For) and ns and unparse(x.iter) == 'range(2, %s + 1)' % ns[0]['_N_s']]
    rep.ob('series-truncation', mod, ic, 'number of series terms = (Nmax - leading inverse power) // first tail power, loop 2..Nseries', oks and bool(loops),
           '' if oks and loops else 'series length changed', engine='siblings', qual='Taylor3D.inversecoeff')
    guards = [x for x in walk_local(ic) if isinstance(x, ast.If) and any(isinstance(s, ast.Raise) for s in x.body)]
    okg = any('[1] != 0' in unparse(g.test) for g in guards) and any('<= 0' in unparse(g.test) for g in guards)
    rep.ob('series-truncation', mod, ic, 'leading term must have l = 0 and strictly the lowest power (else ValueError)', okg,
           '' if okg else 'precondition checks removed', engine='siblings', qual='Taylor3D.inversecoeff')
    # rotate / irotate / inv shapes
    for m, tmpl in (('rotate', 'return type(self)(self.rotatecoeff(self.coefflist, _N_p))'),
                    ('inv', 'return type(self)(self.inversecoeff(self, _N_n))')):
        fn = t3.methods.get(m)
        ok = fn is not None and pattern.has(fn, tmpl)
        rep.ob('no-concrete-class', mod, fn or t3.node, 'Taylor3D.%s: %s' % (m, tmpl.replace('_N_', '')), ok,
               '' if ok else 'result is not a new object of the receiver\'s own class built from the non-in-place operation', engine='override',
               qual='Taylor3D.' + m)
    ir = t3.methods.get('irotate')
    ok = ir is not None and pattern.has(ir, 'self.rotatecoeff(self.coefflist, _N_p, inplace=True)') and pattern.has(ir, 'return self')
    rep.ob('no-concrete-class', mod, ir or t3.node, 'Taylor3D.irotate rotates its own coefficient list in place and returns self', ok,
           '' if ok else 'in-place rotation does not act on the receiver', engine='override', qual='Taylor3D.irotate')


PE = 'onsager/PowerExpansion.py'
BREAKERS = [
    (PE, "            tailn = [(n, l, coeff) for n, l, coeff in cls.coeffproductcoeff(tailn, tail)\n                     if n + leadinvpow <= Nmax]",
     "            tailn = [(n, l, coeff) for n, l, coeff in cls.coeffproductcoeff(tailn, tail)\n                     if n <= Nmax]", 'series-truncation'),
    (PE, "        return type(self)(self.inversecoeff(self, Nmax))", "        return Taylor3D(self.inversecoeff(self, Nmax))", 'no-concrete-class'),
    (PE, "        self.rotatecoeff(self.coefflist, powtrans, inplace=True)\n        return self", "        self.rotatecoeff(self.coefflist, powtrans)\n        return self", 'no-concrete-class'),
]
NEUTRALS = []
