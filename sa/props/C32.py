"""
C32 -- all cluster-expansion evaluators agree on every configuration (structural clauses).

Not decided: numerical equality of the energies.  Decided (siblings):
  * evalcluster, expandcluster_matrices and clusterevaluator treat vacancy clusters with the same guard (no vacancy in
    the cell -> skip; vacancy on another sublattice site -> skip; otherwise evaluate at the vacancy's cell only) and
    prepare (ci_vac, R_vac) the same way;
  * all three locate a cluster site with  self.index(R + site.R, site.ci)  and call a site occupied when its
    occupancy equals 1;
  * clusterevaluator: an interaction is the sorted tuple of its mobile site indices; repeated tuples accumulate their
    value; every site of a new interaction records the interaction's index; interactions containing the vacancy site
    are dropped; the constant term is appended last;
  * the sampler's energy sums exactly the interactions whose unoccupied-site count is zero, over the energy range
    established at construction (len of the interaction values returned by clusterevaluator).
"""
import ast

from ..model import AnalysisError, dotted, unparse, walk_local
from ..engines import pattern, exchange

EVALS = ('evalcluster', 'expandcluster_matrices', 'clusterevaluator')


def _index_domain(rep, mod, ci):
    """``self.index(R, ci)`` returns ``(n, mobile)``: n counts mobile sites when ``mobile`` is true and spectator sites
    otherwise -- two index spaces that both start at 0.  ``self.vacancy`` is a *mobile* index, so a comparison of n with it
    means something only where ``mobile`` is known to be true; elsewhere the spectator site that happens to carry the same
    number is taken for the vacancy.  Located: every comparison / membership test of such an n with self.vacancy; verified:
    the mobile flag of the same lookup is among the conditions holding there."""
    from ._common import conditions_at
    rep.rule('index-domain', 'a site index from self.index() is compared with the (mobile) vacancy index only where its mobile flag holds')
    n = 0
    for mname, fn in ci.methods.items():
        pairs = {}
        for st in ast.walk(fn):
            if isinstance(st, ast.Assign) and isinstance(st.targets[0], ast.Tuple) and len(st.targets[0].elts) == 2 \
                    and isinstance(st.value, ast.Call) and unparse(st.value.func) == 'self.index' \
                    and all(isinstance(e, ast.Name) for e in st.targets[0].elts):
                pairs[st.targets[0].elts[0].id] = st.targets[0].elts[1].id
        if not pairs:
            continue
        for c in ast.walk(fn):
            if not isinstance(c, ast.Compare):
                continue
            sides = [c.left] + list(c.comparators)
            if not any(unparse(x) == 'self.vacancy' for x in sides):
                continue
            idx = [x.id for x in sides if isinstance(x, ast.Name) and x.id in pairs]
            if not idx:
                continue
            # nested functions: conditions inside the innermost def
            owner = c
            while owner is not None and not isinstance(owner, (ast.FunctionDef, ast.Lambda)):
                owner = getattr(owner, '_parent', None)
            conds = conditions_at(owner if isinstance(owner, ast.FunctionDef) else fn, c)
            for i_ in idx:
                n += 1
                flag = pairs[i_]
                ok = flag in conds or ('%s == True' % flag) in conds or ('%s is True' % flag) in conds
                rep.ob('index-domain', mod, c, 'ClusterSupercell.%s: %s  [holds there: %s]' % (mname, unparse(c), ', '.join(sorted(conds))[:60] or 'nothing'), ok,
                       '' if ok else 'the index %s may number a spectator site here (its flag %s is not known to be true): the spectator site '
                       'with the same number as the vacancy is treated as the vacancy' % (i_, flag), engine='flow',
                       qual='ClusterSupercell.' + mname)
    rep.floor('comparisons of a looked-up index with the vacancy', n, 1)


def run(model, rep, tier):
    rep.explanation = __doc__.strip()
    from ._common import caches_for
    caches_for(model, rep, 'C32')
    rep.not_decided = 'numerical equality of the four evaluators with a brute-force sum over clusters'
    rep.rule('sibling-vacancy-guard', 'the three evaluators share the vacancy-cluster guard and its preamble')
    rep.rule('sibling-site-lookup', 'sites are located by self.index(R + site.R, site.ci) and occupied means == 1')
    rep.rule('interaction-bookkeeping', 'clusterevaluator keys, accumulates and registers interactions consistently')
    rep.rule('energy-sum', 'MonteCarloSampler.E sums the interactions with zero unoccupied sites over the energy range')
    mod = model.mod('supercell')
    ci = model.cls('supercell', 'ClusterSupercell')
    _index_domain(rep, mod, ci)
    guards = {}
    for m in EVALS:
        fn = ci.methods.get(m)
        if fn is None:
            raise AnalysisError('anchor vanished: ClusterSupercell.%s' % m)
        g = [n for n in walk_local(fn) if isinstance(n, ast.If) and isinstance(n.test, ast.Attribute) and n.test.attr == '__vacancy__' and n.orelse]
        if len(g) != 1:
            raise AnalysisError('ClusterSupercell.%s: vacancy-cluster guard not found' % m)
        cvar = unparse(g[0].test.value)
        from ..engines.linform import rename
        guards[m] = (g[0], ' | '.join(exchange.stmt_canon(rename(g[0], {cvar: 'CL'}))))
        pre = pattern.has(fn, 'if self.vacancy is not None:\n    _N_c, _N_r = self.ciR(self.vacancy)') or \
            any(isinstance(n, ast.If) and unparse(n.test) == 'self.vacancy is not None'
                and pattern.has(n, '_N_c, _N_r = self.ciR(self.vacancy)') for n in fn.body)
        rep.ob('sibling-vacancy-guard', mod, fn, '%s: (ci_vac, R_vac) = self.ciR(self.vacancy) when a vacancy is present' % m, pre,
               '' if pre else 'vacancy site / cell are not taken from the supercell\'s vacancy', engine='siblings', qual='ClusterSupercell.' + m)
    ref = guards['evalcluster'][1]
    for m in EVALS[1:]:
        ok = guards[m][1] == ref
        rep.ob('sibling-vacancy-guard', mod, guards[m][0], '%s: vacancy-cluster guard equals the one in evalcluster' % m, ok,
               '' if ok else 'the evaluators disagree on which vacancy clusters count: %s  vs  %s' % (guards[m][1][:140], ref[:140]),
               engine='siblings', qual='ClusterSupercell.' + m)
    okg = 'if (self.vacancy is None)' in ref.replace('is None', 'is None)') or 'self.vacancy is None' in ref
    okg = okg and 'CL.vacancy().ci' in ref and '[R_vac]' in ref.replace('[R_vac,]', '[R_vac]') and 'self.Rveclist' in ref
    rep.ob('sibling-vacancy-guard', mod, guards['evalcluster'][0], 'guard: no vacancy -> skip ; other site -> skip ; else only the vacancy cell',
           okg, '' if okg else 'reference guard lost one of its three cases', engine='siblings', qual='ClusterSupercell.evalcluster')
    # ---- site lookup
    for m in EVALS:
        fn = ci.methods[m]
        looks = pattern.find(fn, 'self.index(_N_R + _N_s.R, _N_s.ci)', 'expr')
        others = [c for c in ast.walk(fn) if isinstance(c, ast.Call) and unparse(c.func) == 'self.index' and not any(c is l['_node'] for l in looks)]
        # calls through a helper (isocc(R + site.R, site.ci) -> self.index(R, ci)) count when the helper forwards verbatim
        helper = pattern.find(fn, '_N_n, _N_m = self.index(_N_R, _N_ci)')
        via = pattern.find(fn, '_N_h(_N_R + _N_s.R, _N_s.ci)', 'expr') if helper else []
        ok = (bool(looks) or bool(via)) and len(others) == len(helper)
        rep.ob('sibling-site-lookup', mod, fn, '%s: %d site lookups self.index(R + site.R, site.ci)' % (m, len(looks) + len(via)), ok,
               '' if ok else 'a cluster site is located by another expression: %s' % [unparse(o) for o in others][:2], engine='siblings',
               qual='ClusterSupercell.' + m)
        occ = [c for c in ast.walk(fn) if isinstance(c, ast.Compare) and len(c.ops) == 1 and isinstance(c.ops[0], ast.Eq)
               and isinstance(c.left, ast.Subscript) and unparse(c.left.value) in ('mocc', 'socc')]
        vals = {unparse(c.comparators[0]) for c in occ}
        rep.ob('sibling-site-lookup', mod, fn, '%s: occupancy tests compare with %s' % (m, sorted(vals)), vals == {'1'},
               '' if vals == {'1'} else 'occupied is not `== 1` everywhere', engine='siblings', qual='ClusterSupercell.' + m)
    # ---- interaction bookkeeping
    ce = ci.methods['clusterevaluator']
    checks = [
        ('_N_t = tuple(sorted((self.index(_N_R + _N_s.R, _N_s.ci)[0] for _N_s in _N_ms)))', 'interaction key = sorted tuple of mobile site indices'),
        ('if self.vacancy in _N_t:\n    continue', 'interactions containing the vacancy site are dropped'),
        ('_N_i[_N_d[_N_t]] += _N_v', 'a repeated interaction accumulates its value'),
        ('for _N_n in _N_t:\n    _N_si[_N_n].append(_N_N)', 'every site of a new interaction records its index'),
        ('_N_i.append(_N_E0)', 'the constant term is appended'),
    ]
    for tmpl, what in checks:
        ok = pattern.has(ce, tmpl)
        rep.ob('interaction-bookkeeping', mod, ce, 'clusterevaluator: ' + what, ok, '' if ok else 'clusterevaluator no longer does this',
               engine='owner', qual='ClusterSupercell.clusterevaluator')
    new = pattern.find(ce, '_N_i.append(_N_v)')
    okn = False
    for b in new:
        blk = getattr(b['_node'], '_parent', None)
        if pattern.has(blk, '_N_d[_N_t] = _N_N') and pattern.has(blk, '_N_N += 1'):
            okn = True
    rep.ob('interaction-bookkeeping', mod, ce, 'clusterevaluator: new interaction -> append value, record its index, advance the counter', okn,
           '' if okn else 'interaction index and value list get out of step', engine='owner', qual='ClusterSupercell.clusterevaluator')
    last = ce.body[-2] if len(ce.body) >= 2 else None
    okl = last is not None and pattern.has(last, '_N_i.append(_N_E0)') and isinstance(ce.body[-1], ast.Return)
    rep.ob('interaction-bookkeeping', mod, ce, 'clusterevaluator: constant term is the last interaction', okl,
           '' if okl else 'constant term is not appended last', engine='owner', qual='ClusterSupercell.clusterevaluator')
    # ---- sampler energy
    cm = model.mod('cluster')
    mc = model.cls('cluster', 'MonteCarloSampler')
    E = mc.methods.get('E')
    init = mc.methods.get('__init__')
    if E is None or init is None:
        raise AnalysisError('anchor vanished: MonteCarloSampler.E / __init__')
    # one loop over the energy range pairing count and value; the value is added (``+=`` or spelled out) exactly under the
    # condition ``count == 0`` -- whether written as a nested if or as a guard with continue
    from ._common import conditions_at, update_of
    ok = False
    for lp in [x for x in walk_local(E) if isinstance(x, ast.For)]:
        from ._common import resolve_local
        if unparse(resolve_local(E, lp.iter)) != 'zip(self.clustercount[:self.Nenergy], self.interactvalue[:self.Nenergy])' \
                or not (isinstance(lp.target, ast.Tuple) and len(lp.target.elts) == 2):
            continue
        c_, v_ = [unparse(t) for t in lp.target.elts]
        ups = [(st, update_of(st)) for st in ast.walk(lp) if isinstance(st, (ast.Assign, ast.AugAssign))]
        ups = [(st, u) for st, u in ups if u is not None]
        if len(ups) == 1 and ups[0][1][1] == 'Add' and unparse(ups[0][1][2]) == v_:
            conds = {c for c in conditions_at(E, ups[0][0]) if c_ in c}
            rets = [r for r in walk_local(E) if isinstance(r, ast.Return)]
            ok = conds in ({'%s == 0' % c_}, {'0 == %s' % c_}) and len(rets) == 1 and unparse(rets[0].value) == ups[0][1][0]
    rep.ob('energy-sum', cm, E, 'E = sum of interactvalue[n] for n < Nenergy with clustercount[n] == 0', ok,
           '' if ok else 'energy does not sum exactly the fully occupied interactions of the energy range', engine='flow',
           qual='MonteCarloSampler.E')
    ok = pattern.has(init, '_N_si, _N_iv = supercell.clusterevaluator(spectator_occ, clusterexp, enevalues)') and \
        pattern.has(init, 'self.Nenergy = len(_N_iv)')
    rep.ob('energy-sum', cm, init, 'Nenergy = number of interactions returned by clusterevaluator (before jump terms are appended)', ok,
           '' if ok else 'the energy range does not end where the energy interactions end', engine='flow', qual='MonteCarloSampler.__init__')


SC = 'onsager/supercell.py'
BREAKERS = [
    (SC, "                    elif clust.vacancy().ci != ci_vac: continue\n                    # now, set it up!", "                    # now, set it up!", 'sibling-vacancy-guard'),
    (SC, "                            if self.vacancy in intertuple:\n                                continue\n", "", 'interaction-bookkeeping'),
    (SC, "                    for site in clust:\n                        n, mob = self.index(R + site.R, site.ci)", "                    for site in clust:\n                        n, mob = self.index(R - site.R, site.ci)",
     'sibling-site-lookup'),
    (SC, "                            active &= (socc[n] == 1)", "                            active &= (socc[n] == 0)", 'sibling-site-lookup'),
    ('onsager/cluster.py', "            if ccount == 0:\n                E += Evalue", "            if ccount <= 1:\n                E += Evalue", 'energy-sum'),
    (SC, "                                interact[interdict[intertuple]] += value\n                            else:\n                                # new interaction!\n                                interact.append(value)\n                                interdict[intertuple] = Ninteract\n                                for n in intertuple:\n                                    siteinteract[n].append(Ninteract)\n                                Ninteract += 1\n        # add on our constant term",
     "                                interact[interdict[intertuple]] = value\n                            else:\n                                # new interaction!\n                                interact.append(value)\n                                interdict[intertuple] = Ninteract\n                                for n in intertuple:\n                                    siteinteract[n].append(Ninteract)\n                                Ninteract += 1\n        # add on our constant term",
     'interaction-bookkeeping'),
]
NEUTRALS = []
