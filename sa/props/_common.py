"""helpers shared by several property checkers."""
import ast
from ..model import ast_copy as _ast_copy

from ..model import AnalysisError, unparse, walk_local, call_name, dotted
from ..engines import dimgen, resolve

# (module, function-prefix) -> reason : objects that are three-dimensional by definition
DIM_EXEMPT = {
    ('crystal', 'Voigtstrain'): '3D elasticity helper',
    ('crystal', 'isotropicFourthRank'): '3D elasticity helper',
    ('crystal', 'FourthRankIsotropic'): '3D elasticity helper',
    ('crystal', 'Crystal.FCC'): '3D lattice by definition',
    ('crystal', 'Crystal.BCC'): '3D lattice by definition',
    ('crystal', 'Crystal.HCP'): '3D lattice by definition',
    ('cluster', 'MonteCarloSampler_param'): 'empty (0,3) placeholder overwritten when a network exists',
    ('PowerExpansion', 'Taylor3D'): 'the 3D class itself',
}


def dim_generic(model, rep, scope, rule='dimension-generic', min_functions=1):
    """scope: list of (module name, qualified function name or 'Class.' prefix or '' for the whole module)."""
    rep.rule(rule, 'no hard-coded spatial dimension (np.eye(3), np.zeros(3), range(3), bare Taylor3D) outside a '
                   'context that the code itself restricts to 3D')
    nfun = 0
    for mname, q in scope:
        mod = model.mod(mname)
        funcs = [(qq, fn) for qq, fn in mod.functions.items()
                 if (qq == q or (q.endswith('.') and qq.startswith(q)) or q == '')]
        # only outermost functions: nested ones are walked with their parent's context
        funcs = [(qq, fn) for qq, fn in funcs if not any(qq != o and qq.startswith(o + '.') and o in mod.functions for o, _ in funcs)]
        if not funcs and q and not q.endswith('.'):
            raise AnalysisError('anchor vanished: %s.%s' % (mname, q))
        for qq, fn in funcs:
            if any(mname == m and (qq == p or qq.startswith(p + '.')) for (m, p) in DIM_EXEMPT):
                continue
            nfun += 1
            hits = []
            dimgen.scan(fn, lambda n, d, c: hits.append((n, d, c)))
            bad = [(n, d) for n, d, c in hits if c is None]
            if not bad:
                rep.ob(rule, mod, fn, '%s.%s' % (mname, qq), True, nontrivial=bool(hits) or len(fn.body) > 3, engine='dimgen', qual=qq)
            for n, d in bad:
                rep.ob(rule, mod, n, '%s in %s.%s' % (d, mname, qq), False,
                       'hard-coded three-dimensional construct on a path that 2D crystals also take', engine='dimgen', qual=qq)
    rep.floor('functions scanned for hard-coded dimensions', nfun, min_functions)
    # synthetic positive example
    probe = ast.parse('def f(self):\n    if self.dim == 3:\n        a = np.eye(3)\n    return np.zeros(3)\n').body[0]
    h = []
    dimgen.scan(probe, lambda n, d, c: h.append(c))
    if h != [3, None]:
        raise AnalysisError('dimgen self-check failed: %s' % h)


def names_and_calls_resolve(model, rep, scope, rule='resolves'):
    """undefined names + arity of resolved internal calls inside the given (module, qual-prefix) scopes."""
    rep.rule(rule, 'every name resolves and every resolved internal call is compatible with the callee\'s signature')
    total = resolved = 0
    for mname, q in scope:
        mod = model.mod(mname)
        und = {}
        for qq, n, l in resolve.undefined_names(mod, lambda x: x == q or x.startswith(q + '.') or (q.endswith('.') and x.startswith(q))):
            und.setdefault(qq, []).append(n)
        nodes = [(qq, fn) for qq, fn in mod.functions.items() if qq == q or (q.endswith('.') and qq.startswith(q))]
        nodes = [(qq, fn) for qq, fn in nodes if not any(qq != o and qq.startswith(o + '.') for o, _ in nodes)]
        if not nodes:
            raise AnalysisError('anchor vanished: %s.%s' % (mname, q))
        for qq, fn in nodes:
            u = sorted(set(und.get(qq, [])))
            rep.ob(rule, mod, fn, '%s.%s: names' % (mname, qq), not u,
                   '' if not u else 'name(s) %s do not resolve: NameError when reached' % ', '.join(u), engine='resolve', qual=qq)
            for call, text, ok, msg, res in resolve.check_arity(model, mod, fn):
                total += 1
                resolved += res
                if res:
                    rep.ob(rule, mod, call, text, ok, msg + (': TypeError when reached' if not ok else ''), engine='resolve', qual=qq)
    rep.count('call sites', total)
    rep.count('call sites resolved', resolved)
    return total, resolved


def groupop_composition_order(model, rep, rule='composition-order'):
    """GroupOp.__mul__: the operand whose rotation acts last (outer factor of np.dot(A.rot, B.rot)) must also be the
    outer map of the permutation composition  tuple(A_list[i] for i in B_list)."""
    from ..engines import pattern
    rep.rule(rule, 'product of operations composes rotation, translation and atom permutation in the same order')
    mod = model.mod('crystal')
    fn = model.func('crystal', 'GroupOp.__mul__')
    rots = pattern.find(fn, 'np.dot(_N_a.rot, _N_b.rot)', 'expr')
    perms = pattern.find(fn, 'tuple((tuple((_N_l0[_N_i] for _N_i in _N_l1)) for _N_l0, _N_l1 in zip(_N_a.indexmap, _N_b.indexmap)))', 'expr')
    perms_rev = pattern.find(fn, 'tuple((tuple((_N_l1[_N_i] for _N_i in _N_l0)) for _N_l0, _N_l1 in zip(_N_a.indexmap, _N_b.indexmap)))', 'expr')
    if not rots or not (perms or perms_rev):
        raise AnalysisError('GroupOp.__mul__: rotation product / permutation composition not recognised')
    outer = rots[0]['_N_a']
    ok = bool(perms) and perms[0]['_N_a'] == outer
    if not ok and perms_rev:
        ok = perms_rev[0]['_N_b'] == outer
    rep.ob(rule, mod, (perms or perms_rev)[0]['_node'], 'GroupOp.__mul__: rotation %s.rot . %s.rot ; permutation %s'
           % (outer, rots[0]['_N_b'], unparse((perms or perms_rev)[0]['_node'])[:90]), ok,
           '' if ok else 'the atom permutation of the product is composed in the opposite order to its rotation: the recorded '
                         'permutation of g*h is that of h*g (visible only when the permutations do not commute)', engine='pattern',
           qual='GroupOp.__mul__')
    trans = pattern.find(fn, 'np.dot(_N_a.rot, _N_b.trans) + _N_a.trans', 'expr') + pattern.find(fn, '_N_a.trans + np.dot(_N_a.rot, _N_b.trans)', 'expr')
    okt = bool(trans) and trans[0]['_N_a'] == outer
    rep.ob(rule, mod, fn, 'GroupOp.__mul__: translation = outer.rot . inner.trans + outer.trans', okt,
           '' if okt else 'translation of the product is not that of applying the inner operation first', engine='pattern',
           qual='GroupOp.__mul__')


# ---------------------------------------------------------------------------------------------------------------------
# form-independent helpers: the same fact whether the code says ``if c: BODY`` or ``if not c: continue`` ; BODY, and
# whether a value is used in place or through a local bound once
_TERMINATORS = (ast.Continue, ast.Break, ast.Return, ast.Raise)


def _neg(test):
    from ..engines.norm import _not
    import copy
    return _not(_ast_copy(test))


def _fallthrough(st):
    """conditions known to hold when control falls out of statement ``st``: for an ``if`` whose body always leaves
    (continue / break / return / raise) the negated test, plus what falls out of its else branch (elif chains); for an
    ``if`` whose else branch always leaves, the test."""
    if not isinstance(st, ast.If):
        return set()
    if st.body and isinstance(st.body[-1], _TERMINATORS):
        out = {unparse(_neg(st.test))}
        for s_ in st.orelse:
            out |= _fallthrough(s_)
        return out
    if st.orelse and isinstance(st.orelse[-1], _TERMINATORS):
        return {unparse(st.test)}
    return set()


def conditions_at(fn, node):
    """texts of the conditions known to hold when ``node`` (inside ``fn``) executes: tests of the enclosing ``if`` (negated
    on the else side) and negated tests of earlier sibling guards ``if c: continue / break / return / raise``."""
    out = set()
    n = node
    while n is not None and n is not fn:
        par = getattr(n, '_parent', None)
        if par is None:
            break
        for field in ('body', 'orelse', 'finalbody'):
            blk = getattr(par, field, None)
            if isinstance(blk, list) and any(x is n for x in blk):
                if isinstance(par, ast.If):
                    out.add(unparse(par.test) if field == 'body' else unparse(_neg(par.test)))
                for sib in blk:
                    if sib is n:
                        break
                    out |= _fallthrough(sib)
        n = par
    return out


def resolve_local(fn, e, depth=3, only=None):
    """``e`` with every local name that is bound by exactly one plain assignment in ``fn`` (also as one element of a
    tuple-to-tuple assignment) replaced by its definition; ``only(definition)`` restricts which locals are written out."""
    import copy
    defs = {}
    for n in ast.walk(fn):
        if isinstance(n, ast.Assign) and len(n.targets) == 1:
            t, v = n.targets[0], n.value
            pairs = list(zip(t.elts, v.elts)) if isinstance(t, ast.Tuple) and isinstance(v, ast.Tuple) and len(t.elts) == len(v.elts) else [(t, v)]
            for tt, vv in pairs:
                if isinstance(tt, ast.Name):
                    defs.setdefault(tt.id, []).append(vv)
        elif isinstance(n, (ast.For, ast.comprehension, ast.AugAssign, ast.NamedExpr, ast.With, ast.ExceptHandler)):
            tg = getattr(n, 'target', None)
            if tg is not None:
                for x in ast.walk(tg):
                    if isinstance(x, ast.Name):
                        defs.setdefault(x.id, []).extend([None, None])
    single = {k: v[0] for k, v in defs.items() if len(v) == 1 and v[0] is not None and (only is None or only(v[0]))}

    class R(ast.NodeTransformer):
        def __init__(self, d):
            self.d = d

        def visit_Name(self, n):
            if isinstance(n.ctx, ast.Load) and n.id in single and self.d > 0:
                return R(self.d - 1).visit(_ast_copy(single[n.id]))
            return n

    return R(depth).visit(_ast_copy(e))


def update_of(st):
    """(target text, operator name, operand) of ``t op= e`` or of the spelled-out ``t = t op e`` (``t = e + t`` for +)."""
    if isinstance(st, ast.AugAssign):
        return unparse(st.target), type(st.op).__name__, st.value
    if isinstance(st, ast.Assign) and len(st.targets) == 1 and isinstance(st.value, ast.BinOp):
        t = unparse(st.targets[0])
        if unparse(st.value.left) == t:
            return t, type(st.value.op).__name__, st.value.right
        if isinstance(st.value.op, (ast.Add, ast.Mult)) and unparse(st.value.right) == t:
            return t, type(st.value.op).__name__, st.value.left
    return None


def resolve_in_block(stmt, e):
    """``e`` (an expression of statement ``stmt``) with each local name replaced by the value of the nearest earlier plain
    assignment to it among the preceding statements of the same block (so a temporary that is re-bound in every branch or
    iteration is still written out where it is used)."""
    import copy
    par = getattr(stmt, '_parent', None)
    block = None
    for field in ('body', 'orelse', 'finalbody'):
        b = getattr(par, field, None)
        if isinstance(b, list) and any(x is stmt for x in b):
            block = b
    if block is None:
        return e
    defs = {}
    for s_ in block:
        if s_ is stmt:
            break
        if isinstance(s_, ast.Assign) and len(s_.targets) == 1 and isinstance(s_.targets[0], ast.Name):
            defs[s_.targets[0].id] = s_.value
        else:
            for x in ast.walk(s_):
                if isinstance(x, ast.Name) and isinstance(x.ctx, ast.Store):
                    defs.pop(x.id, None)

    class R(ast.NodeTransformer):
        def visit_Name(self, n):
            if isinstance(n.ctx, ast.Load) and n.id in defs:
                return _ast_copy(defs[n.id])
            return n

    return R().visit(_ast_copy(e))


# ---------------------------------------------------------------- memoryless state setters
def memoryless_setters(model, rep, setters, rule='state-reuse-keyed'):
    """``setters``: list of (module, class, method) whose job is to (re)compute state of the object from their arguments.
    For each, every attribute the method writes must be written on every path before it is read (the state after the
    call is a function of the arguments), or -- where the method deliberately keeps a stored value -- the conditions that
    decide between keeping and recomputing must depend on every argument the stored value depends on.  Early-return memo
    guards are judged by the memo-key rule and skipped here."""
    from ..engines import memo
    rep.rule(rule, 'a state-setting method reuses a stored attribute only under conditions that depend on every argument '
                   'the stored value depends on')
    n = 0
    for mname, cname, meth in setters:
        mod = model.mod(mname)
        ci = model.cls(mname, cname)
        fn = ci.methods.get(meth)
        if fn is None:
            raise AnalysisError('anchor vanished: %s.%s' % (cname, meth))
        n += 1
        guards = [g.node for g in memo.find_guards(fn)]
        reuses = memo.state_reuse(fn, guards)
        bad = [r for r in reuses if r.value_deps - r.guard_deps]
        if not bad:
            rep.ob(rule, mod, fn, '%s.%s: %s' % (cname, meth, 'every written attribute is assigned before it is read' if not reuses else
                                               'stored %s reused under tests covering %s' % (', '.join(r.attr for r in reuses),
                                                                                            sorted(set().union(*[r.value_deps for r in reuses])))),
                   True, engine='memo', qual='%s.%s' % (cname, meth))
        for r in bad:
            miss = sorted(r.value_deps - r.guard_deps)
            rep.ob(rule, mod, r.node, '%s.%s keeps self.%s from an earlier call (%s)' % (cname, meth, r.attr, r.how), False,
                   'the stored value depends on %s, but the tests that decide whether it is recomputed (%s) do not: a call that '
                   'differs only in %s leaves self.%s as computed for the previous arguments'
                   % (', '.join(miss), '; '.join(unparse(g)[:60] for g in r.guards) or 'none', ', '.join(miss), r.attr),
                   engine='memo', qual='%s.%s' % (cname, meth))
    _memo_keys_owned(model, rep, setters)
    # synthetic positive example: a cache keyed on one of two arguments
    from ..model import attach_parents
    probe = attach_parents(ast.parse(
        'class X:\n def set(self, a, b):\n  k = a * 2\n  if self.k is None or k != self.k:\n   self.k = k\n   self.v = {}\n'
        '  for i in range(3):\n   if i not in self.v:\n    self.v[i] = f(i, a, b)\n'))
    rr = {r.attr: r for r in memo.state_reuse(probe.body[0].body[0])}
    if 'v' not in rr or rr['v'].value_deps - rr['v'].guard_deps != {'b'}:
        raise AnalysisError('memo engine self-check failed on the synthetic conditional reuse')
    return n


def _deep_tokens(an, toks):
    seen, todo = set(), list(toks)
    while todo:
        t = todo.pop()
        if t in seen:
            continue
        seen.add(t)
        todo.extend(an.elems.get(t, ()))
        for p in an.tuples.get(t, ()):
            todo.extend(p)
    return seen


def _mutable_evidence(fn, p):
    """the method treats parameter ``p`` as a container / array / object compared by identity (something a caller can edit
    in place), not as a plain scalar: it is subscripted, iterated, measured, unpacked into numpy, or compared with ``is``."""
    for n in ast.walk(fn):
        if isinstance(n, ast.Subscript) and isinstance(n.value, ast.Name) and n.value.id == p:
            return True
        if isinstance(n, (ast.For, ast.comprehension)):
            if any(isinstance(x, ast.Name) and x.id == p for x in ast.walk(n.iter)):
                return True
        if isinstance(n, ast.Call):
            f = (dotted(n.func) or '')
            if f.split('.')[-1] in ('len', 'asarray', 'array', 'array_equal', 'allclose', 'all', 'any', 'zip', 'enumerate', 'tuple', 'list',
                                    'sorted', 'isclose', 'dot', 'ascontiguousarray') \
                    and any(isinstance(x, ast.Name) and x.id == p for a in n.args for x in ast.walk(a)):
                return True
        if isinstance(n, ast.Compare) and any(isinstance(o, (ast.Is, ast.IsNot)) for o in n.ops):
            sides = [n.left] + n.comparators
            if any(isinstance(x, ast.Name) and x.id == p for x in sides) and not any(isinstance(x, ast.Constant) and x.value is None for x in sides):
                return True
        if isinstance(n, ast.Attribute) and isinstance(n.value, ast.Name) and n.value.id == p:
            return True   # an object with attributes
    return False


def _memo_keys_owned(model, rep, setters, rule='memo-key-owned'):
    """A state-setting method that remembers what it was last called with (to skip a repeated call) must remember a *copy*:
    if the remembered key shares storage with the caller's argument (``np.asarray`` of a float array is the array itself),
    the caller editing its array in place and calling again compares the array with itself, and the call is skipped with
    the object still describing the old values.  Alias analysis of the method: every attribute read by one of its
    early-return guards and assigned by the method holds nothing that may alias a parameter."""
    from ..engines import memo, alias
    rep.rule(rule, 'what an early-return guard of a state-setting method compares its arguments with shares no storage with the arguments')
    for mname, cname, meth in setters:
        mod = model.mod(mname)
        ci = model.cls(mname, cname)
        fn = ci.methods[meth]
        s = fn.args.args[0].arg
        params = [a.arg for a in fn.args.args[1:] + fn.args.kwonlyargs]
        gattrs = set()
        for g in memo.find_guards(fn):
            gattrs |= {x.attr for x in ast.walk(g.node.test) if isinstance(x, ast.Attribute) and isinstance(x.value, ast.Name)
                       and x.value.id == s}
        if not gattrs:
            continue
        an = alias.Analyzer(model, mod, ci, {}, depth=0)
        res = an.run(fn)
        for node, path, toks in res.stores:
            a = path.split('.', 1)[1] if path.startswith('self.') else None
            if a is None or a.split('[')[0].split('.')[0] not in gattrs or path.endswith('()'):
                continue
            deep = _deep_tokens(an, toks)
            shared = sorted(p for p in params if any(t == 'P:' + p or t.startswith('P:%s.' % p) or t == 'E:P:' + p for t in deep)
                            and _mutable_evidence(fn, p))
            rep.ob(rule, mod, node, '%s.%s: %s = %s' % (cname, meth, path, unparse(getattr(node, 'value', node))[:60]), not shared,
                   '' if not shared else 'the remembered value is (or contains a view of) the caller\'s own %s: after the caller changes '
                   'that object in place the guard compares it with itself and skips the recomputation' % ', '.join(shared),
                   engine='alias', qual='%s.%s' % (cname, meth))
    # synthetic positive example
    from ..model import attach_parents
    probe = attach_parents(ast.parse('class X:\n def set(self, a):\n  k = tuple(x.T for x in (a,))\n  self.k = k\n'))
    from ..model import ClassInfo
    an = alias.Analyzer(None, None, ClassInfo(None, probe.body[0]), {}, depth=0)
    res = an.run(probe.body[0].body[0])
    if not any(path == 'self.k' and any(t.startswith(('P:a', 'E:P:a')) for t in _deep_tokens(an, toks)) for _, path, toks in res.stores):
        raise AnalysisError('alias engine self-check failed: a view of a parameter kept in a tuple is not seen as the parameter')


# ---------------------------------------------------------------- rotations act from the left
GROUPOP_NAMES = ('self', 'other', 'g', 'g0', 'g1', 'g2', 'gop', 'ginv')


def rotations_from_left(model, rep, scope, rule='operator-side', min_instances=1):
    """In every function of ``scope`` (list of (module, qualified-name prefix)): a rotation operator (``.cartrot``, ``.rot``
    of a group operation, or a local computed as lattice . M . invlatt) that multiplies a non-operator stands on the left,
    or is explicitly transposed when it stands on the right.  ``np.dot(v, R)`` is R^T v -- the inverse rotation -- which
    coincides with R v only for operations of order two (what cubic/hexagonal test cases with scalar data exercise)."""
    from ..engines import coordkind
    rep.rule(rule, 'a rotation matrix applied to a vector/tensor is the left factor of the product (or transposed on the right)')
    n = 0
    fields = {}
    for who in GROUPOP_NAMES:
        for f, k in {'rot': 'op:latt', 'trans': 'unit', 'cartrot': 'op:cart'}.items():
            fields['%s.%s' % (who, f)] = k
    for mname, prefix in scope:
        mod = model.mod(mname)
        for q, fn in mod.functions.items():
            if not q.startswith(prefix):
                continue
            if any(q != o and q.startswith(o + '.') and o in mod.functions for o in mod.functions):
                continue  # nested functions are walked with their parents
            ty, _ = coordkind.type_function(fn, {}, fields=fields)
            for node, side, tr in coordkind.rotation_sides(fn, ty):
                n += 1
                ok = side == 'left' or tr
                rep.ob(rule, mod, node, '%s: %s  [rotation on the %s%s]' % (q, unparse(node)[:80], side, ', transposed' if tr else ''),
                       ok, '' if ok else 'the rotation is the right factor of the product and is not transposed: this applies the '
                                         'inverse operation (identical only for operations of order two)', engine='coordkind', qual=q)
    rep.floor('rotation applications', n, min_instances)
    # synthetic positive example
    probe = ast.parse('def f(self, g, s):\n    return np.dot(s, g.cartrot)\n').body[0]
    from ..model import attach_parents
    attach_parents(probe)
    ty, _ = coordkind.type_function(probe, {}, fields=fields)
    if [(s_, t_) for _, s_, t_ in coordkind.rotation_sides(probe, ty)] != [('right', False)]:
        raise AnalysisError('coordkind self-check failed on the synthetic right-hand rotation')
    return n


# ---------------------------------------------------------------- discipline of caches and remembered values
def _scope_methods(model, ci, roots):
    """methods of ``ci`` reachable from ``roots`` through self.m() calls (None: every method)."""
    if roots is None:
        return None
    from ..engines import parity
    out = set()
    for r in roots:
        if r.endswith('*'):
            for m in ci.methods:
                if m.startswith(r[:-1]):
                    out |= parity.ctor_path(model, ci, m)
        else:
            if model.find_method(ci, r)[1] is None:
                raise AnalysisError('anchor vanished: %s.%s' % (ci.name, r))
            out |= parity.ctor_path(model, ci, r)
    return out


def cache_discipline(model, rep, classes, exempt=None, skip_guard_rule=False):
    """For every class in ``classes`` (list of (module, class)): (a) early-return guards compare every parameter the skipped
    body reads; (b) every lazily filled container attribute (a cache: looked up and stored in the same method) is keyed on
    everything its values depend on, its entries are never edited in place and never handed to the caller; (c) a method that
    keeps an attribute from an earlier call under a test relating its arguments to stored state recomputes it whenever an
    argument the value depends on changes.  Today's tree has caches only in VacancyMediated.Lij; the rules are there to
    judge any cache / shortcut a change introduces, by the same standard.  ``exempt``: {(class, method, parameter): reason}."""
    from ..engines import cache, memo
    exempt = exempt or {}
    rep.rule('memo-key-complete', 'an early-return guard compares every parameter the skipped body reads')
    rep.rule('cache-key-complete', 'a cached value is stored under a key that depends on every parameter the value depends on')
    rep.rule('cache-entry-not-mutated', 'no in-place write reaches an entry of a cache')
    rep.rule('cache-entry-not-returned', 'nothing returned to the caller shares storage with an entry of a cache')
    rep.rule('state-reuse-keyed', 'an attribute kept from an earlier call is recomputed whenever an argument it depends on changes')
    ok_self, got = cache.selfcheck()
    if not ok_self:
        raise AnalysisError('cache engine self-check failed: %s' % got)
    nmeth = 0
    for entry in classes:
        mname, cname = entry[0], entry[1]
        mod = model.mod(mname)
        ci = model.cls(mname, cname)
        only = _scope_methods(model, ci, entry[2] if len(entry) > 2 else None)
        for meth, fn in ci.methods.items():
            if ci.kind(meth) != 'instance' or not fn.args.args or (only is not None and meth not in only):
                continue
            nmeth += 1
            q = '%s.%s' % (cname, meth)
            guards = memo.find_guards(fn)
            if not skip_guard_rule:
                for g in guards:
                    used = memo.params_read_after(fn, g)
                    for p, node in sorted(used.items()):
                        if p in g.compared_params:
                            continue
                        if (cname, meth, p) in exempt:
                            rep.note('%s: parameter %s exempt from the memo key: %s' % (q, p, exempt[(cname, meth, p)]))
                            continue
                        rep.ob('memo-key-complete', mod, g.node, '%s: guard `%s` ignores parameter %s' % (q, unparse(g.node.test)[:80], p), False,
                               'the skipped body depends on %s but the guard returns early whatever its value: a call that differs only '
                               'in %s gets the previous result/state' % (p, p), engine='memo', qual=q)
            # conditional reuse under a test that relates an argument to stored state
            s = fn.args.args[0].arg
            for r in memo.state_reuse(fn, [g.node for g in guards]):
                rel = [t for t in r.guards if memo._relates_input_to_state(t, s)]
                if not rel:
                    continue
                miss = sorted(r.value_deps - r.guard_deps)
                if miss and not all((cname, meth, p) in exempt for p in miss):
                    rep.ob('state-reuse-keyed', mod, r.node, '%s keeps self.%s from an earlier call (%s)' % (q, r.attr, r.how), False,
                           'the stored value depends on %s, but the tests that decide whether it is recomputed (%s) do not'
                           % (', '.join(miss), '; '.join(unparse(g)[:60] for g in r.guards)), engine='memo', qual=q)
        for cm in cache.find_cache_methods(ci):
            if only is not None and cm.name not in only:
                continue
            q = '%s.%s' % (cname, cm.name)
            for f in cache.check_method(model, cm):
                rep.ob(f.rule, mod, f.node, f.text, f.ok, f.msg, engine='cache', qual=q)
    # remembered derived values are reset by every writer of what they were computed from
    rep.rule('memo-invalidated-by-writers', 'a method that writes an attribute from which a remembered value was computed resets that value')
    for entry in classes:
        ci = model.cls(entry[0], entry[1])
        for ma in cache.find_memo_attrs(model, ci):
            for f in cache.check_invalidation(model, ci, ma):
                rep.ob(f.rule, model.mod(entry[0]), f.node, f.text, f.ok, f.msg, engine='cache')
        only = set(_scope_methods(model, ci, entry[2])) if len(entry) > 2 else None
        seen_c = set()
        for cm in cache.find_cache_methods(ci):
            if (only is not None and cm.name not in only) or cm.attr in seen_c:
                continue
            seen_c.add(cm.attr)
            for f in cache.check_invalidation(model, ci, cache.cache_as_memo(model, cm)):
                rep.ob(f.rule, model.mod(entry[0]), f.node, f.text, f.ok, f.msg, engine='cache')
    # module-level caches of the modules these classes live in
    for mname in sorted({e[0] for e in classes}):
        mod = model.mod(mname)
        for q, f in cache.check_module_caches(mod):
            rep.ob(f.rule, mod, f.node, f.text, f.ok, f.msg, engine='cache', qual=q)
    rep.count('methods examined for caches / shortcuts', nmeth)
    rep.ob('memo-key-complete', None, None, 'cache discipline evaluated on %d method(s) of %s' % (nmeth, ', '.join(e[1] for e in classes)),
           True, nontrivial=False, engine='cache')
    return nmeth


# classes whose methods implement each property: any cache / early-return shortcut added to them is judged by cache_discipline
CACHE_SCOPE = {
    'C01': [('OnsagerCalc', 'VacancyMediated'), ('crystalStars', 'VectorStarSet')],
    'C02': [('OnsagerCalc', 'Interstitial')],
    'C04': [('OnsagerCalc', 'Interstitial'), ('OnsagerCalc', 'VacancyMediated')],
    'C06': [('OnsagerCalc', 'VacancyMediated')],
    'C10': [('GFcalc', 'GFCrystalcalc')],
    'C11': [('OnsagerCalc', 'Interstitial')],
    'C14': [('OnsagerCalc', 'VacancyMediated'), ('GFcalc', 'GFCrystalcalc'), ('crystalStars', 'VectorStarSet'),
            ('crystalStars', 'StarSet'),
            # what the calculator and its Green function ask of the crystal
            ('crystal', 'Crystal', ['fullkptmesh', 'reducekptmesh', 'jumpnetwork', 'jumpnetwork2lattice', 'sitelist', 'FullVectorBasis',
                                    'VectorBasis', 'SymmTensorBasis', 'g_pos', 'g_direc', 'g_tensor', 'pos2cart', 'cart2pos'])],
    'C15': [('OnsagerCalc', 'VacancyMediated'), ('OnsagerCalc', 'Interstitial')],
    'C16': [('PowerExpansion', 'Taylor3D'), ('PowerExpansion', 'Taylor2D')],
    'C17': [('PowerExpansion', 'Taylor3D'), ('PowerExpansion', 'Taylor2D')],
    'C18': [('crystal', 'Crystal', ['__init__', 'gengroup', 'genpoint', 'genWyckoffsets', 'center', 'calcmetric', 'genBZG']),
            ('crystal', 'GroupOp')],
    'C21': [('crystal', 'Crystal', ['jumpnetwork', 'jumpnetwork2lattice', 'sitelist'])],
    'C23': [('crystal', 'Crystal', ['pos2cart', 'unit2cart', 'cart2unit', 'cart2pos', 'g_direc', 'g_tensor', 'g_pos', 'g_vect', 'g_cart',
                                    'g_direc_equivalent', 'Wyckoffpos']),
            ('crystal', 'GroupOp'), ('crystalStars', 'PairState'), ('cluster', 'ClusterSite')],
    'C24': [('crystalStars', 'StarSet')],
    'C26': [('crystalStars', 'StarSet'), ('OnsagerCalc', 'VacancyMediated')],
    'C28': [('supercell', 'Supercell')],
    'C29': [('OnsagerCalc', 'VacancyMediated'), ('OnsagerCalc', 'Interstitial'), ('supercell', 'Supercell')],
    'C31': [('cluster', 'Cluster'), ('cluster', 'ClusterSite')],
    'C32': [('supercell', 'ClusterSupercell'), ('cluster', 'MonteCarloSampler')],
    'C33': [('cluster', 'MonteCarloSampler'), ('supercell', 'ClusterSupercell')],
    'C34': [('supercell', 'ClusterSupercell'), ('cluster', 'MonteCarloSampler')],
    'C35': [('cluster', 'MonteCarloSampler'), ('cluster', 'MonteCarloSampler_jit')],
}
CACHE_EXEMPT = {('StarSet', 'generate', 'threshold'): 'only buckets states by |dx|^2; orbit membership is decided by exact PairState equality',
                ('VectorStarSet', 'generate', 'threshold'): 'numerical tolerance; every caller in the package uses the default'}


def caches_for(model, rep, prop):
    return cache_discipline(model, rep, CACHE_SCOPE[prop], exempt=CACHE_EXEMPT)


# ---------------------------------------------------------------- constructors copy their array arguments
def ctor_copies_arguments(model, rep, mname, cname, mutable_params, rule='constructor-copies-arguments'):
    """Nothing the constructor stores on the object shares storage with one of the (mutable) arguments listed: the object's
    derived data (symmetry group, metric, inverse lattice ...) are computed once from the values at construction, so a caller
    that later edits its own array must not change the object.  Alias analysis (one level of structure) of ``__init__``."""
    from ..engines import alias
    rep.rule(rule, 'attributes set by the constructor share no storage with its array / list arguments')
    mod = model.mod(mname)
    ci = model.cls(mname, cname)
    fn = ci.methods.get('__init__')
    if fn is None:
        raise AnalysisError('anchor vanished: %s.__init__' % cname)
    an = alias.Analyzer(model, mod, ci, {}, depth=0)
    res = an.run(fn)

    def deep(toks, seen=None):
        seen = set() if seen is None else seen
        out = set()
        for t in toks:
            if t in seen:
                continue
            seen.add(t)
            out.add(t)
            if t in an.elems:
                out |= deep(an.elems[t], seen)
            if t in an.tuples:
                for p in an.tuples[t]:
                    out |= deep(p, seen)
        return out
    n = 0
    for node, path, toks in res.stores:
        if path.endswith(('[]', '()')) or not toks:
            continue
        n += 1
        shared = sorted(p for p in mutable_params if any(t == 'P:' + p or t.startswith('P:%s.' % p) for t in deep(toks)))
        rep.ob(rule, mod, node, '%s.__init__: %s = %s' % (cname, path, unparse(getattr(node, 'value', node))[:60]), not shared,
               '' if not shared else 'the stored value is (or contains) the caller\'s own %s: editing that array after construction changes '
               'the object, while everything derived from it at construction (symmetry group, metric, ...) stays as it was' % ', '.join(shared),
               engine='alias', qual='%s.__init__' % cname)
    rep.floor('%s.__init__ attribute stores' % cname, n, 5)
    probe = ast.parse('class X:\n def __init__(self, a):\n  self.a = a.T\n  self.b = [u for u in a]\n  self.c = a.copy()\n')
    from ..model import attach_parents
    attach_parents(probe)

    class _CI:
        name, module = 'X', None
        methods = {'__init__': probe.body[0].body[0]}

        def kind(self, n):
            return 'instance'
    a2 = alias.Analyzer(None, None, _CI(), {}, depth=0)
    r2 = a2.run(probe.body[0].body[0])
    got = [p for _, p, t in r2.stores if any(x.startswith('P:a') for x in (t | set().union(*[a2.elems.get(y, set()) for y in t])))]
    if got != ['self.a', 'self.b']:
        raise AnalysisError('alias self-check failed on the synthetic constructor: %s' % got)
    return n


def alias_names(fn, name):
    """``name`` together with every local it is a plain alias of / that is a plain alias of it (``a = b`` bound once, as left
    behind when a helper that builds and returns an array has been inlined)."""
    names = {name}
    changed = True
    while changed:
        changed = False
        for n in ast.walk(fn):
            if isinstance(n, ast.Assign) and len(n.targets) == 1 and isinstance(n.targets[0], ast.Name) and isinstance(n.value, ast.Name):
                a, b = n.targets[0].id, n.value.id
                if (a in names) != (b in names):
                    names |= {a, b}
                    changed = True
    return names


# ---------------------------------------------------------------- inverse maps are placed by member, not by position
def inverse_map_placed(model, rep, sites, rule='inverse-map-placed'):
    """``sites``: (module, class, method, attribute).  ``self.<attribute>`` is the inverse of a partition P (a list of lists
    of member indices): readers index it with a *member* and expect the number of the block that holds it.  The writer
    therefore has to place each entry at the member's own index -- ``M[i] = ind`` for ``i in P[ind]``, or a mapping keyed by
    ``i``, or a scan ordered by ``range(N)`` -- and not in the order in which the blocks list their members (the two agree
    only when the flattened partition is 0..N-1, as for the one-block and already-sorted crystals of the test-suite).
    Located: the definitions of the attribute in the method; verified: one of the accepted placing forms is present;
    reported: a positional flattening ``[ind for ind, w in enumerate(P) for i in w]`` in which the member variable is
    never used.  Anything else is undecided."""
    rep.rule(rule, 'an inverse index map of a partition is written at the member index (M[i] = ind for i in P[ind]), not in listing order')
    for mname, cname, meth, attr in sites:
        mod = model.mod(mname)
        ci = model.cls(mname, cname)
        fn = ci.methods.get(meth)
        if fn is None:
            raise AnalysisError('anchor vanished: %s.%s' % (cname, meth))
        s = fn.args.args[0].arg
        # names under which the map is known in the method
        names = set()
        defs = []
        for n in walk_local(fn):
            if isinstance(n, ast.Assign):
                for t in n.targets:
                    if isinstance(t, ast.Attribute) and isinstance(t.value, ast.Name) and t.value.id == s and t.attr == attr:
                        defs.append(n)
                        if isinstance(n.value, ast.Name):
                            names |= alias_names(fn, n.value.id)
        if not defs:
            rep.undecided('%s.%s: no assignment to self.%s found' % (cname, meth, attr))
            continue

        def is_map(e):
            return (isinstance(e, ast.Attribute) and isinstance(e.value, ast.Name) and e.value.id == s and e.attr == attr) or \
                   (isinstance(e, ast.Name) and e.id in names)

        def loops_of(node):
            """[(counter or None, block name, member name)] for nested `for ind, w in enumerate(P)` / `for i in w` around node."""
            out, chain = [], []
            p = node
            while p is not None and p is not fn:
                if isinstance(p, ast.For):
                    chain.append((p.target, p.iter))
                p = getattr(p, '_parent', None)
            return _pairs(chain[::-1])

        def _pairs(gens):
            out = []
            for k, (tgt, it) in enumerate(gens):
                if isinstance(it, ast.Call) and call_name(it) == 'enumerate' and isinstance(tgt, ast.Tuple) and len(tgt.elts) == 2 \
                        and all(isinstance(e, ast.Name) for e in tgt.elts):
                    cnt, blk = tgt.elts[0].id, tgt.elts[1].id
                    for tgt2, it2 in gens[k + 1:]:
                        if isinstance(it2, ast.Name) and it2.id == blk and isinstance(tgt2, ast.Name):
                            out.append((cnt, blk, tgt2.id))
            return out

        placed, positional = [], []
        for n in walk_local(fn):
            # M[i] = ind inside the nested loops
            if isinstance(n, ast.Assign):
                for t in n.targets:
                    if isinstance(t, ast.Subscript) and is_map(t.value) and isinstance(t.slice, ast.Name):
                        for cnt, blk, mem in loops_of(n):
                            if t.slice.id == mem and isinstance(n.value, ast.Name) and n.value.id == cnt:
                                placed.append(n)
            if isinstance(n, (ast.ListComp, ast.GeneratorExp, ast.DictComp, ast.SetComp)):
                # is this comprehension (part of) a definition of the map?
                top = n
                while getattr(top, '_parent', None) is not None and not isinstance(top._parent, ast.stmt):
                    top = top._parent
                st = getattr(top, '_parent', None)
                if not (isinstance(st, ast.Assign) and (st in defs or any(isinstance(t, ast.Name) and t.id in names for t in st.targets))):
                    continue
                gens = [(g.target, g.iter) for g in n.generators]
                elt_names = {x.id for e in ([n.key, n.value] if isinstance(n, ast.DictComp) else [n.elt]) for x in ast.walk(e)
                             if isinstance(x, ast.Name)}
                cond_names = {x.id for g in n.generators for c in g.ifs for x in ast.walk(c) if isinstance(x, ast.Name)}
                for cnt, blk, mem in _pairs(gens):
                    if isinstance(n, ast.DictComp):
                        if any(isinstance(x, ast.Name) and x.id == mem for x in ast.walk(n.key)):
                            placed.append(n)
                    elif cnt in elt_names and mem not in elt_names | cond_names:
                        positional.append((n, cnt, blk, mem))
                # a scan ordered by the member index: for i in range(N) ... for ind, w in enumerate(P) if i in w
                if gens and isinstance(gens[0][1], ast.Call) and call_name(gens[0][1]) == 'range' and isinstance(gens[0][0], ast.Name) \
                        and gens[0][0].id in cond_names | elt_names and len(gens) + sum(isinstance(x, (ast.GeneratorExp, ast.ListComp))
                                                                                        for x in ast.walk(n.elt)) >= 2:
                    placed.append(n)
        q = '%s.%s' % (cname, meth)
        if placed:
            rep.ob(rule, mod, placed[0], '%s: self.%s placed at the member index: %s' % (q, attr, unparse(placed[0])[:70]), True,
                   engine='pattern', qual=q)
        elif positional:
            n, cnt, blk, mem = positional[0]
            rep.ob(rule, mod, n, '%s: self.%s = %s' % (q, attr, unparse(n)[:80]), False,
                   'the entries are laid down in the order the blocks list their members (%s is never used to place them): '
                   'entry k is the block of the k-th listed member, not of member k, unless the flattened partition happens to be '
                   '0..N-1' % mem, engine='pattern', qual=q)
        else:
            rep.undecided('%s: how self.%s is placed was not recognised' % (q, attr))


# ---------------------------------------------------------------- tests on dimensional quantities are scale free
RATE_ROOTS = {
    # (module, class, method): calls that return rates (degree 1 under a uniform scaling of all jump rates) / probabilities
    ('OnsagerCalc', 'Interstitial', 'diffusivity'): {'self.ratelist': 1, 'self.symmratelist': 1, 'self.siteprob': 0},
    ('OnsagerCalc', 'Interstitial', 'elastodiffusion'): {'self.ratelist': 1, 'self.symmratelist': 1, 'self.siteprob': 0},
    ('OnsagerCalc', 'Interstitial', 'losstensors'): {'self.ratelist': 1, 'self.symmratelist': 1, 'self.siteprob': 0},
    ('OnsagerCalc', 'VacancyMediated', 'Lij'): {'self._symmetricandescaperates': (1, 1, 1, 1, 1, 1)},
    ('GFcalc', 'GFCrystalcalc', 'SetRates'): {'self.SymmRates': 1},
}
# attributes of self that carry rates (or whose scaling is not known); every other attribute is geometry / bookkeeping
RATE_ATTRS = {'GFcalc': ('symmrate', 'maxrate', 'escape', 'omega_qij', 'omega_Taylor', 'g_Taylor', 'gT_ij', 'D', 'eta', 'r', 'vr', 'd', 'e',
                         'pqtrans', 'pmax', 'qptrans', 'uxtrans', 'Taylor_fnlp', 'g_Taylor_fnlp', 'gkpt', 'rates'),
              'OnsagerCalc': ('GFcalc', 'GFvalues', 'Lvvvalues', 'etavvalues', 'bias_solver')}


def scale_free_tests(model, rep, roots=None, rule='scale-free-tests'):
    """In the transport routines (and what they call): no quantity whose value scales with the jump rates is compared with a
    pure number -- through ``np.allclose(x, 0)`` / ``np.isclose`` (absolute tolerance), an ordering against a constant, or
    an absolute cut-off handed to a pseudo-inverse.  Such a test changes its outcome under a uniform scaling of all rates
    (low temperature, another unit of time), so the result stops being proportional to the rates.  Degrees are inferred by
    the units engine; where a degree is unknown nothing is reported."""
    from fractions import Fraction
    from ..engines import units
    rep.rule(rule, 'no test compares a quantity that scales with the jump rates against a pure number (absolute tolerance)')
    nfun = 0
    for (mname, cname, meth), seeds in RATE_ROOTS.items():
        if roots is not None and (mname, cname, meth) not in roots:
            continue
        mod = model.mod(mname)
        ci = model.cls(mname, cname)
        fn = ci.methods.get(meth)
        if fn is None:
            raise AnalysisError('anchor vanished: %s.%s' % (cname, meth))
        cd = {k: (tuple(Fraction(x) for x in v) if isinstance(v, tuple) else Fraction(v)) for k, v in seeds.items()}

        class _Attrs(dict):
            def __contains__(self, k):
                return isinstance(k, str) and k.startswith('self.') and k.count('.') == 1

            def __getitem__(self, k):
                return None if k.split('.')[1] in RATE_ATTRS.get(mname, ()) else Fraction(0)
        an = units.Analyzer(model, mod, ci, call_degrees=cd, attr_degrees=_Attrs(), depth=2)
        params = {a.arg: Fraction(0) for a in fn.args.args[1:] + fn.args.kwonlyargs}
        an.run(fn, '%s.%s' % (cname, meth), params)
        nfun += 1
        q = '%s.%s' % (cname, meth)
        if not an.sites:
            rep.ob(rule, mod, fn, '%s: every test on a rate-dimensioned quantity is relative' % q, True, engine='units', qual=q)
        seen = set()
        for s in an.sites:
            key = (s.node.lineno, s.node.col_offset, s.what)
            if key in seen:
                continue
            seen.add(key)
            via = ' (reached from %s through %s)' % (q, ' -> '.join(unparse(c.func) for _, c in s.chain)) if s.chain else ''
            rep.ob(rule, mod, s.node, '%s: %s%s' % (s.qual, s.what, via), False,
                   'the outcome of this test changes when every jump rate is multiplied by the same factor: for small rates (low '
                   'temperature, another unit of time) the other branch is taken and the result is no longer proportional to the rates',
                   engine='units', qual=s.qual)
    # synthetic positive example
    import ast as _ast
    from ..model import attach_parents
    probe = attach_parents(_ast.parse('def f(self, a):\n    w = self.rates(a)\n    b = np.dot(w, a)\n    if np.allclose(b, 0):\n        return 0\n'
                                      '    keep = np.abs(b) > 1e-8\n    ok = np.abs(b) > 1e-8 * np.abs(b).max()\n    return b\n')).body[0]
    an = units.Analyzer(None, None, None, call_degrees={'self.rates': Fraction(1)}, depth=0)
    an.run(probe, 'f', {'a': Fraction(0)})
    if sorted(s.node.lineno for s in an.sites) != [4, 6]:
        raise AnalysisError('units engine self-check failed: %s' % [(s.node.lineno, s.what) for s in an.sites])
    return nfun
