"""print the normal form of functions: python tools/shownorm.py <module> <qualname> [...]   (ONSAGER_REPO honoured)"""
import sys, ast
sys.path.insert(0, '/verif')
from sa.model import Model
from sa.engines.norm import _strip_doc
m = Model(form='normal')
mod = m.mod(sys.argv[1])
for q in sys.argv[2:]:
    fn = mod.functions[q]
    doc = fn.body
    fn2 = ast.FunctionDef(name=fn.name, args=fn.args, body=_strip_doc(fn.body), decorator_list=[], returns=None, type_comment=None, type_params=[])
    print(ast.unparse(ast.fix_missing_locations(fn2)))
    print()
