"""
Adequacy tier: in-memory mutants of the parsed module set.

A *breaker* (file, old, new, rule-that-must-fire) must make the property's check report a violation whose
rule matches; a *neutral* variant (behaviour-preserving rewrite) must leave it silent.  Mutants are applied
to the source text of the current working tree by exact-once replacement; a mutant whose anchor text is not
present (the tree changed) is *skipped*, never a failure -- the registered tree verdict does not depend on
this tier.  Nothing is written to disk.

  python -m sa.mutate [Cxx ...]      exit 0 when every applicable mutant behaves as required
"""
import ast
import importlib
import sys
from concurrent.futures import ProcessPoolExecutor

from .model import Model, AnalysisError, form_for
from .report import Report, load_known


def apply(model_src, rel, old, new):
    if model_src.count(old) != 1:
        return None
    return model_src.replace(old, new)


def run_mutant(prop, rel, old, new):
    """returns (status, rules_fired) ; status in applied / skipped"""
    base = Model()
    src = base.read(rel)
    mutated = apply(src, rel, old, new)
    if mutated is None:
        return 'skipped', []
    try:
        ast.parse(mutated)
    except SyntaxError:
        return 'skipped', []
    pm = importlib.import_module('sa.props.%s' % prop)
    rep = Report(prop, 'quick', quiet=True)
    try:
        pm.run(Model(overrides={rel: mutated}, form=form_for(prop)), rep, 'quick')
        err = None
    except AnalysisError as e:
        err = str(e)
    known = {k['key'] for k in load_known() if k.get('status') == 'open'}
    fired = sorted({o.rule for o in rep.violations() if o.key() not in known})
    if err is not None and not fired:
        return 'analysis-error: ' + err, fired
    return 'applied', fired


def neutral_variants(model, rels):
    """behaviour-preserving rewrites of whole files: ast.unparse reformatting (drops comments, normalises
    layout).  Returns {rel: new_source}."""
    out = {}
    for rel in rels:
        out[rel] = ast.unparse(ast.parse(model.read(rel)))
    return out


def selftest(prop):
    pm = importlib.import_module('sa.props.%s' % prop)
    breakers = getattr(pm, 'BREAKERS', [])
    neutrals = getattr(pm, 'NEUTRALS', [])
    results = {'breakers': [], 'neutrals': [], 'ok': True}
    for rel, old, new, rule in breakers:
        status, fired = run_mutant(prop, rel, old, new)
        good = status == 'skipped' or (status == 'applied' and (rule in fired if rule else bool(fired)))
        results['breakers'].append({'file': rel, 'old': old[:80], 'new': new[:80], 'expect': rule, 'status': status,
                                    'fired': fired, 'ok': good})
        results['ok'] &= good
    for rel, old, new in neutrals:
        status, fired = run_mutant(prop, rel, old, new)
        good = status == 'skipped' or (status == 'applied' and not fired)
        results['neutrals'].append({'file': rel, 'old': old[:80], 'new': new[:80], 'status': status, 'fired': fired,
                                    'ok': good})
        results['ok'] &= good
    # whole-file reformat must be silent
    files = sorted({b[0] for b in breakers} | {n[0] for n in neutrals})
    if files:
        base = Model()
        rep = Report(prop, 'quick', quiet=True)
        try:
            pm.run(Model(overrides=neutral_variants(base, files), form=form_for(prop)), rep, 'quick')
            known = {k['key'] for k in load_known() if k.get('status') == 'open'}
            fired = sorted({o.rule for o in rep.violations() if o.key() not in known})
            status = 'applied'
        except AnalysisError as e:
            fired, status = [], 'analysis-error: %s' % e
        good = status == 'applied' and not fired
        results['neutrals'].append({'file': ','.join(files), 'old': '<whole file>', 'new': '<ast.unparse reformat>',
                                    'status': status, 'fired': fired, 'ok': good})
        results['ok'] &= good
    return results


def _one(prop):
    return prop, selftest(prop)


def main(argv=None):
    from .cli import CLAIMED
    argv = list(sys.argv[1:] if argv is None else argv)
    props = argv or CLAIMED
    bad = 0
    import os
    built = [p for p in props if os.path.exists(os.path.join(os.path.dirname(__file__), 'props', p + '.py'))]
    with ProcessPoolExecutor(max_workers=min(16, max(1, len(built)))) as ex:
        for prop, res in ex.map(_one, built):
            nb = len(res['breakers'])
            nn = len(res['neutrals'])
            fb = [b for b in res['breakers'] if not b['ok']]
            fn = [n for n in res['neutrals'] if not n['ok']]
            sk = sum(1 for b in res['breakers'] if b['status'] == 'skipped')
            print('%s: %d breakers (%d skipped, %d not caught), %d neutral variants (%d noisy)' % (prop, nb, sk, len(fb), nn, len(fn)))
            for b in fb:
                print('   NOT CAUGHT %s: %r -> %r  expected %s, fired %s [%s]' % (b['file'], b['old'], b['new'], b['expect'],
                                                                               b['fired'], b['status']))
            for n in fn:
                print('   NOISY on neutral %s: %r -> %r fired %s [%s]' % (n['file'], n['old'], n['new'], n['fired'], n['status']))
            bad += len(fb) + len(fn)
    return 1 if bad else 0


if __name__ == '__main__':
    sys.exit(main())
