"""
Frozen index-family table for the vacancy-mediated pipeline (engine: sa/engines/axes.py).

Every line was confirmed by reading the code that *builds* the attribute (and, where present, the repository's own
comment or docstring -- e.g. crystalStars.StarSet.__init__: "index[Nstates]: index of star that state belongs to";
OnsagerCalc.VacancyMediated.generate: "thermo2kin maps star index in thermo to kinetic ... vstar2kin maps each vector
star back to the corresponding star index"; the ``[NWyckoff]`` / ``[Nthermo]`` / ``[Nomega1]`` shape annotations of Lij).
The checker verifies the building code against this table (rule axis-schema) as well as every use.

Families:  S site (index into crys.basis[chem])      W Wyckoff set (index into sitelist)      X Cartesian component
           J0 omega0 jump type (index into jumpnetwork)   JL position in the flattened StarSet.jumplist
           Z:t state of star set t      Q:t star of star set t      V:t vector star built on star set t
           J1 / J2 position in the omega1 / omega2 network of the calculator      OS origin-state vector star (position)
           '@' is replaced by the tag of the instance; '?x' is generic per call (unified across arguments and returns).
"""
from ..engines.axes import Schema

JN = '[*]((Z:@,Z:@),[X]num)'

CLASSES = {
    'Crystal': {
        'attrs': {'dim': '#X', 'basis': '[*][S][X]num', 'lattice': '[X][X]num'},
        'methods': {},
    },
    'GFCrystalcalc': {
        'attrs': {},
        'methods': {'__call__': ({'i': 'S', 'j': 'S', 'dx': '[X]num'}, 'num'),
                    'Diffusivity': ({}, '[X][X]num'),
                    'biascorrection': ({}, '[S][X]num')},
    },
    'StarSet': {
        'attrs': {
            'crys': 'obj:Crystal:?', 'chem': 'top',
            'jumplist': '[JL]PS', 'jumpnetwork_index': '[J0][*]JL',
            'states': '[Z:@]PS', 'stars': '[Q:@][*]Z:@', 'index': '[Z:@]Q:@', 'indexdict': '{PS=(Z:@,Q:@)}',
            'Nstates': '#Z:@', 'Nstars': '#Q:@',
        },
        'methods': {
            '__init__': ({'jumpnetwork': '[J0][*]((S,S),[X]num)'}, ''),
            'stateindex': ({'PS': 'PS'}, 'Z:@'),
            'starindex': ({'PS': 'PS'}, 'Q:@'),
            'jumpnetwork_omega1': ({}, '([?J]' + JN + ',[?J]J0,[?J](Q:@,Q:@))'),
            'jumpnetwork_omega2': ({}, '([?J]' + JN + ',[?J]J0,[?J](Q:@,Q:@))'),
            'symmequivjumplist': ({'i': 'Z:@', 'f': 'Z:@', 'dx': '[X]num'}, JN),
            'copy': ({}, 'obj:StarSet:?'),
        },
    },
    'VectorStarSet': {
        'attrs': {
            'starset': 'obj:StarSet:@', 'Nvstars': '#V:@',
            'vecpos': '[V:@][*]Z:@', 'vecvec': '[V:@][*][X]num', 'outer': '[X][X][V:@][V:@]num',
        },
        'methods': {
            'generate': ({'starset': 'obj:StarSet:@'}, ''),
            'generateouter': ({}, '[X][X][V:@][V:@]num'),
            'GFexpansion': ({}, '([V:@][V:@][Q:GF]num,obj:StarSet:GF)'),
            'rateexpansions': ({'jumpnetwork': '[?J]' + JN, 'jumptype': '[?J]J0'},
                               '([V:@][V:@][J0]num,[V:@][J0]num,[V:@][V:@][?J]num,[V:@][?J]num)'),
            'biasexpansions': ({'jumpnetwork': '[?J]' + JN, 'jumptype': '[?J]J0'}, '([V:@][J0]num,[V:@][?J]num)'),
            'bareexpansions': ({'jumpnetwork': '[?J]' + JN, 'jumptype': '[?J]J0'}, '([X][X][J0]num,[X][X][?J]num)'),
            'originstateVectorBasisfolddown': ({}, '([OS]V:@,[OS][V:@]num,[OS][S][X]num)'),
        },
    },
    'VacancyMediated': {
        'attrs': {
            'crys': 'obj:Crystal:?', 'dim': '#X',
            'sitelist': '[W][*]S', 'jumpnetwork': '[J0][*]((S,S),[X]num)', 'om0_jn': '[J0][*]((S,S),[X]num)',
            'N': '#S', 'invmap': '[S]W',
            'thermo': 'obj:StarSet:thermo', 'kinetic': 'obj:StarSet:kinetic', 'NNstar': 'obj:StarSet:NN',
            'vkinetic': 'obj:VectorStarSet:kinetic', 'GFstarset': 'obj:StarSet:GF', 'GFcalc': 'obj:GFCrystalcalc:?',
            'GFexpansion': '[V:kinetic][V:kinetic][Q:GF]num',
            'thermo2kin': '[Q:thermo]Q:kinetic', 'kin2vacancy': '[Q:kinetic]W', 'outerkin': '[*]Q:kinetic',
            'vstar2kin': '[V:kinetic]Q:kinetic', 'kin2vstar': '[Q:kinetic][*]V:kinetic',
            'om1_jn': '[J1][*]((Z:kinetic,Z:kinetic),[X]num)', 'om1_jt': '[J1]J0', 'om1_SP': '[J1](Q:kinetic,Q:kinetic)',
            'om2_jn': '[J2][*]((Z:kinetic,Z:kinetic),[X]num)', 'om2_jt': '[J2]J0', 'om2_SP': '[J2](Q:kinetic,Q:kinetic)',
            'Dom1_om0': '[X][X][J0]num', 'Dom1': '[X][X][J1]num', 'Dom2_om0': '[X][X][J0]num', 'Dom2': '[X][X][J2]num',
            'om1_om0': '[V:kinetic][V:kinetic][J0]num', 'om1_om0escape': '[V:kinetic][J0]num',
            'om1expansion': '[V:kinetic][V:kinetic][J1]num', 'om1escape': '[V:kinetic][J1]num',
            'om2_om0': '[V:kinetic][V:kinetic][J0]num', 'om2_om0escape': '[V:kinetic][J0]num',
            'om2expansion': '[V:kinetic][V:kinetic][J2]num', 'om2escape': '[V:kinetic][J2]num',
            'om1_b0': '[V:kinetic][J0]num', 'om1bias': '[V:kinetic][J1]num',
            'om2_b0': '[V:kinetic][J0]num', 'om2bias': '[V:kinetic][J2]num',
            'OSindices': '[OS]V:kinetic', 'OSfolddown': '[OS][V:kinetic]num', 'OS_VB': '[OS][S][X]num',
            'OSVfolddown': '[OS][V:kinetic]num',
            'kineticsvWyckoff': '[Q:kinetic](W,W)', 'omega0vacancyWyckoff': '[J0](W,W)',
            'GFvalues': '{top=[Q:GF]num}', 'Lvvvalues': '{top=[X][X]num}', 'etavvalues': '{top=[S][X]num}',
        },
        'methods': {
            '__init__': ({'sitelist': '[W][*]S', 'jumpnetwork': '[J0][*]((S,S),[X]num)'}, ''),
            'interactlist': ({}, '[Q:thermo]PS'),
            'maketracerpreene': ({'preT0': '[J0]num', 'eneT0': '[J0]num'}, ''),
            'makeLIMBpreene': ({'preS': '[W]num', 'eneS': '[W]num', 'preSV': '[Q:thermo]num', 'eneSV': '[Q:thermo]num',
                                'preT0': '[J0]num', 'eneT0': '[J0]num'}, ''),
            '_symmetricandescaperates': ({'bFV': '[W]num', 'bFSVkinetic': '[Q:kinetic]num', 'bFT0': '[J0]num',
                                          'bFT1': '[J1]num', 'bFT2': '[J2]num'},
                                         '([J0]num,[J1]num,[J2]num,[W][J0]num,[V:kinetic][J1]num,[V:kinetic][J2]num)'),
            'Lij': ({'bFV': '[W]num', 'bFS': '[W]num', 'bFSV': '[Q:thermo]num', 'bFT0': '[J0]num', 'bFT1': '[J1]num',
                     'bFT2': '[J2]num'}, '([X][X]num,[X][X]num,[X][X]num,[X][X]num)'),
        },
    },
}

FUNCTIONS = {
    'zeroclean': ({}, 'same:x'),
}

MODULE_OF = {'StarSet': 'crystalStars', 'VectorStarSet': 'crystalStars', 'VacancyMediated': 'OnsagerCalc',
             'GFCrystalcalc': 'GFcalc', 'Crystal': 'crystal'}

# the dictionaries returned by maketracerpreene / makeLIMBpreene: key -> family of the array's axis
PREENE_KEYS = {'preS': 'W', 'eneS': 'W', 'preSV': 'Q:thermo', 'eneSV': 'Q:thermo',
               'preT1': 'J1', 'eneT1': 'J1', 'preT2': 'J2', 'eneT2': 'J2'}


def schema():
    return Schema(CLASSES, FUNCTIONS, MODULE_OF)


# (module, class, method) analysed by the vacancy-mediated axis check, with the least number of decided
# obligations confirmed on the pinned tree (floor = about half: a neutral refactor may lose a few, a rule that
# silently stops matching loses most)
VM_METHODS = [
    ('OnsagerCalc', 'VacancyMediated', '__init__'),
    ('OnsagerCalc', 'VacancyMediated', 'generate'),
    ('OnsagerCalc', 'VacancyMediated', 'generatematrices'),
    ('OnsagerCalc', 'VacancyMediated', 'interactlist'),
    ('OnsagerCalc', 'VacancyMediated', 'omegalist'),
    ('OnsagerCalc', 'VacancyMediated', 'maketracerpreene'),
    ('OnsagerCalc', 'VacancyMediated', 'makeLIMBpreene'),
    ('OnsagerCalc', 'VacancyMediated', '_symmetricandescaperates'),
    ('OnsagerCalc', 'VacancyMediated', 'Lij'),
]
STAR_METHODS = [
    ('crystalStars', 'StarSet', '__init__'),
    ('crystalStars', 'StarSet', 'generate'),
    ('crystalStars', 'StarSet', 'loadhdf5'),
    ('crystalStars', 'StarSet', 'addhdf5'),
    ('crystalStars', 'StarSet', '__iadd__'),
    ('crystalStars', 'StarSet', 'stateindex'),
    ('crystalStars', 'StarSet', 'starindex'),
    ('crystalStars', 'StarSet', 'jumpnetwork_omega1'),
    ('crystalStars', 'StarSet', 'jumpnetwork_omega2'),
    ('crystalStars', 'StarSet', 'symmequivjumplist'),
    ('crystalStars', 'StarSet', 'diffgenerate'),
    ('crystalStars', 'VectorStarSet', 'generate'),
    ('crystalStars', 'VectorStarSet', 'generateouter'),
    ('crystalStars', 'VectorStarSet', 'GFexpansion'),
    ('crystalStars', 'VectorStarSet', 'rateexpansions'),
    ('crystalStars', 'VectorStarSet', 'biasexpansions'),
    ('crystalStars', 'VectorStarSet', 'bareexpansions'),
    ('crystalStars', 'VectorStarSet', 'originstateVectorBasisfolddown'),
]
