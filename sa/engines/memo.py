"""
E3 ``memo`` -- early-return memo guards:  ``if <key test>: return [value]``  placed before the state writes
of a method, where the test compares parameters with the object's own stored state.
"""
import ast

from ..model import dotted, unparse, walk_local
from . import parity


class Guard:
    def __init__(self, fn, node, index):
        self.fn, self.node, self.index = fn, node, index
        self.compared_params = set()
        self.identity_keys = []  # (param, attr) compared with ==/is where the param is an object
        self.state_refs = set()


def _mentions_self_state(test, selfname):
    for n in ast.walk(test):
        if isinstance(n, ast.Attribute) and isinstance(n.value, ast.Name) and n.value.id == selfname:
            return True
        if isinstance(n, ast.Call) and dotted(n.func) == 'getattr' and n.args and isinstance(n.args[0], ast.Name) \
                and n.args[0].id == selfname:
            return True
    return False


def _relates_input_to_state(test, selfname):
    """some comparison (Compare, or an isclose/allclose/array_equal call) in the test has one operand built from a
    parameter/local and another built from stored state of self: the signature of a memo key test, as opposed to a
    precondition such as `self.N == 0`."""
    def has_input(e):
        return any(isinstance(n, ast.Name) and n.id != selfname and n.id not in ('np', 'getattr', 'None', 'True', 'False')
                   and not (isinstance(getattr(n, '_parent', None), ast.Attribute) and False)
                   for n in ast.walk(e) if not _inside_self_access(n, selfname))

    for n in ast.walk(test):
        ops = None
        if isinstance(n, ast.Compare) and len(n.ops) == 1:
            ops = [n.left, n.comparators[0]]
        elif isinstance(n, ast.Call) and (dotted(n.func) or '').split('.')[-1] in ('isclose', 'allclose', 'array_equal') \
                and len(n.args) >= 2:
            ops = n.args[:2]
        if ops:
            a, b = ops
            if (has_input(a) and _mentions_self_state(b, selfname) and not has_input(b)) or \
                    (has_input(b) and _mentions_self_state(a, selfname) and not has_input(a)):
                return True
    return False


def _inside_self_access(n, selfname):
    """Name nodes that are part of getattr(self, ...) / self.x are not inputs."""
    if isinstance(n, ast.Name) and n.id == selfname:
        return True
    p = getattr(n, '_parent', None)
    if isinstance(p, ast.Call) and dotted(p.func) == 'getattr' and p.args and p.args[0] is not n and n in p.args:
        return False
    return False


def find_guards(fn):
    """memo guards of ``fn``: top-level `if T: return ...` statements (no else) that precede every
    assignment to self.* and whose test relates a parameter to stored state of self."""
    if not fn.args.args:
        return []
    selfname = fn.args.args[0].arg
    params = [a.arg for a in fn.args.args[1:] + fn.args.kwonlyargs]
    out = []
    for i, st in enumerate(fn.body):
        if isinstance(st, ast.If) and not st.orelse and len(st.body) == 1 and isinstance(st.body[0], ast.Return):
            names = {n.id for n in ast.walk(st.test) if isinstance(n, ast.Name)}
            writes_after = any(isinstance(n, ast.Attribute) and isinstance(n.ctx, ast.Store) and isinstance(n.value, ast.Name)
                               and n.value.id == selfname for later in fn.body[i + 1:] for n in ast.walk(later))
            # a key test relating an input to stored state, or any state-dependent early return of a method that goes on to
            # rewrite the object's state (a regenerating method)
            if _relates_input_to_state(st.test, selfname) or (_mentions_self_state(st.test, selfname) and writes_after and params):
                g = Guard(fn, st, i)
                g.compared_params = names & set(params)
                out.append(g)
    return out


def params_read_after(fn, guard):
    """parameters read by the statements the guard skips (incl. nested functions/lambdas)."""
    params = [a.arg for a in fn.args.args[1:] + fn.args.kwonlyargs]
    used = {}
    for st in fn.body[guard.index + 1:]:
        for n in ast.walk(st):
            if isinstance(n, ast.Name) and isinstance(n.ctx, ast.Load) and n.id in params:
                used.setdefault(n.id, n)
    return used


def inplace_mutators(model, ci):
    """methods of the class (other than __init__) that assign self.* : {method: set(attrs)}"""
    out = {}
    for c in model.mro(ci):
        for name, fn in c.methods.items():
            if name == '__init__' or not fn.args.args or c.kind(name) != 'instance':
                continue
            attrs = set(parity.attrs_assigned_on(model, c, fn, fn.args.args[0].arg))
            # in-place container mutation of an attribute also counts
            s = fn.args.args[0].arg
            for n in walk_local(fn):
                if isinstance(n, (ast.AugAssign,)) and isinstance(n.target, ast.Attribute) \
                        and isinstance(n.target.value, ast.Name) and n.target.value.id == s:
                    attrs.add(n.target.attr)
            if attrs:
                out.setdefault(name, set()).update(attrs)
    return out


# ---------------------------------------------------------------- module-level caches
def module_caches(module):
    """names of module-level dictionaries (NAME = {} / dict())."""
    out = set()
    for st in module.tree.body:
        if isinstance(st, ast.Assign) and len(st.targets) == 1 and isinstance(st.targets[0], ast.Name):
            v = st.value
            if (isinstance(v, ast.Dict) and not v.keys) or (isinstance(v, ast.Call) and dotted(v.func) in ('dict', 'collections.OrderedDict')
                                                             and not v.args and not v.keywords):
                out.add(st.targets[0].id)
    return out


def cache_store_dependencies(fn, caches):
    """for every store  CACHE[key] = value  inside fn: (node, cache, names in key, parameters the value depends on).
    Dependencies are followed backwards through the local assignments of fn (names only, flow-insensitive)."""
    params = [a.arg for a in fn.args.args + fn.args.kwonlyargs]
    defs = {}
    for n in walk_local(fn):
        if isinstance(n, ast.Assign):
            names = []
            for t in n.targets:
                names += [x.id for x in ast.walk(t) if isinstance(x, ast.Name)]
            used = {x.id for x in ast.walk(n.value) if isinstance(x, ast.Name)}
            # attribute reads on parameters count as the parameter itself (self.i -> self)
            for nm in names:
                defs.setdefault(nm, set()).update(used)

    def closure(names):
        seen, todo = set(), list(names)
        while todo:
            x = todo.pop()
            if x in seen:
                continue
            seen.add(x)
            todo.extend(defs.get(x, ()))
        return seen

    out = []
    for n in walk_local(fn):
        if isinstance(n, ast.Assign) and isinstance(n.targets[0], ast.Subscript) and isinstance(n.targets[0].value, ast.Name) \
                and n.targets[0].value.id in caches:
            key_names = {x.id for x in ast.walk(n.targets[0].slice) if isinstance(x, ast.Name)}
            key_attrs = {unparse(x) for x in ast.walk(n.targets[0].slice) if isinstance(x, ast.Attribute)}
            val_names = closure({x.id for x in ast.walk(n.value) if isinstance(x, ast.Name)})
            dep_params = {p for p in params if p in val_names}
            out.append((n, n.targets[0].value.id, key_names, key_attrs, dep_params))
    return out


def local_memo_stores(fn):
    """memoisation inside a function:  `if K not in D: D[K] = V`  (no else branch touching D) for a local dict D.
    yield (if-node, D, key expr, loop variables the stored value depends on, loop variables the key depends on).
    Dependencies are followed through the local assignments of fn (names only)."""
    defs = {}
    loopvars = set()
    for n in walk_local(fn):
        if isinstance(n, ast.Assign):
            names = []
            for t in n.targets:
                names += [x.id for x in ast.walk(t) if isinstance(x, ast.Name) and isinstance(x.ctx, ast.Store)]
            used = {x.id for x in ast.walk(n.value) if isinstance(x, ast.Name)}
            for nm in names:
                defs.setdefault(nm, set()).update(used)
        if isinstance(n, ast.For):
            for x in ast.walk(n.target):
                if isinstance(x, ast.Name):
                    loopvars.add(x.id)

    def closure(names, stop=()):
        seen, todo = set(), list(names)
        while todo:
            x = todo.pop()
            if x in seen or x in stop:
                continue
            seen.add(x)
            if x not in loopvars:
                todo.extend(defs.get(x, ()))
        return seen

    for n in walk_local(fn):
        if not (isinstance(n, ast.If) and isinstance(n.test, ast.Compare) and len(n.test.ops) == 1
                and isinstance(n.test.ops[0], ast.NotIn) and isinstance(n.test.comparators[0], ast.Name) and not n.orelse):
            continue
        d = n.test.comparators[0].id
        key = n.test.left
        stores = [s for s in n.body if isinstance(s, ast.Assign) and isinstance(s.targets[0], ast.Subscript)
                  and unparse(s.targets[0].value) == d and unparse(s.targets[0].slice) == unparse(key)]
        if len(stores) != 1 or len(n.body) != 1:
            continue
        knames = {x.id for x in ast.walk(key) if isinstance(x, ast.Name)}
        vnames = {x.id for x in ast.walk(stores[0].value) if isinstance(x, ast.Name)}
        kdeps = closure(knames) & loopvars
        vdeps = closure(vnames, stop={d}) & loopvars
        # comprehension-local variables of the value are not dependencies
        comp = {x.id for c in ast.walk(stores[0].value) if isinstance(c, ast.comprehension) for x in ast.walk(c.target) if isinstance(x, ast.Name)}
        yield n, d, key, vdeps - comp, kdeps
