"""
E18 -- behaviour-preserving normal form.  Every rule of the framework reads the repository through this pass, so that
maintenance refactorings that leave behaviour unchanged (introducing or inlining a named temporary, renaming a local,
turning a comprehension into an append loop or back, ``zip(itertools.count(), x)`` vs ``enumerate(x)``, an early
``continue`` vs a nested ``if``, swapping the branches of an ``if`` on the negated condition, mirroring ``a == b``,
splitting a tuple assignment ...) lead to the *same* tree and hence to the same verdict.

Each rewrite is semantics-preserving on its own (conditions stated at the rewrite); nothing is executed.  Line numbers
of the surviving nodes are kept, so reports still point into the file.

Normal form:
  N1  ``a, b = x, y`` (independent)                         ->  ``a = x`` ; ``b = y``
  N2  ``not a == b`` / ``not a is b`` / ``not a in b``       ->  ``a != b`` / ``a is not b`` / ``a not in b``; operands of
      a single ``==`` / ``!=`` in canonical (textual) order
  N3  ``zip(itertools.count(), A, B)`` with target ``i, a, b`` -> ``enumerate(zip(A, B))`` with target ``i, (a, b)``;
      ``zip(itertools.count(), A)`` -> ``enumerate(A)``
  N4  in a loop body: a trailing ``if c: BODY`` (no else)    ->  ``if not c: continue`` ; BODY        (guard form)
      ``if not c: A  else: B``                                ->  ``if c: B  else: A``
  N5  ``x = []`` ... ``for t in it: [guards] x.append(e)``    ->  ``x = [e for t in it if ...]``
  N6  a local assigned exactly once to a side-effect-free expression whose inputs are not modified before its
      uses is substituted into its uses (forward substitution); fresh containers only when used once
  N7  ``for k in d.keys()`` -> ``for k in d``;  ``set([])`` -> ``set()``
"""
import ast
from collections import Counter

PURE_BUILTINS = {'len', 'min', 'max', 'abs', 'sum', 'any', 'all', 'tuple', 'sorted', 'int', 'float', 'range', 'enumerate',
                 'zip', 'reversed', 'isinstance', 'getattr', 'hasattr', 'str', 'repr', 'bool', 'round', 'complex', 'divmod',
                 'list', 'set', 'dict', 'frozenset', 'type', 'reduce', 'id'}
ALLOC_BUILTINS = {'list', 'set', 'dict', 'sorted'}
PURE_MODULE_ROOTS = {'np', 'numpy', 'math', 'itertools', 'functools', 'operator', 'collections'}
IMPURE_MODULE_FUNCS = {'np.random', 'numpy.random', 'np.fill_diagonal', 'np.put', 'np.copyto', 'np.save', 'np.savetxt', 'np.seterr'}
ALLOC_MODULE_FUNCS = {'zeros', 'ones', 'empty', 'full', 'array', 'copy', 'zeros_like', 'ones_like', 'empty_like', 'eye', 'arange',
                      'deepcopy', 'asarray', 'identity'}
PURE_METHODS = {'copy', 'get', 'dot', 'format', 'keys', 'items', 'values', 'index', 'astype', 'count', 'join', 'split', 'strip',
                'startswith', 'endswith', 'transpose', 'reshape', 'flatten', 'ravel', 'tolist', 'conj', 'sum', 'min', 'max', 'any', 'all',
                'lower', 'upper', 'replace', 'iszero', 'union', 'intersection', 'difference', 'issubset'}
ALLOC_METHODS = {'copy', 'tolist', 'flatten', 'astype', 'union', 'intersection', 'difference'}
MUTATING_METHODS = {'append', 'extend', 'insert', 'pop', 'remove', 'clear', 'sort', 'reverse', 'add', 'discard', 'update', 'setdefault',
                    'fill', 'resize', 'popitem', '__iadd__', '__setitem__'}

FLIP = {ast.Eq: ast.NotEq, ast.NotEq: ast.Eq, ast.Is: ast.IsNot, ast.IsNot: ast.Is, ast.In: ast.NotIn, ast.NotIn: ast.In}
_SCOPES = (ast.FunctionDef, ast.AsyncFunctionDef, ast.Lambda, ast.ClassDef)


def clone(node):
    """deep copy of an AST keeping positions and dropping analysis back-pointers."""
    if isinstance(node, list):
        return [clone(x) for x in node]
    if not isinstance(node, ast.AST):
        return node
    new = type(node)()
    for f in node._fields:
        if hasattr(node, f):
            setattr(new, f, clone(getattr(node, f)))
    for a in ('lineno', 'col_offset', 'end_lineno', 'end_col_offset'):
        if hasattr(node, a):
            setattr(new, a, getattr(node, a))
    return new


def walk_local(node):
    """walk without entering nested function / class / lambda scopes (the root itself is entered)."""
    stack = [node]
    first = True
    while stack:
        n = stack.pop()
        if not first and isinstance(n, _SCOPES):
            continue
        first = False
        yield n
        stack.extend(reversed(list(ast.iter_child_nodes(n))))


def dotted(node):
    parts = []
    while isinstance(node, ast.Attribute):
        parts.append(node.attr)
        node = node.value
    if isinstance(node, ast.Name):
        parts.append(node.id)
        return '.'.join(reversed(parts))
    return None


def root_name(node):
    while isinstance(node, (ast.Attribute, ast.Subscript, ast.Starred)):
        node = node.value
    if isinstance(node, ast.Call):
        return root_name(node.func)
    return node.id if isinstance(node, ast.Name) else None


def blocks_of(st):
    for f in ('body', 'orelse', 'finalbody'):
        b = getattr(st, f, None)
        if isinstance(b, list) and b and isinstance(b[0], ast.stmt):
            yield b
    for h in getattr(st, 'handlers', []) or []:
        yield h.body
    for c in getattr(st, 'cases', []) or []:
        yield c.body


def all_blocks(fn):
    """every statement list of a function, outermost first, not entering nested scopes."""
    out = []

    def rec(block):
        out.append(block)
        for st in block:
            if isinstance(st, _SCOPES):
                continue
            for b in blocks_of(st):
                rec(b)
    rec(fn.body)
    return out


# ------------------------------------------------------------------ purity
def is_pure(e):
    """side-effect free and deterministic given the values of the names / attributes / elements it reads."""
    if isinstance(e, (ast.Constant, ast.Name)):
        return True
    if isinstance(e, ast.Attribute):
        return is_pure(e.value)
    if isinstance(e, ast.Subscript):
        return is_pure(e.value) and is_pure(e.slice)
    if isinstance(e, ast.Slice):
        return all(x is None or is_pure(x) for x in (e.lower, e.upper, e.step))
    if isinstance(e, (ast.Tuple, ast.List, ast.Set)):
        return all(is_pure(x) for x in e.elts)
    if isinstance(e, ast.Dict):
        return all(k is not None and is_pure(k) for k in e.keys) and all(is_pure(v) for v in e.values)
    if isinstance(e, ast.BinOp):
        return is_pure(e.left) and is_pure(e.right)
    if isinstance(e, ast.UnaryOp):
        return is_pure(e.operand)
    if isinstance(e, ast.BoolOp):
        return all(is_pure(v) for v in e.values)
    if isinstance(e, ast.Compare):
        return is_pure(e.left) and all(is_pure(c) for c in e.comparators)
    if isinstance(e, ast.IfExp):
        return is_pure(e.test) and is_pure(e.body) and is_pure(e.orelse)
    if isinstance(e, ast.Starred):
        return is_pure(e.value)
    if isinstance(e, (ast.ListComp, ast.SetComp, ast.GeneratorExp)):
        return is_pure(e.elt) and all(is_pure(g.iter) and all(is_pure(c) for c in g.ifs) for g in e.generators)
    if isinstance(e, ast.DictComp):
        return is_pure(e.key) and is_pure(e.value) and all(is_pure(g.iter) and all(is_pure(c) for c in g.ifs) for g in e.generators)
    if isinstance(e, ast.JoinedStr):
        return all(is_pure(v) for v in e.values)
    if isinstance(e, ast.FormattedValue):
        return is_pure(e.value)
    if isinstance(e, ast.Call):
        if not all(is_pure(a) for a in e.args) or not all(is_pure(k.value) for k in e.keywords):
            return False
        d = dotted(e.func)
        if d is not None:
            if '.' not in d:
                return d in PURE_BUILTINS
            root = d.split('.')[0]
            if root in PURE_MODULE_ROOTS:
                return not any(d == x or d.startswith(x + '.') for x in IMPURE_MODULE_FUNCS)
            if root == 'copy' and d in ('copy.copy', 'copy.deepcopy'):
                return True
        if isinstance(e.func, ast.Attribute) and e.func.attr in PURE_METHODS:
            return is_pure(e.func.value)
        return False
    return False


def is_alloc(e):
    """builds a fresh mutable container (identity may matter: substitute only into a single use)."""
    if isinstance(e, (ast.List, ast.Set, ast.Dict, ast.ListComp, ast.SetComp, ast.DictComp, ast.GeneratorExp)):
        return True
    if isinstance(e, ast.Call):
        d = dotted(e.func)
        if d is not None:
            last = d.split('.')[-1]
            if '.' not in d:
                return d in ALLOC_BUILTINS
            if last in ALLOC_MODULE_FUNCS:
                return True
        if isinstance(e.func, ast.Attribute) and e.func.attr in ALLOC_METHODS:
            return True
    return False


def free_names(e):
    """names read by an expression, excluding those bound by its own comprehensions."""
    bound = set()
    for n in ast.walk(e):
        if isinstance(n, ast.comprehension):
            for t in ast.walk(n.target):
                if isinstance(t, ast.Name):
                    bound.add(t.id)
    return {n.id for n in ast.walk(e) if isinstance(n, ast.Name) and isinstance(n.ctx, ast.Load) and n.id not in bound}


def access_path(node):
    """('self', 'crys') for self.crys[...].x(...) style chains (subscripts / calls are looked through)."""
    parts = []
    while True:
        if isinstance(node, ast.Attribute):
            parts.append(node.attr)
            node = node.value
        elif isinstance(node, (ast.Subscript, ast.Starred)):
            parts = []          # an element of the container: the container is what is read / written
            node = node.value
        elif isinstance(node, ast.Call):
            parts = []
            node = node.func
            if isinstance(node, ast.Attribute):
                node = node.value   # receiver of a method call
        else:
            break
    if isinstance(node, ast.Name):
        return tuple([node.id] + list(reversed(parts)))
    return None


def read_paths(e):
    """access paths read by an expression (names bound by its own comprehensions excluded)."""
    bound = set()
    for n in ast.walk(e):
        if isinstance(n, ast.comprehension):
            for t in ast.walk(n.target):
                if isinstance(t, ast.Name):
                    bound.add(t.id)
    out = set()

    def rec(n):
        if isinstance(n, (ast.Attribute, ast.Name)):
            chain = n
            parts = []
            while isinstance(chain, ast.Attribute):
                parts.append(chain.attr)
                chain = chain.value
            if isinstance(chain, ast.Name):
                if chain.id not in bound:
                    out.add(tuple([chain.id] + list(reversed(parts))))
                return
            rec(chain)
            return
        for ch in ast.iter_child_nodes(n):
            rec(ch)
    rec(e)
    return out


def written_paths(stmts):
    """access paths that a statement list may rebind or mutate.  Assumption (documented in DESIGN.md): a call may mutate
    its receiver (``obj.method(...)`` -> obj) but not its arguments."""
    out = set()
    for st in stmts:
        for n in ast.walk(st):
            if isinstance(n, ast.Name) and isinstance(n.ctx, (ast.Store, ast.Del)):
                out.add((n.id,))
            elif isinstance(n, (ast.Attribute, ast.Subscript)) and isinstance(n.ctx, (ast.Store, ast.Del)):
                p = access_path(n) if isinstance(n, ast.Subscript) else _attr_path(n)
                if p: out.add(p)
            elif isinstance(n, ast.AugAssign):
                p = access_path(n.target) if not isinstance(n.target, ast.Attribute) else _attr_path(n.target)
                if p: out.add(p)
            elif isinstance(n, ast.Call):
                if is_pure(n):
                    continue
                if isinstance(n.func, ast.Attribute):
                    p = access_path(n.func.value) if not isinstance(n.func.value, (ast.Attribute, ast.Name)) else _attr_path(n.func.value)
                    if p: out.add(p)
            elif isinstance(n, (ast.FunctionDef, ast.AsyncFunctionDef, ast.ClassDef)):
                out.add((n.name,))
            elif isinstance(n, (ast.Import, ast.ImportFrom)):
                for a in n.names:
                    out.add(((a.asname or a.name).split('.')[0],))
            elif isinstance(n, ast.ExceptHandler) and n.name:
                out.add((n.name,))
    return out


def _attr_path(n):
    parts = []
    while isinstance(n, ast.Attribute):
        parts.append(n.attr)
        n = n.value
    if isinstance(n, ast.Name):
        return tuple([n.id] + list(reversed(parts)))
    return access_path(n)


def paths_conflict(reads, writes):
    for r in reads:
        for w in writes:
            k = min(len(r), len(w))
            if r[:k] == w[:k]:
                return True
    return False


# ------------------------------------------------------------------ rewrites
class _Subst(ast.NodeTransformer):
    def __init__(self, name, value):
        self.name, self.value, self.count = name, value, 0

    def visit_Name(self, n):
        if n.id == self.name and isinstance(n.ctx, ast.Load):
            self.count += 1
            v = clone(self.value)
            return v
        return n

    def visit_FunctionDef(self, n):
        return n
    visit_AsyncFunctionDef = visit_Lambda = visit_ClassDef = visit_FunctionDef


def _not(test):
    """logical negation in simplified form."""
    if isinstance(test, ast.UnaryOp) and isinstance(test.op, ast.Not):
        return test.operand
    if isinstance(test, ast.Compare) and len(test.ops) == 1 and type(test.ops[0]) in FLIP:
        new = ast.Compare(left=test.left, ops=[FLIP[type(test.ops[0])]()], comparators=test.comparators)
        return ast.copy_location(new, test)
    return ast.copy_location(ast.UnaryOp(op=ast.Not(), operand=test), test)


class _Simplify(ast.NodeTransformer):
    """N2, N3 (comprehension generators), N7 -- expression level."""

    def __init__(self):
        self.changed = False

    def visit_UnaryOp(self, n):
        self.generic_visit(n)
        if isinstance(n.op, ast.Not):
            o = n.operand
            if isinstance(o, ast.Compare) and len(o.ops) == 1 and type(o.ops[0]) in FLIP:
                self.changed = True
                return ast.copy_location(ast.Compare(left=o.left, ops=[FLIP[type(o.ops[0])]()], comparators=o.comparators), n)
        return n

    def visit_Compare(self, n):
        self.generic_visit(n)
        if len(n.ops) == 1 and isinstance(n.ops[0], (ast.Eq, ast.NotEq)):
            a, b = n.left, n.comparators[0]
            ka, kb = _order_key(a), _order_key(b)
            if kb < ka:
                n.left, n.comparators = b, [a]
                self.changed = True
        return n

    def visit_Call(self, n):
        self.generic_visit(n)
        d = dotted(n.func)
        if d == 'set' and len(n.args) == 1 and isinstance(n.args[0], ast.List) and not n.args[0].elts and not n.keywords:
            n.args = []
            self.changed = True
        return n

    def visit_comprehension(self, g):
        self.generic_visit(g)
        r = _zipcount(g.iter, g.target)
        if r:
            g.iter, g.target = r
            self.changed = True
        k = _drop_keys(g.iter)
        if k is not None:
            g.iter = k
            self.changed = True
        return g


def _order_key(e):
    # constants and None last, then textual
    return (isinstance(e, ast.Constant), ast.unparse(e))


def _drop_keys(it):
    if isinstance(it, ast.Call) and isinstance(it.func, ast.Attribute) and it.func.attr == 'keys' and not it.args and not it.keywords:
        return it.func.value
    return None


def _zipcount(it, target):
    """zip(itertools.count(), A, ...) with a flat tuple target -> enumerate form."""
    if not (isinstance(it, ast.Call) and dotted(it.func) == 'zip' and it.args and not it.keywords):
        return None
    first = it.args[0]
    if not (isinstance(first, ast.Call) and dotted(first.func) in ('itertools.count', 'count') and not first.args and not first.keywords):
        return None
    rest = it.args[1:]
    if not rest or not isinstance(target, (ast.Tuple, ast.List)) or len(target.elts) != len(it.args):
        return None
    if any(isinstance(e, ast.Starred) for e in target.elts):
        return None
    if len(rest) == 1:
        inner_it, inner_t = rest[0], target.elts[1]
    else:
        inner_it = ast.copy_location(ast.Call(func=ast.Name(id='zip', ctx=ast.Load()), args=rest, keywords=[]), it)
        inner_t = ast.copy_location(ast.Tuple(elts=target.elts[1:], ctx=ast.Store()), target)
    new_it = ast.copy_location(ast.Call(func=ast.Name(id='enumerate', ctx=ast.Load()), args=[inner_it], keywords=[]), it)
    new_t = ast.copy_location(ast.Tuple(elts=[target.elts[0], inner_t], ctx=ast.Store()), target)
    return new_it, new_t


def _split_tuple_assign(block):
    changed = False
    i = 0
    while i < len(block):
        st = block[i]
        if isinstance(st, ast.Assign) and len(st.targets) == 1 and isinstance(st.targets[0], (ast.Tuple, ast.List)) \
                and isinstance(st.value, (ast.Tuple, ast.List)) and len(st.targets[0].elts) == len(st.value.elts) \
                and not any(isinstance(e, ast.Starred) for e in st.targets[0].elts + st.value.elts) \
                and all(isinstance(t, (ast.Name, ast.Subscript, ast.Attribute)) for t in st.targets[0].elts):
            tpaths = []
            ok = True
            for t in st.targets[0].elts:
                p = (t.id,) if isinstance(t, ast.Name) else (access_path(t) if isinstance(t, ast.Subscript) else _attr_path(t))
                if p is None or (isinstance(t, ast.Subscript) and not (is_pure(t.slice) and is_pure(t.value))) \
                        or (isinstance(t, ast.Attribute) and not is_pure(t.value)):
                    ok = False
                    break
                tpaths.append(p)
            if ok:
                reads = set()
                for v in st.value.elts:
                    reads |= read_paths(v)
                for t in st.targets[0].elts:
                    if isinstance(t, ast.Subscript):
                        reads |= read_paths(t.slice)
                # simultaneous assignment equals sequential assignment when nothing written is read by a right-hand side
                # or by a target index, the targets are distinct, and every right-hand side is pure
                if len(set(tpaths)) == len(tpaths) and not paths_conflict(reads, set(tpaths)) and all(is_pure(v) for v in st.value.elts):
                    new = []
                    for t, v in zip(st.targets[0].elts, st.value.elts):
                        a = ast.Assign(targets=[t], value=v, type_comment=None)
                        ast.copy_location(a, st)
                        new.append(a)
                    block[i:i + 1] = new
                    changed = True
                    i += len(new)
                    continue
        i += 1
    return changed


def _loop_forms(fn):
    """N3 on for statements, N4, N7."""
    changed = False
    for block in all_blocks(fn):
        for st in block:
            if isinstance(st, (ast.For, ast.AsyncFor)):
                r = _zipcount(st.iter, st.target)
                if r:
                    st.iter, st.target = r
                    changed = True
                k = _drop_keys(st.iter)
                if k is not None:
                    st.iter = k
                    changed = True
            if isinstance(st, ast.If) and st.orelse and isinstance(st.test, ast.UnaryOp) and isinstance(st.test.op, ast.Not) \
                    and not (len(st.orelse) == 1 and isinstance(st.orelse[0], ast.If)):
                st.test = st.test.operand
                st.body, st.orelse = st.orelse, st.body
                changed = True
            if isinstance(st, (ast.For, ast.AsyncFor, ast.While)):
                body = st.body
                last = body[-1]
                if isinstance(last, ast.If) and not last.orelse and not (len(last.body) == 1 and isinstance(last.body[0], (ast.Continue, ast.Break, ast.Pass))):
                    guard = ast.If(test=_not(last.test), body=[ast.copy_location(ast.Continue(), last)], orelse=[])
                    ast.copy_location(guard, last)
                    body[-1:] = [guard] + last.body
                    changed = True
    return changed


def _append_target(st):
    if isinstance(st, ast.Expr) and isinstance(st.value, ast.Call) and isinstance(st.value.func, ast.Attribute) \
            and st.value.func.attr == 'append' and isinstance(st.value.func.value, ast.Name) and len(st.value.args) == 1 \
            and not st.value.keywords:
        return st.value.func.value.id, st.value.args[0]
    return None


def _as_generators(loop, name):
    """a loop whose whole effect is ``name.append(e)`` under guards / nested loops -> (generators, elt) or None."""
    gens = []
    cur = loop
    while True:
        if not isinstance(cur, ast.For) or cur.orelse:
            return None
        g = ast.comprehension(target=cur.target, iter=cur.iter, ifs=[], is_async=0)
        gens.append(g)
        body = list(cur.body)
        # leading guards of the form `if c: continue`
        while body and isinstance(body[0], ast.If) and not body[0].orelse and len(body[0].body) == 1 and isinstance(body[0].body[0], ast.Continue):
            g.ifs.append(_not(body[0].test))
            body = body[1:]
        while len(body) == 1 and isinstance(body[0], ast.If) and not body[0].orelse:
            g.ifs.append(body[0].test)
            body = list(body[0].body)
        if len(body) != 1:
            return None
        a = _append_target(body[0])
        if a is not None:
            if a[0] != name:
                return None
            return gens, a[1]
        cur = body[0]


def _append_loops(fn):
    changed = False
    for block in all_blocks(fn):
        i = 0
        while i < len(block):
            st = block[i]
            if isinstance(st, ast.Assign) and len(st.targets) == 1 and isinstance(st.targets[0], ast.Name) \
                    and isinstance(st.value, ast.List) and not st.value.elts:
                x = st.targets[0].id
                j = i + 1
                while j < len(block) and not any(isinstance(n, ast.Name) and n.id == x for n in ast.walk(block[j])):
                    j += 1
                if j < len(block) and isinstance(block[j], ast.For):
                    r = _as_generators(block[j], x)
                    if r is not None:
                        gens, elt = r
                        mentions = sum(1 for n in ast.walk(block[j]) if isinstance(n, ast.Name) and n.id == x)
                        # the list must not be read while it is being built; the generators must not be loop-carried
                        bound = set()
                        for g in gens:
                            bound |= {n.id for n in ast.walk(g.target) if isinstance(n, ast.Name)}
                        if mentions == 1 and is_pure(elt) and all(is_pure(g.iter) and all(is_pure(c) for c in g.ifs) for g in gens):
                            comp = ast.ListComp(elt=elt, generators=gens)
                            ast.copy_location(comp, block[j])
                            new = ast.Assign(targets=[st.targets[0]], value=comp, type_comment=None)
                            ast.copy_location(new, block[j])
                            block[j] = new
                            del block[i]
                            changed = True
                            continue
            i += 1
    return changed


def _inline_temps(fn):
    """N6.  A definition ``t = e`` at position i of a block is substituted into the loads of ``t`` in the rest of that
    block (up to the next re-definition in the block) when
      * every store to ``t`` in the function is such a plain block-level assignment, ``t`` is not a parameter, not
        global / nonlocal, not used in a nested scope, and never mutated through the name;
      * every load of ``t`` in the function lies in the region of exactly one definition (so no load can see another
        definition: a definition dominates its region and is re-executed before the region in every loop iteration);
      * ``e`` is side-effect free, does not read ``t``, and nothing ``e`` reads is rebound or mutated inside the region;
      * a fresh container is only moved to a single use."""
    changed = False
    params = {a.arg for a in fn.args.posonlyargs + fn.args.args + fn.args.kwonlyargs}
    if fn.args.vararg: params.add(fn.args.vararg.arg)
    if fn.args.kwarg: params.add(fn.args.kwarg.arg)
    other_stores = Counter()      # stores that are not plain single-name assignments
    declared = set()
    nested_used = set()
    plain_targets = set()
    for n in walk_local(fn):
        if isinstance(n, ast.Assign) and len(n.targets) == 1 and isinstance(n.targets[0], ast.Name):
            plain_targets.add(id(n.targets[0]))
    for n in walk_local(fn):
        if isinstance(n, ast.Name) and isinstance(n.ctx, (ast.Store, ast.Del)) and id(n) not in plain_targets:
            other_stores[n.id] += 1
        elif isinstance(n, ast.AugAssign) and isinstance(n.target, ast.Name):
            other_stores[n.target.id] += 1
        elif isinstance(n, (ast.Global, ast.Nonlocal)):
            declared |= set(n.names)
        elif isinstance(n, ast.ExceptHandler) and n.name:
            other_stores[n.name] += 1
    for n in ast.walk(fn):
        if n is not fn and isinstance(n, _SCOPES):
            for m in ast.walk(n):
                if isinstance(m, ast.Name):
                    nested_used.add(m.id)
            if hasattr(n, 'name'):
                other_stores[n.name] += 1
    # candidate definitions per name: (block, stmt)
    cands = {}
    for block in all_blocks(fn):
        for st in block:
            if isinstance(st, ast.Assign) and len(st.targets) == 1 and isinstance(st.targets[0], ast.Name):
                cands.setdefault(st.targets[0].id, []).append((block, st))
    for t, defs in cands.items():
        if other_stores[t] or t in params or t in declared or t in nested_used:
            continue
        all_loads = [n for n in walk_local(fn) if isinstance(n, ast.Name) and n.id == t and isinstance(n.ctx, ast.Load)]
        if not all_loads:
            continue
        plans = []
        covered = set()
        ok = True
        for block, st in defs:
            i = next(k for k, s in enumerate(block) if s is st)
            rest = block[i + 1:]
            # region ends before the next re-definition of t at this block level
            end = len(rest)
            for k, s in enumerate(rest):
                if isinstance(s, ast.Assign) and len(s.targets) == 1 and isinstance(s.targets[0], ast.Name) and s.targets[0].id == t:
                    end = k + 1   # its right-hand side may still read the old value
                    break
            region_all = rest[:end]
            loads = []
            for k, s in enumerate(region_all):
                part = s
                if k == end - 1 and end < len(rest) + 1 and isinstance(s, ast.Assign) and len(s.targets) == 1 \
                        and isinstance(s.targets[0], ast.Name) and s.targets[0].id == t:
                    part = s.value
                loads += [n for n in (walk_local_stmt(part) if isinstance(part, ast.stmt) else walk_local(part))
                          if isinstance(n, ast.Name) and n.id == t and isinstance(n.ctx, ast.Load)]
            # a nested re-definition inside the region makes the reaching definitions ambiguous
            nested_redef = any(isinstance(n, ast.Name) and n.id == t and isinstance(n.ctx, ast.Store)
                               for k, s in enumerate(region_all) for n in ast.walk(s)
                               if not (k == end - 1 and s is not None and isinstance(s, ast.Assign) and s.targets[0] is n))
            if nested_redef or any(id(n) in covered for n in loads):
                ok = False
                break
            covered |= {id(n) for n in loads}
            plans.append((block, st, i, end, loads))
        if not ok or covered != {id(n) for n in all_loads}:
            continue
        for block, st, i, end, loads in plans:
            if not loads:
                continue
            if not is_pure(st.value) or t in free_names(st.value):
                continue
            if len(loads) > 1 and is_alloc(st.value):
                continue
            i = next((k for k, s in enumerate(block) if s is st), None)
            if i is None:
                continue
            rest = block[i + 1:i + 1 + end]
            if _mutated(t, rest):
                continue
            last = max(k for k, s in enumerate(rest) if any(n is m for m in loads for n in ast.walk(s)))
            region = rest[:last + 1]
            # the statement that re-defines t (if it ends the region) only contributes its right-hand side
            if paths_conflict(read_paths(st.value), written_paths(region) - {(t,)}):
                continue
            sub = _Subst(t, st.value)
            for k in range(last + 1):
                block[i + 1 + k] = sub.visit(block[i + 1 + k])
            del block[i]
            changed = True
        if changed:
            return True     # one name per round keeps the bookkeeping simple; the driver iterates to a fix point
    return changed


def walk_local_stmt(st):
    if isinstance(st, _SCOPES):
        return
    yield from walk_local(st)


def _mutated(name, stmts):
    """is the object bound to ``name`` mutated through the name (element / attribute store, in-place method)?"""
    for s in stmts:
        for n in ast.walk(s):
            if isinstance(n, (ast.Subscript, ast.Attribute)) and isinstance(n.ctx, (ast.Store, ast.Del)) and root_name(n) == name:
                return True
            if isinstance(n, ast.AugAssign) and root_name(n.target) == name:
                return True
            if isinstance(n, ast.Call) and isinstance(n.func, ast.Attribute) and root_name(n.func.value) == name \
                    and not is_pure(n):
                return True
    return False


def normalize_function(fn, max_rounds=12):
    """normalise one function definition in place (nested functions are normalised first)."""
    for n in ast.walk(fn):
        if n is not fn and isinstance(n, (ast.FunctionDef, ast.AsyncFunctionDef)) and not getattr(n, '_normalized', False):
            pass
    for block in all_blocks(fn):
        for st in block:
            if isinstance(st, (ast.FunctionDef, ast.AsyncFunctionDef)):
                normalize_function(st, max_rounds)
            elif isinstance(st, ast.ClassDef):
                for s2 in st.body:
                    if isinstance(s2, (ast.FunctionDef, ast.AsyncFunctionDef)):
                        normalize_function(s2, max_rounds)
    for _ in range(max_rounds):
        ch = False
        for block in all_blocks(fn):
            ch |= _split_tuple_assign(block)
        simp = _Simplify()
        for block in all_blocks(fn)[:1]:
            for k, st in enumerate(block):
                if not isinstance(st, _SCOPES):
                    block[k] = simp.visit(st)
        ch |= simp.changed
        ch |= _inline_temps(fn)
        ch |= _append_loops(fn)
        ch |= _loop_forms(fn)
        if not ch:
            break
    fn._normalized = True
    return fn


def normalize_module(tree):
    """returns a normalised deep copy of a module tree."""
    new = clone(tree)
    for st in new.body:
        if isinstance(st, (ast.FunctionDef, ast.AsyncFunctionDef)):
            normalize_function(st)
        elif isinstance(st, ast.ClassDef):
            for s2 in st.body:
                if isinstance(s2, (ast.FunctionDef, ast.AsyncFunctionDef)):
                    normalize_function(s2)
    ast.fix_missing_locations(new)
    return new
