"""
C02 -- interstitial diffusivity equals the exact long-time diffusivity (structural clauses).

Not decided: the value of the correlation correction (numerical).  Decided, on the normal form of the code and with
locals named by their provenance (engines norm / prov: temporaries, local names, loop style do not matter):
  * exchange: the symmetrised rate (Interstitial.symmratelist and its Green-function sibling SymmRates) is invariant
    under swapping the endpoints of the jump; the plain rate depends on the initial site only;
  * siblings: the Green-function rate formulas equal the interstitial calculator's once site indices are mapped to
    Wyckoff indices; the accumulation statements that build the rate matrix, the bias vector and the uncorrelated
    diffusivity from (jump network, ratelist, symmratelist, siteprob) are the same in diffusivity / elastodiffusion /
    losstensors;
  * roles: the off-diagonal rate-matrix element receives +symmetrised rate, the diagonal receives -escape rate of the
    initial site; the bias and the bare diffusivity are built from the plain rate, the displacement and the site
    probability of the initial site;
  * the correlation correction np.dot(np.dot(VV, bias_v), gamma_v) with gamma_v = bias_solver(omega_v, bias_v) is
    the same expression in diffusivity and elastodiffusion, enters with a + sign and reaches every return;
  * the two bias-solver branches are both assigned, selected by the invertibility flag, pseudo-inverse on the
    non-invertible branch, same sign, no absolute tolerance;
  * the anchored routines are dimension-generic.
"""
import ast

from ..model import AnalysisError, dotted, unparse, walk_local
from ..engines import exchange, shape
from ..engines.prov import Prov
from ..engines.linform import canon, swap_sigma
from ._common import dim_generic
from .C04 import _solver

I_ = 'self.jumpnetwork[_][_][0][0]'
J_ = 'self.jumpnetwork[_][_][0][1]'
DX_ = 'self.jumpnetwork[_][_][1]'
RATE_ = 'self.ratelist(pre, betaene, preT, betaeneT)[_][_]'
SYMM_ = 'self.symmratelist(pre, betaene, preT, betaeneT)[_][_]'
RHO_ = 'self.siteprob(pre, betaene)'


def run(model, rep, tier):
    rep.explanation = __doc__.strip()
    from ._common import caches_for
    caches_for(model, rep, 'C02')
    from ._common import scale_free_tests
    scale_free_tests(model, rep, [('OnsagerCalc', 'Interstitial', 'diffusivity'), ('OnsagerCalc', 'Interstitial', 'elastodiffusion'), ('GFcalc', 'GFCrystalcalc', 'SetRates')])
    from ._common import inverse_map_placed
    inverse_map_placed(model, rep, [('OnsagerCalc', 'Interstitial', '__init__', 'invmap')])
    rep.not_decided = 'the numerical value of the diffusivity and of the bias-correction term'
    rep.rule('exchange-symmetric', 'symmetrised rate element is invariant under swapping the jump endpoints')
    rep.rule('initial-site-only', 'the (unsymmetrised) rate of a jump i->j depends on site i, not on j')
    rep.rule('sibling-assembly', 'accumulation statements fed by (jump network, rates, symmetrised rates, site probability) agree '
                                 'between diffusivity / elastodiffusion / losstensors')
    rep.rule('assembly-roles', 'rate matrix: [i,j] += symmetrised rate, [i,i] -= plain rate; bias and bare diffusivity use the plain rate of the initial site')
    rep.rule('correction-term', 'correlation correction is the same expression in diffusivity and elastodiffusion, added with +, and reaches every return')
    rep.rule('sibling-formula', 'Green-function rate formulas equal the interstitial ones after mapping sites to Wyckoff sets')
    rep.rule('scale-homogeneous-solver', 'bias solvers: both branches, right selection, same sign, no absolute tolerance')
    oc = model.mod('OnsagerCalc')
    ci = model.cls('OnsagerCalc', 'Interstitial')
    gf = model.mod('GFcalc')
    _rate_formulas(model, rep, oc, ci, gf)
    _assembly(model, rep, oc, ci)
    _correction(model, rep, oc, ci)
    _solver(model, rep)
    dim_generic(model, rep, [('OnsagerCalc', 'Interstitial.'), ('GFcalc', 'GFCrystalcalc.Diffusivity'), ('crystal', 'Crystal.FullVectorBasis')],
                min_functions=15)


# ---------------------------------------------------------------- rate formulas
def _rate_element(fn):
    """innermost element expression of the (nested) comprehension returned, and its endpoint pair names."""
    rets = [n for n in walk_local(fn) if isinstance(n, ast.Return)]
    if len(rets) != 1:
        raise AnalysisError('%s: single return expected' % fn.name)
    e = rets[0].value
    if isinstance(e, ast.Call) and e.args:
        e = e.args[0]
    pair = None
    while isinstance(e, (ast.ListComp, ast.GeneratorExp)):
        for g in e.generators:
            for t in ast.walk(g.target):
                if isinstance(t, ast.Tuple) and len(t.elts) == 2 and all(isinstance(x, ast.Name) for x in t.elts):
                    pair = pair or (t.elts[0].id, t.elts[1].id)
        e = e.elt
    if pair is None:
        raise AnalysisError('%s: endpoint pair not found in the returned comprehension' % fn.name)
    return e, pair


def _rate_formulas(model, rep, oc, ci, gf):
    sym = ci.methods.get('symmratelist')
    rl = ci.methods.get('ratelist')
    if sym is None or rl is None:
        raise AnalysisError('anchor vanished: Interstitial.symmratelist / ratelist')
    elt_s, pair_s = _rate_element(sym)
    ok, a, b = exchange.symmetric_expr(elt_s, swap_sigma([pair_s]))
    rep.ob('exchange-symmetric', oc, elt_s, 'Interstitial.symmratelist element %s under %s<->%s' % (unparse(elt_s), *pair_s), ok,
           '' if ok else 'omega_ij[i,j] != omega_ij[j,i]: the symmetrised rate matrix is not symmetric for non-uniform energies',
           engine='exchange', qual='Interstitial.symmratelist')
    elt_r, pair_r = _rate_element(rl)
    uses_j = pair_r[1] in exchange.names_in(elt_r)
    rep.ob('initial-site-only', oc, elt_r, 'Interstitial.ratelist element %s' % unparse(elt_r), not uses_j,
           '' if not uses_j else 'the escape rate from i uses the final site\'s energy or prefactor', engine='exchange',
           qual='Interstitial.ratelist')
    gsym = model.func('GFcalc', 'GFCrystalcalc.SymmRates')
    elt_g, pair_g = _rate_element(gsym)
    ok, a, b = exchange.symmetric_expr(elt_g, swap_sigma([pair_g]))
    rep.ob('exchange-symmetric', gf, elt_g, 'GFCrystalcalc.SymmRates element %s under %s<->%s' % (unparse(elt_g), *pair_g), ok,
           '' if ok else 'Green-function symmetrised rate is not symmetric in the two Wyckoff sets', engine='exchange',
           qual='GFCrystalcalc.SymmRates')
    # sibling formulas: same expression once the site index is mapped to its Wyckoff set
    ts = Prov(sym).text(elt_s)
    tg = Prov(gsym).text(elt_g)
    ts_w = ts.replace('self.invmap[%s]' % I_, 'W0').replace('self.invmap[%s]' % J_, 'W1')
    tg_w = tg.replace('self.jumppairs[_][0]', 'W0').replace('self.jumppairs[_][1]', 'W1')
    same = ts_w == tg_w and 'W0' in ts_w and 'W1' in ts_w
    rep.ob('sibling-formula', gf, elt_g, 'SymmRates element == symmratelist element (site -> Wyckoff set)', same,
           '' if same else 'the two calculators symmetrise the rate differently: %s vs %s' % (tg_w, ts_w), engine='siblings',
           qual='GFCrystalcalc.SymmRates')
    # escape rate of the Green function calculator: sum over jump types of multiplicity * plain rate
    setr = model.func('GFcalc', 'GFCrystalcalc.SetRates')
    esc = None
    for n in walk_local(setr):
        if isinstance(n, ast.GeneratorExp) and isinstance(getattr(n, '_parent', None), ast.Call) and dotted(n._parent.func) == 'sum' \
                and any(isinstance(c, ast.Call) and (dotted(c.func) or '').endswith('exp') for c in ast.walk(n.elt)):
            esc = n
    if esc is None:
        raise AnalysisError('GFCrystalcalc.SetRates: escape-rate sum (sum of a generator containing exp) not found')
    mult = [x for x in ast.walk(esc.elt) if isinstance(x, ast.Subscript) and unparse(x.value) == 'self.SEjumps']
    if len(mult) != 1:
        raise AnalysisError('GFCrystalcalc.SetRates: multiplicity factor self.SEjumps[...] of the escape sum not found')
    pg = Prov(setr)
    from ..engines.prov import alpha_comprehensions
    g_elt = pg.expand(esc.elt, keep_comp=False)
    g_mult = pg.expand(mult[0], keep_comp=False)
    r_elt = _replace_text(Prov(rl).expand(elt_r, keep_comp=False), I_, ast.Name(id='_', ctx=ast.Load()))
    te = canon(ast.fix_missing_locations(g_elt))
    expected = canon(ast.fix_missing_locations(ast.BinOp(left=g_mult, op=ast.Mult(), right=r_elt)))
    same = te == expected
    rep.ob('sibling-formula', gf, esc, 'SetRates escape term == multiplicity * ratelist element (site -> its Wyckoff set)', same,
           '' if same else 'escape rates differ between the calculators: %s vs %s' % (te, expected), engine='siblings',
           qual='GFCrystalcalc.SetRates')


def _replace_text(tree, text, new):
    """replace every sub-expression whose source text is ``text``."""
    class T(ast.NodeTransformer):
        def generic_visit(self, n):
            if isinstance(n, ast.expr) and unparse(n) == text:
                return new
            return super().generic_visit(n)
    return T().visit(tree)


def _subscript_texts(text, prefix):
    out = []
    k = text.find(prefix)
    while k >= 0:
        depth, j = 0, k + len(prefix) - 1
        while j < len(text):
            if text[j] == '[': depth += 1
            elif text[j] == ']':
                depth -= 1
                if depth == 0:
                    break
            j += 1
        out.append(text[k + len(prefix):j])
        k = text.find(prefix, k + 1)
    return out


def _times(a, b):
    return '%s*%s' % (a, b)


def _factors(t):
    """top-level factors of a canonical product '[a*b*c]' (canon writes products in brackets, sorted)."""
    t = t.strip()
    if t.startswith('[') and t.endswith(']'):
        t = t[1:-1]
    out, depth, cur = [], 0, ''
    for ch in t:
        if ch in '([{': depth += 1
        if ch in ')]}': depth -= 1
        if ch == '*' and depth == 0:
            out.append(cur)
            cur = ''
        else:
            cur += ch
    out.append(cur)
    return sorted(x.strip() for x in out)


def _same_product(whole, a, b):
    return _factors(whole) == sorted(_factors(a) + _factors(b))


# ---------------------------------------------------------------- assembly
def _groups(fn):
    """accumulation statements (augmented assignments inside the double loop over the jump network) grouped by
    accumulator, each as provenance text with the accumulator abstracted: {name: frozenset(texts)}."""
    P = Prov(fn)
    out = {}
    nodes = {}
    for n in walk_local(fn):
        if isinstance(n, ast.AugAssign):
            r = shape.root(n.target)
            if not isinstance(r, ast.Name):
                continue
            t = P.stmt_text(n, acc=True)
            if 'self.jumpnetwork[_][_]' not in t:
                continue
            out.setdefault(r.id, set()).add(t)
            nodes.setdefault(r.id, n)
    return {k: frozenset(v) for k, v in out.items()}, nodes, P


SHARED_INPUTS = ('self.jumpnetwork', 'self.ratelist(', 'self.symmratelist(', 'self.siteprob(', 'np.', '_ACC', '_pos', 'self.invmap')


def _shared_only(texts):
    """the group reads only the inputs common to the three routines (no derivative / dipole data)."""
    import re
    for t in texts:
        for tok in re.findall(r'[A-Za-z_][A-Za-z_0-9\.]*', t):
            if tok in ('_', 'Add', 'Sub', 'Mult') or tok.startswith(('np.', '_ACC', '_pos')):
                continue
            if tok in ('self.jumpnetwork', 'self.ratelist', 'self.symmratelist', 'self.siteprob', 'self.invmap', 'pre', 'betaene', 'preT', 'betaeneT'):
                continue
            return False
    return True


def _assembly(model, rep, oc, ci):
    funs = {}
    for name in ('diffusivity', 'elastodiffusion', 'losstensors'):
        fn = ci.methods.get(name)
        if fn is None:
            raise AnalysisError('anchor vanished: Interstitial.%s' % name)
        funs[name] = fn
    G = {name: _groups(fn) for name, fn in funs.items()}
    ref = {k: v for k, v in G['diffusivity'][0].items() if _shared_only(v)}
    if len(ref) < 3:
        raise AnalysisError('Interstitial.diffusivity: rate matrix / bias / bare diffusivity accumulations not recognised (%d found)' % len(ref))
    refsets = set(ref.values())
    npairs = 0
    for other in ('elastodiffusion', 'losstensors'):
        groups, nodes, _ = G[other]
        for acc, texts in sorted(groups.items()):
            if not _shared_only(texts):
                continue
            npairs += 1
            ok = texts in refsets
            rep.ob('sibling-assembly', oc, nodes[acc], '%s: accumulation into %s (%d statement(s)) equals one of diffusivity' % (other, acc, len(texts)),
                   ok, '' if ok else 'no accumulator of diffusivity is built like this: %s' % sorted(texts), engine='siblings',
                   qual='Interstitial.' + other)
    rep.floor('sibling assembly comparisons', npairs, 4)
    # roles in the reference
    nroles = 0
    for acc, texts in sorted(ref.items()):
        node = G['diffusivity'][1][acc]
        offdiag = [t for t in texts if t.startswith('_ACC[(%s, %s,)]' % (I_, J_))]
        diag = [t for t in texts if t.startswith('_ACC[(%s, %s,)]' % (I_, I_))]
        if offdiag or diag:
            nroles += 1
            ok = len(offdiag) == 1 and len(diag) == 1 and len(texts) == 2 \
                and ' Add= ' in offdiag[0] and SYMM_ in offdiag[0] and RATE_ not in offdiag[0] \
                and ' Sub= ' in diag[0] and RATE_ in diag[0] and SYMM_ not in diag[0]
            rep.ob('assembly-roles', oc, node, 'rate matrix %s: %s' % (acc, sorted(texts)), ok,
                   '' if ok else 'expected [i,j] += symmetrised rate and [i,i] -= plain rate of the initial site', engine='siblings',
                   qual='Interstitial.diffusivity')
        elif all(t.startswith('_ACC[%s] Add= ' % I_) for t in texts):
            nroles += 1
            ok = all(RATE_ in t and DX_ in t and RHO_ in t and SYMM_ not in t and J_ not in t for t in texts)
            rep.ob('assembly-roles', oc, node, 'bias vector %s: %s' % (acc, sorted(texts)), ok,
                   '' if ok else 'the bias of site i is built from the plain rate, the displacement and the probability of site i only',
                   engine='siblings', qual='Interstitial.diffusivity')
        elif all(t.startswith('_ACC Add= ') for t in texts):
            nroles += 1
            ok = all(RATE_ in t and t.count(DX_) >= 2 and (RHO_ + '[' + I_ + ']') in t and SYMM_ not in t and J_ not in t for t in texts)
            rep.ob('assembly-roles', oc, node, 'bare diffusivity %s: %s' % (acc, sorted(texts)), ok,
                   '' if ok else 'the uncorrelated term is built from dx dx, the plain rate and the probability of the initial site',
                   engine='siblings', qual='Interstitial.diffusivity')
    rep.floor('assembly roles recognised in diffusivity', nroles, 3)
    # the rate lists are prepared by the same calls with the caller's own arguments in order
    for name, fn in funs.items():
        for meth in ('siteprob', 'ratelist', 'symmratelist'):
            calls = [n for n in walk_local(fn) if isinstance(n, ast.Call) and unparse(n.func) == 'self.' + meth]
            if not calls:
                raise AnalysisError('Interstitial.%s: call of self.%s not found' % (name, meth))
            want = [a.arg for a in ci.methods[meth].args.args[1:]]
            for c in calls:
                got = [unparse(a) for a in c.args] + ['%s=%s' % (k.arg, unparse(k.value)) for k in c.keywords]
                ok = got == want
                rep.ob('sibling-assembly', oc, c, '%s: self.%s(%s)' % (name, meth, ', '.join(got)), ok,
                       '' if ok else 'arguments are not the caller\'s (%s) in order' % ', '.join(want), engine='siblings',
                       qual='Interstitial.' + name)


# ---------------------------------------------------------------- correction term
def _correction(model, rep, oc, ci):
    found = {}
    for name in ('diffusivity', 'elastodiffusion'):
        fn = ci.methods[name]
        P = Prov(fn)
        cands = []
        for n in walk_local(fn):
            if isinstance(n, (ast.Assign, ast.AugAssign)):
                t = P.text(n.value, acc=True)
                if t == 'np.dot(np.dot(self.VV, _ACC), self.bias_solver(_ACC, _ACC))':
                    cands.append(n)
        if len(cands) != 1:
            raise AnalysisError('Interstitial.%s: correlation correction np.dot(np.dot(self.VV, bias), bias_solver(omega, bias)) not found '
                                '(%d candidates)' % (name, len(cands)))
        st = cands[0]
        # the vector contracted with VV is the one handed to the solver
        inner = st.value.args[0].args[1] if isinstance(st.value, ast.Call) and st.value.args and isinstance(st.value.args[0], ast.Call) \
            and len(st.value.args[0].args) == 2 else None
        solver = [c for c in ast.walk(P.expand(st.value)) if isinstance(c, ast.Call) and unparse(c.func) == 'self.bias_solver']
        okv = inner is not None and solver and len(solver[0].args) == 2 and unparse(solver[0].args[1]) == unparse(inner)
        rep.ob('correction-term', oc, st, '%s: %s' % (name, unparse(st)[:110]), bool(okv),
               '' if okv else 'the bias vector contracted with VV is not the one passed to the bias solver', engine='siblings',
               qual='Interstitial.' + name)
        # sign and reachability: added with + to what every return delivers
        if isinstance(st, ast.AugAssign):
            sign_ok = isinstance(st.op, ast.Add)
            carrier = shape.root(st.target).id
        else:
            sign_ok = True
            carrier = shape.root(st.targets[0]).id
        rets = [r for r in walk_local(fn) if isinstance(r, ast.Return) and r.value is not None]
        reach = []
        for r in rets:
            first = r.value.elts[0] if isinstance(r.value, ast.Tuple) and r.value.elts else r.value
            reach.append(_positive_in(first, carrier))
        ok = sign_ok and rets and all(reach)
        rep.ob('correction-term', oc, st, '%s: correction carried by %s reaches %d return(s) with a + sign' % (name, carrier, len(rets)), bool(ok),
               '' if ok else 'the correlation correction is subtracted, or dropped on a return path', engine='siblings',
               qual='Interstitial.' + name)
        found[name] = st
    return found


def _positive_in(expr, name):
    """``name`` occurs in ``expr`` as a positive summand (or is the expression)."""
    if isinstance(expr, ast.Name):
        return expr.id == name
    if isinstance(expr, ast.BinOp) and isinstance(expr.op, ast.Add):
        return _positive_in(expr.left, name) or _positive_in(expr.right, name)
    if isinstance(expr, ast.BinOp) and isinstance(expr.op, ast.Sub):
        return _positive_in(expr.left, name)
    return False


OC = 'onsager/OnsagerCalc.py'
BREAKERS = [
    (OC, "np.sqrt(sitepre[i] * sitepre[j])", "np.sqrt(sitepre[i] * sitepre[i])", 'exchange-symmetric'),
    (OC, "                D0 += 0.5 * np.outer(dx, dx) * rho[i] * rate\n                Dp +=", "                D0 += np.outer(dx, dx) * rho[i] * rate\n                Dp +=",
     'sibling-assembly'),
    (OC, "return [[pT * np.exp(siteene[i] - beT) / sitepre[i]", "return [[pT * np.exp(siteene[j] - beT) / sitepre[j]", 'initial-site-only'),
    (OC, "        for transitionset, rates, symmrates in zip(self.jumpnetwork, ratelist, symmratelist):",
     "        for transitionset, rates, symmrates in zip(self.jumpnetwork, symmratelist, ratelist):", 'sibling-assembly'),
    (OC, "        for transitionset, rates, symmrates, bET in zip(self.jumpnetwork, ratelist, symmratelist, betaeneT):",
     "        for transitionset, symmrates, rates, bET in zip(self.jumpnetwork, ratelist, symmratelist, betaeneT):", 'assembly-roles'),
    (OC, "                omega_ij[i, i] -= rate\n                domega_ij[i, j] += symmrate * (bET", "                omega_ij[j, j] -= rate\n                domega_ij[i, j] += symmrate * (bET", 'assembly-roles'),
    (OC, "            self.bias_solver = lambda omega, b: -solve(-omega, b, assume_a='pos')", "            self.bias_solver = lambda omega, b: solve(-omega, b, assume_a='pos')",
     'scale-homogeneous-solver'),
    ('onsager/GFcalc.py', "pT * np.exp(0.5 * betaene[w0] + 0.5 * betaene[w1] - beT)", "pT * np.exp(betaene[w0] - beT)", 'exchange-symmetric'),
    ('onsager/GFcalc.py', "pretrans / pre[wi] * np.exp(betaene[wi] - BET)", "pretrans * np.exp(betaene[wi] - BET)", 'sibling-formula'),
    (OC, "            D0 += np.dot(np.dot(self.VV, bias_v), gamma_v)", "            D0 -= np.dot(np.dot(self.VV, bias_v), gamma_v)", 'correction-term'),
    (OC, "        if not CalcDeriv:\n            return D0 + Dcorrection", "        if not CalcDeriv:\n            return D0", 'correction-term'),
]
NEUTRALS = [
    (OC, "                bias_i[i] += sqrtrho[i] * rate * dx\n                biasP_i", "                bias_i[i] += rate * dx * sqrtrho[i]\n                biasP_i"),
    (OC, "                D0 += 0.5 * np.outer(dx, dx) * rho[i] * rate\n                Dp +=",
     "                dxdx = np.outer(dx, dx)\n                D0 += 0.5 * dxdx * rho[i] * rate\n                Dp +="),
]
