"""
C33 -- Monte Carlo sampler state is a function of the occupation (structural clauses).

Decides for ``cluster.MonteCarloSampler``:
  * owner: the state (occ, clustercount, occupied_set, unoccupied_set) is written only by __init__, start and
    update; the observers E, deltaE_trial and transitions write nothing on self (no hidden caches);
  * start is total: it rebinds every state attribute from fresh values, so the state after start depends on the
    occupation only;
  * paired flips: in update every 0->1 flip, guarded by the current occupancy, carries the removal from the
    unoccupied set, the addition to the occupied set and one clustercount decrement per interaction entry of the
    site; the 1->0 flip carries the mirror image; the sign convention (clustercount = number of unoccupied sites)
    is the one start uses;
  * multiplicity: every clustercount update is element-wise over the site's interaction list (a scalar loop
    index), exactly as start counts them -- an array-valued index would apply the update once per distinct entry;
  * deltaE_trial walks the same interaction lists under the same occupancy guards as update, with the opposite
    sign (it accumulates the negative of the count change, as documented).
Not decided: energies themselves.
"""
import ast

from ._common import resolve_in_block
from ..model import AnalysisError, dotted, unparse, walk_local
from ..engines import owner

STATE = ('occ', 'clustercount', 'occupied_set', 'unoccupied_set')
OWNERS = ('__init__', 'start', 'update')
OBSERVERS = ('E', 'deltaE_trial', 'transitions')


def run(model, rep, tier):
    rep.explanation = __doc__.strip()
    from ._common import caches_for
    caches_for(model, rep, 'C33')
    rep.not_decided = 'energy values; equality with a brute-force sum'
    rep.rule('sole-writers', 'sampler state is written only by __init__, start, update')
    rep.rule('observer-pure', 'E, deltaE_trial, transitions assign nothing on self')
    rep.rule('start-total', 'start rebinds every state attribute from fresh values')
    rep.rule('paired-flip', 'each occupancy flip in update carries its set and count updates with the sign fixed by start')
    rep.rule('scalar-count-update', 'clustercount is updated element-wise over the interaction list (multiplicity preserved)')
    rep.rule('trial-mirrors-update', 'deltaE_trial visits the same interaction lists under the same guards, opposite sign')
    mod = model.mod('cluster')
    ci = model.cls('cluster', 'MonteCarloSampler')
    for m in OWNERS + OBSERVERS:
        if m not in ci.methods:
            raise AnalysisError('anchor vanished: MonteCarloSampler.%s' % m)
    # ---- writers
    nown = 0
    for name, fn in ci.methods.items():
        s = fn.args.args[0].arg
        writes = [w for w in owner.attr_writes(fn, set(STATE)) if w[1] == s]
        anyassign = owner.self_attr_assigned(fn, s)
        if name in OWNERS:
            nown += 1
            rep.ob('sole-writers', mod, fn, 'MonteCarloSampler.%s (owner) writes %s' % (name, sorted({w[2] for w in writes})),
                   True, engine='owner')
            continue
        for node, recv, attr, kind in writes:
            rep.ob('sole-writers', mod, node, '%s self.%s in MonteCarloSampler.%s: %s' % (kind, attr, name, unparse(node)[:100]),
                   False, 'sampler state is modified outside start/update: the state stops being a function of the occupation',
                   engine='owner')
        if name in OBSERVERS:
            others = sorted(a for a in anyassign if a not in STATE)
            allw = list(owner.attr_writes(fn, _AnyAttr()))
            selfw = [w for w in allw if w[1] == s]
            ok = not anyassign and not selfw
            rep.ob('observer-pure', mod, fn, 'MonteCarloSampler.%s assigns nothing on self' % name, ok,
                   '' if ok else 'observer writes self.%s: a value remembered across calls survives start()/update() and makes '
                                 'results depend on history' % ', self.'.join(sorted(set(others) | {w[2] for w in selfw})),
                   engine='owner')
    rep.floor('owner routines', nown, 3)
    # ---- start is total
    st = ci.methods['start']
    assigned = owner.self_attr_assigned(st, st.args.args[0].arg)
    for a in STATE:
        ok = a in assigned and isinstance(assigned[a], ast.Assign) and getattr(assigned[a], '_parent', None) is st
        rep.ob('start-total', mod, assigned.get(a, st), 'start rebinds self.%s unconditionally' % a, ok,
               '' if ok else 'start does not reset %s: state from the previous run leaks into the new one' % a, engine='owner')
    # fresh values for the derived ones
    for a in ('clustercount', 'occupied_set', 'unoccupied_set'):
        n = assigned.get(a)
        if isinstance(n, ast.Assign):
            v = n.value
            # nothing the new value is computed from (through the locals of start) reads the attribute being replaced
            from ..engines import cache as _cache
            defs, names_of = _cache._deps(st, st.args.args[0].arg)
            fresh = ('self.' + a) not in _cache._closure(defs, names_of(v))
            rep.ob('start-total', mod, n, 'self.%s = %s' % (a, unparse(v)[:60]), fresh,
                   '' if fresh else 'new value of %s is built from the old one' % a, engine='owner')
    # ---- sign convention of start
    start_sign = _count_updates(st)
    if len(start_sign) != 1:
        raise AnalysisError('MonteCarloSampler.start: expected exactly one clustercount update, found %d' % len(start_sign))
    sgn0, guard0, idx_ok0, node0 = start_sign[0]
    if guard0 != 0:
        raise AnalysisError('MonteCarloSampler.start: clustercount is not counted under `occupancy == 0`')
    rep.ob('scalar-count-update', mod, node0, 'start: %s (per entry of the interaction list)' % unparse(node0), idx_ok0,
           '' if idx_ok0 else 'start does not count interactions entry by entry', engine='owner')
    # ---- update
    up = ci.methods['update']
    flips = _flips(up)
    if sorted(f['to'] for f in flips) != [0, 1]:
        raise AnalysisError('MonteCarloSampler.update: expected one 0->1 and one 1->0 flip, found %s' % [f['to'] for f in flips])
    for f in flips:
        to = f['to']
        site = f['site']
        want_guard = 1 - to
        ok = f['guard'] == want_guard
        rep.ob('paired-flip', mod, f['node'], 'update: occ[%s] = %d guarded by occ[%s] == %d' % (site, to, site, want_guard), ok,
               '' if ok else 'flip is not guarded by the current occupancy: flipping a site that already has the value '
                             'changes the counts again', engine='owner')
        rem, add = ('unoccupied_set', 'occupied_set') if to == 1 else ('occupied_set', 'unoccupied_set')
        okr = ('remove', rem, site) in f['setops'] or ('discard', rem, site) in f['setops']
        oka = ('add', add, site) in f['setops']
        rep.ob('paired-flip', mod, f['node'], 'update: flip to %d removes %s from %s' % (to, site, rem), okr,
               '' if okr else 'site is not removed from %s' % rem, engine='owner')
        rep.ob('paired-flip', mod, f['node'], 'update: flip to %d adds %s to %s' % (to, site, add), oka,
               '' if oka else 'site is not added to %s' % add, engine='owner')
        cu = f['counts']
        want = sgn0 if to == 0 else -sgn0
        okc = len(cu) == 1 and cu[0][0] == want
        rep.ob('paired-flip', mod, f['node'], 'update: flip to %d changes clustercount by %+d per interaction entry' % (to, want), okc,
               '' if okc else 'count update missing or with the wrong sign (start counts %+d per unoccupied site)' % sgn0,
               engine='owner')
        for sg, _, idx_ok, node in cu:
            it_ok = idx_ok and f['iter_site'].get(id(node)) == site
            rep.ob('scalar-count-update', mod, node, 'update: %s over siteinteract[%s][:Ninteract[%s]]' % (unparse(node), site, site),
                   it_ok, '' if it_ok else 'clustercount is not updated once per entry of this site\'s interaction list: repeated '
                                            'entries (clusters wrapping a small cell) are miscounted relative to start()',
                   engine='owner')
    # any clustercount AugAssign anywhere in update must have been attributed to a flip
    allcu = _count_updates(up)
    attributed = sum(len(f['counts']) for f in flips)
    rep.ob('scalar-count-update', mod, up, 'update: %d clustercount update(s), all inside a guarded flip' % len(allcu),
           len(allcu) == attributed, '' if len(allcu) == attributed else 'a clustercount update outside the guarded flips',
           engine='owner')
    # ---- deltaE_trial mirrors update
    tr = ci.methods['deltaE_trial']
    tinfo = _trial(tr)
    uinfo = {(f['param'], f['guard']): f for f in flips}
    for (param, guard, sign, iter_ok, node) in tinfo:
        f = uinfo.get((param, guard))
        ok = f is not None and iter_ok and f['counts'] and sign == -f['counts'][0][0]
        rep.ob('trial-mirrors-update', mod, node, 'deltaE_trial: sites in %s with occ == %s contribute %+d per interaction entry'
               % (param, guard, sign), bool(ok),
               '' if ok else 'trial change does not mirror what update() does for the same sites: the predicted and the '
                             'realised energy change differ', engine='owner')
    rep.floor('deltaE_trial site loops', len(tinfo), 2)
    # vacancy guards in update and deltaE_trial
    for fn in (up, tr):
        g = [n for n in walk_local(fn) if isinstance(n, ast.If) and 'self.vacancy in' in unparse(n.test)
             and any(isinstance(s, ast.Raise) for s in n.body)]
        rep.ob('paired-flip', mod, fn, 'MonteCarloSampler.%s refuses the vacancy site for both argument lists' % fn.name,
               len(g) == 2, '' if len(g) == 2 else 'vacancy site can be (un)occupied', engine='owner')


class _AnyAttr(set):
    def __contains__(self, item):
        return True


def _count_updates(fn):
    """[(sign, guard_value, index_is_scalar_loop_var, node)] for AugAssign on self.clustercount[...]"""
    out = []
    for n in walk_local(fn):
        if isinstance(n, ast.AugAssign) and isinstance(n.target, ast.Subscript) \
                and unparse(n.target.value) == 'self.clustercount' and isinstance(n.op, (ast.Add, ast.Sub)):
            one = isinstance(n.value, ast.Constant) and n.value.value == 1
            sign = (1 if isinstance(n.op, ast.Add) else -1) if one else 0
            idx = n.target.slice
            scalar = False
            if isinstance(idx, ast.Name):
                lp = getattr(n, '_parent', None)
                while lp is not None and lp is not fn:
                    if isinstance(lp, ast.For) and isinstance(lp.target, ast.Name) and lp.target.id == idx.id:
                        scalar = True
                        break
                    lp = getattr(lp, '_parent', None)
            out.append((sign, _guard_value(n, fn), scalar, n))
    return out


def _guard_value(node, fn):
    """value v of the innermost enclosing `if <occupancy> == v` (or elif chain position)."""
    p, child = getattr(node, '_parent', None), node
    while p is not None and p is not fn:
        if isinstance(p, ast.If) and child in p.body:
            t = p.test
            if isinstance(t, ast.Compare) and len(t.ops) == 1 and isinstance(t.ops[0], ast.Eq) \
                    and isinstance(t.comparators[0], ast.Constant):
                return t.comparators[0].value
        child, p = p, getattr(p, '_parent', None)
    return None


def _flips(fn):
    out = []
    params = [a.arg for a in fn.args.args[1:]]
    for n in walk_local(fn):
        if isinstance(n, ast.Assign) and isinstance(n.targets[0], ast.Subscript) and unparse(n.targets[0].value) == 'self.occ' \
                and isinstance(n.value, ast.Constant) and n.value.value in (0, 1):
            site = unparse(n.targets[0].slice)
            blk = getattr(n, '_parent', None)
            guard = None
            if isinstance(blk, ast.If) and isinstance(blk.test, ast.Compare) and unparse(blk.test.left) == 'self.occ[%s]' % site \
                    and isinstance(blk.test.ops[0], ast.Eq) and isinstance(blk.test.comparators[0], ast.Constant):
                guard = blk.test.comparators[0].value
            body = blk.body if isinstance(blk, ast.If) else []
            setops, counts, iter_site = set(), [], {}
            for s in body:
                for c in ast.walk(s):
                    if isinstance(c, ast.Call) and isinstance(c.func, ast.Attribute) and c.func.attr in ('add', 'remove', 'discard') \
                            and unparse(c.func.value).startswith('self.') and len(c.args) == 1:
                        setops.add((c.func.attr, unparse(c.func.value)[5:], unparse(c.args[0])))
                if isinstance(s, ast.AugAssign) and isinstance(s.target, ast.Subscript) \
                        and unparse(s.target.value) == 'self.clustercount' and isinstance(s.op, (ast.Add, ast.Sub)):
                    one = isinstance(s.value, ast.Constant) and s.value.value == 1
                    counts.append(((1 if isinstance(s.op, ast.Add) else -1) if one else 0, None, False, s))
                if isinstance(s, ast.For):
                    it = unparse(resolve_in_block(s, s.iter))
                    for cu in _count_updates_in(s):
                        counts.append(cu)
                        # which site's list is iterated
                        for cand in (site,):
                            if it == 'self.siteinteract[%s][:self.Ninteract[%s]]' % (cand, cand):
                                iter_site[id(cu[3])] = cand
            # which parameter the site comes from
            param = None
            lp = blk
            while lp is not None and lp is not fn:
                if isinstance(lp, ast.For) and unparse(lp.target) == site and unparse(lp.iter) in params:
                    param = unparse(lp.iter)
                lp = getattr(lp, '_parent', None)
            out.append({'to': n.value.value, 'site': site, 'guard': guard, 'setops': setops, 'counts': counts,
                        'iter_site': iter_site, 'node': n, 'param': param})
    return out


def _count_updates_in(loop):
    out = []
    for n in ast.walk(loop):
        if isinstance(n, ast.AugAssign) and isinstance(n.target, ast.Subscript) and unparse(n.target.value) == 'self.clustercount' \
                and isinstance(n.op, (ast.Add, ast.Sub)):
            one = isinstance(n.value, ast.Constant) and n.value.value == 1
            sign = (1 if isinstance(n.op, ast.Add) else -1) if one else 0
            scalar = isinstance(n.target.slice, ast.Name) and isinstance(loop.target, ast.Name) \
                and n.target.slice.id == loop.target.id
            out.append((sign, None, scalar, n))
    return out


def _trial(fn):
    """[(param, guard_value, sign, iterates_site_list, node)] for the site loops of deltaE_trial."""
    out = []
    params = [a.arg for a in fn.args.args[1:]]
    for lp in fn.body:
        if not (isinstance(lp, ast.For) and unparse(lp.iter) in params and isinstance(lp.target, ast.Name)):
            continue
        site = lp.target.id
        for s in lp.body:
            if isinstance(s, ast.If) and isinstance(s.test, ast.Compare) and unparse(s.test.left) == 'self.occ[%s]' % site \
                    and isinstance(s.test.comparators[0], ast.Constant):
                guard = s.test.comparators[0].value
                for inner in s.body:
                    if isinstance(inner, ast.For):
                        iter_ok = unparse(resolve_in_block(inner, inner.iter)) == 'self.siteinteract[%s][:self.Ninteract[%s]]' % (site, site)
                        signs = set()
                        for n in ast.walk(inner):
                            if isinstance(n, ast.AugAssign) and isinstance(n.op, (ast.Add, ast.Sub)):
                                # x += 1, x -= 1, and the same with a signed constant (x += -1 after a helper(step=-1) is written out)
                                from ..engines.linform import const_value
                                c = const_value(resolve_in_block(inner, n.value))
                                if c is not None and abs(c) == 1:
                                    signs.add(int(c) if isinstance(n.op, ast.Add) else -int(c))
                            if isinstance(n, ast.Assign) and isinstance(n.targets[0], ast.Subscript):
                                v = resolve_in_block(inner, n.value)
                                if isinstance(v, ast.Constant) and v.value == 1:
                                    signs.add(1)
                                elif isinstance(v, ast.UnaryOp) and isinstance(v.op, ast.USub) and isinstance(v.operand, ast.Constant) \
                                        and v.operand.value == 1:
                                    signs.add(-1)
                                elif isinstance(v, ast.BinOp) and isinstance(v.op, (ast.Add, ast.Sub)) and isinstance(v.right, ast.Constant) \
                                        and v.right.value == 1 and unparse(v.left) in (
                                            unparse(n.targets[0]), '%s.get(%s, 0)' % (unparse(n.targets[0].value), unparse(n.targets[0].slice))):
                                    # d[k] = d.get(k, 0) + 1  /  d[k] = d[k] - 1 : the spelled-out increment
                                    signs.add(1 if isinstance(v.op, ast.Add) else -1)
                        sign = signs.pop() if len(signs) == 1 else 0
                        out.append((unparse(lp.iter), guard, sign, iter_ok, inner))
    return out


CL = 'onsager/cluster.py'
BREAKERS = [
    (CL, "                self.occupied_set.add(i)\n                for inter in self.siteinteract[i][:self.Ninteract[i]]:\n                    self.clustercount[inter] -= 1",
     "                self.occupied_set.add(i)\n                for inter in self.siteinteract[i][:self.Ninteract[i]]:\n                    self.clustercount[inter] += 1", 'paired-flip'),
    (CL, "                self.unoccupied_set.remove(i)\n                self.occupied_set.add(i)", "                self.occupied_set.add(i)", 'paired-flip'),
    (CL, "        dE = 0\n        for interact, dcount in dclustercount.items():", "        self.lastdcount = dclustercount\n        dE = 0\n        for interact, dcount in dclustercount.items():", 'observer-pure'),
    (CL, "        for i in occsites:\n            if self.occ[i] == 0:\n                self.occ[i] = 1", "        for i in occsites:\n            if True:\n                self.occ[i] = 1", 'paired-flip'),
    (CL, "        self.clustercount = np.zeros_like(self.interactvalue, dtype=int)\n        occ_list", "        if self.clustercount is None: self.clustercount = np.zeros_like(self.interactvalue, dtype=int)\n        occ_list", None),
    (CL, "                for inter in self.siteinteract[i][:self.Ninteract[i]]:\n                    if inter in dclustercount:\n                        dclustercount[inter] += 1\n                    else:\n                        dclustercount[inter] = 1",
     "                for inter in self.siteinteract[i][:self.Ninteract[i]]:\n                    if inter in dclustercount:\n                        dclustercount[inter] -= 1\n                    else:\n                        dclustercount[inter] = -1", 'trial-mirrors-update'),
]
NEUTRALS = [
    (CL, "                self.unoccupied_set.remove(i)\n                self.occupied_set.add(i)\n                for inter", "                self.occupied_set.add(i)\n                self.unoccupied_set.remove(i)\n                for inter"),
]
