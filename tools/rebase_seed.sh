#!/bin/bash
# usage: rebase_seed.sh <patch> <out>  -- re-express a seed patch (made against an older commit) against /repo HEAD
p=$1; out=$2
cd /repo || exit 2
git diff --quiet HEAD || { echo "repo not clean"; exit 2; }
if git apply --check "$p" 2>/dev/null; then cp "$p" "$out"; echo "applies as is"; exit 0; fi
if git apply --3way "$p" >/dev/null 2>&1 && ! git diff --name-only --diff-filter=U | grep -q .; then
  git diff HEAD > "$out"; git checkout HEAD -- . ; git reset -q; echo "rebased with 3way"; exit 0
fi
git checkout HEAD -- . 2>/dev/null; git reset -q; echo "CONFLICT"; exit 1
