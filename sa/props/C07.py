"""
C07 -- results do not depend on the thermodynamic range beyond the interactions (structural clauses).

Not decided: equality of the four tensors between two calculators of different range (numerical).  Decided -- each a
necessary condition of that equality, visible in the shape of the code:
  * ranges: ``generate(Nthermo)`` builds the thermodynamic star set with Nthermo shells without origin states and the
    kinetic one with exactly one more shell, with origin states; the stars of the outer shell are found by *membership*
    of each kinetic star in the thermodynamic set (never by position in the distance-sorted list: stars interleave for
    Nthermo >= 2 on BCC / rectangular lattices);
  * pruning: an omega1 class is dropped only if BOTH its stars are outer, symmetrically; the three parallel lists are
    popped together, iterating backwards;
  * back-fill: every kinetic star gets the isolated-solute part (site energy / prefactor of its Wyckoff set) and only the
    thermodynamic ones additionally get the interaction (so a state beyond the interaction range reduces to the
    non-interacting value); the back-filled omega1 / omega2 transition energies are referred to vacancy + solute as the
    consumer documents (reference classes, engine ``balance``), with the symmetric half-sum over the two end states;
  * order in ``tags2preene``: state and omega0 rows are read before the LIMB back-fill, omega1 / omega2 rows after it, so
    that data given for the smaller range override the back-fill and everything else is back-filled from the same data;
  * ``generate`` is memoryless: nothing indexed into the previous star set survives a change of range.
"""
import ast

from ..model import AnalysisError, dotted, unparse, walk_local
from ..engines import exchange, pattern
from ..engines.linform import swap_sigma
from ._common import memoryless_setters, cache_discipline, CACHE_EXEMPT, resolve_local


def run(model, rep, tier):
    rep.explanation = __doc__.strip()
    rep.not_decided = 'numerical equality of the transport tensors computed with two different thermodynamic ranges'
    cache_discipline(model, rep, [('OnsagerCalc', 'VacancyMediated', ['generate', 'generatematrices', 'tags2preene', 'makeLIMBpreene']),
                                  ('crystalStars', 'StarSet', ['generate', 'jumpnetwork_omega1', 'jumpnetwork_omega2'])],
                     exempt=CACHE_EXEMPT)
    rep.rule('kinetic-range', 'kinetic star set = thermodynamic range + 1 shell, with origin states; thermodynamic one without')
    rep.rule('lock-step', 'parallel lists (network, jump type, star pair) are appended / popped together')
    rep.rule('outer-shell-by-membership', 'outerkin = kinetic stars whose representative is not a thermodynamic state')
    rep.rule('pruning-predicate', 'a jump class is dropped only if both its stars lie outside the thermodynamic range')
    rep.rule('backfill-coverage', 'every kinetic star carries the isolated-solute term; thermodynamic stars add the interaction')
    rep.rule('backfill-symmetric', 'back-filled transition data are symmetric in the two end states of the jump')
    rep.rule('fully-referenced-output', 'LIMB transition energies have the documented reference class')
    rep.rule('class-of-argument', 'partial in-place additions are class-zero')
    rep.rule('backfill-order', 'state / omega0 rows < LIMB back-fill < omega1 / omega2 rows in tags2preene')
    oc = model.mod('OnsagerCalc')
    ci = model.cls('OnsagerCalc', 'VacancyMediated')
    gen = ci.methods.get('generate')
    if gen is None:
        raise AnalysisError('anchor vanished: VacancyMediated.generate')
    _ranges(rep, oc, gen)
    from .C26 import prune_rules
    prune_rules(model, rep)
    memoryless_setters(model, rep, [('OnsagerCalc', 'VacancyMediated', 'generate')])
    _backfill(model, rep, oc, ci)
    # reference classes are evaluated on the normal form (local helpers inlined, temporaries written out), as C04 does
    from .C04 import limb_classes
    nm = model.normal()
    limb_classes(nm, rep, nm.mod('OnsagerCalc'), nm.cls('OnsagerCalc', 'VacancyMediated'))
    _order(rep, oc, ci)


def _ranges(rep, oc, gen):
    p = gen.args.args[1].arg if len(gen.args.args) > 1 else None
    calls = {}
    for c in walk_local(gen):
        if isinstance(c, ast.Call) and isinstance(c.func, ast.Attribute) and c.func.attr == 'generate' \
                and unparse(c.func.value) in ('self.thermo', 'self.kinetic'):
            calls[unparse(c.func.value)] = c
    if set(calls) != {'self.thermo', 'self.kinetic'} or p is None:
        raise AnalysisError('VacancyMediated.generate: star-set generation calls not found')

    def shells(c):
        a = c.args[0] if c.args else next((k.value for k in c.keywords if k.arg == 'Nshells'), None)
        a = resolve_local(gen, a) if a is not None else None
        if a is None:
            return None
        if isinstance(a, ast.Name) and a.id == p:
            return 0
        if isinstance(a, ast.BinOp) and isinstance(a.op, ast.Add):
            for x, y in ((a.left, a.right), (a.right, a.left)):
                if isinstance(x, ast.Name) and x.id == p and isinstance(y, ast.Constant) and isinstance(y.value, int):
                    return y.value
        return None

    def origin(c):
        a = c.args[1] if len(c.args) > 1 else next((k.value for k in c.keywords if k.arg == 'originstates'), None)
        return a.value if isinstance(a, ast.Constant) else (False if a is None else None)
    st, sk = shells(calls['self.thermo']), shells(calls['self.kinetic'])
    ok = st == 0 and sk == 1
    rep.ob('kinetic-range', oc, calls['self.kinetic'], 'thermo.generate(%s), kinetic.generate(%s)' % (
        unparse(calls['self.thermo'].args[0]) if calls['self.thermo'].args else '?', unparse(calls['self.kinetic'].args[0]) if calls['self.kinetic'].args else '?'),
        ok, '' if ok else 'the kinetic star set is not exactly one shell larger than the thermodynamic one: states one jump outside the '
        'interaction range are missing (or the outer shell is not the non-interacting one)', engine='bounds', qual='VacancyMediated.generate')
    ot, okk = origin(calls['self.thermo']), origin(calls['self.kinetic'])
    ok = ot is False and okk is True
    rep.ob('kinetic-range', oc, calls['self.kinetic'], 'origin states: thermo %s, kinetic %s' % (ot, okk), ok,
           '' if ok else 'origin states must be present in the kinetic set (they are removed explicitly) and absent from the thermodynamic one',
           engine='tables', qual='VacancyMediated.generate')
    # the range is recorded so that the memo guard of generate compares the right thing
    ok = pattern.has(gen, 'self.Nthermo = %s' % p)
    rep.ob('kinetic-range', oc, gen, 'generate records self.Nthermo = %s' % p, ok, '' if ok else 'the range in force is not recorded',
           engine='tables', qual='VacancyMediated.generate')


def _backfill(model, rep, oc, ci):
    fn = ci.methods.get('makeLIMBpreene')
    if fn is None:
        raise AnalysisError('anchor vanished: VacancyMediated.makeLIMBpreene')
    a = [x.arg for x in fn.args.args]
    # per-kinetic-star arrays: initialised over *all* kinetic stars from the solute site data ...
    inits = {}
    for st in fn.body:
        if isinstance(st, ast.Assign) and isinstance(st.targets[0], ast.Name):
            for comp in [c for c in ast.walk(st.value) if isinstance(c, ast.ListComp)]:
                if unparse(comp.generators[0].iter) == 'self.kineticsvWyckoff' and isinstance(comp.elt, ast.Subscript) \
                        and isinstance(comp.elt.value, ast.Name) and comp.elt.value.id in a:
                    tgt = comp.generators[0].target
                    first = unparse(tgt.elts[0]) if isinstance(tgt, ast.Tuple) and tgt.elts else None
                    inits[st.targets[0].id] = (st, comp.elt.value.id, unparse(comp.elt.slice) == first)
    want = {'eneS', 'preS'}
    ok = {v[1] for v in inits.values()} == want and all(v[2] for v in inits.values())
    rep.ob('backfill-coverage', oc, fn, 'per-star arrays %s initialised for every kinetic star from %s[solute Wyckoff index]'
           % (sorted(inits), sorted(v[1] for v in inits.values())), ok,
           '' if ok else 'stars beyond the interaction range do not carry the isolated-solute energy / prefactor: a jump between '
           'non-interacting states no longer reduces to the bare vacancy jump', engine='flow', qual='VacancyMediated.makeLIMBpreene')
    if not ok:
        return
    ene = next(k for k, v in inits.items() if v[1] == 'eneS')
    pre = next(k for k, v in inits.items() if v[1] == 'preS')
    # ... and the interaction is added for thermodynamic stars only, at the kinetic index of each
    loops = [x for x in fn.body if isinstance(x, ast.For) and 'self.thermo2kin' in unparse(x.iter)]
    ok = False
    if len(loops) == 1 and isinstance(loops[0].target, ast.Tuple) and len(loops[0].target.elts) == 2:
        t_, k_ = [unparse(x) for x in loops[0].target.elts]
        if unparse(loops[0].iter) == 'enumerate(self.thermo2kin)':
            from ._common import update_of
            ups = {}
            for st in loops[0].body:
                u = update_of(st)
                if u:
                    ups[u[0]] = (u[1], unparse(u[2]))
            ok = ups.get('%s[%s]' % (ene, k_)) == ('Add', 'eneSV[%s]' % t_) and ups.get('%s[%s]' % (pre, k_)) == ('Mult', 'preSV[%s]' % t_) \
                and len(ups) == 2
    rep.ob('backfill-coverage', oc, loops[0] if loops else fn, 'interaction added at thermo2kin[t] for every thermodynamic star t '
           '(energy +=, prefactor *=)', ok, '' if ok else 'the solute-vacancy interaction is not applied at the kinetic index of '
           'each thermodynamic star, additively in the energy and multiplicatively in the prefactor', engine='flow',
           qual='VacancyMediated.makeLIMBpreene')
    # symmetric combination over the two end states -- wherever the assignment sits (inline loops or a local helper)
    n = 0
    for st in ast.walk(fn):
        if not (isinstance(st, ast.Assign) and isinstance(st.targets[0], ast.Subscript)):
            continue
        pairs = {}
        for s_ in ast.walk(st.value):
            # ARR[SP[0]] / ARR[SP[1]] : the star pair indexes the per-star arrays
            if isinstance(s_, ast.Subscript) and isinstance(s_.slice, ast.Subscript) and isinstance(s_.slice.value, ast.Name) \
                    and isinstance(s_.slice.slice, ast.Constant) and s_.slice.slice.value in (0, 1):
                pairs.setdefault(s_.slice.value.id, set()).add(s_.slice.slice.value)
        if not pairs:
            continue
        sp = sorted(pairs)[0]
        n += 1
        sym, _, _ = exchange.symmetric_expr(st.value, swap_sigma([('%s[0]' % sp, '%s[1]' % sp)]))
        ok = sym and pairs[sp] == {0, 1}
        rep.ob('backfill-symmetric', oc, st, unparse(st)[:100], ok,
               '' if ok else 'the back-filled value is not the symmetric combination of the two end states of the jump (forward and '
               'reverse jump would get different transition states)', engine='exchange', qual='VacancyMediated.makeLIMBpreene')
    # each network is back-filled from its own jump types and star pairs
    nc = 0
    for c in ast.walk(fn):
        if isinstance(c, ast.Call):
            txt = ' '.join(unparse(a) for a in c.args)
            fam = {k for k in ('1', '2') if ('self.om%s_' % k) in txt}
            if fam and ('_SP' in txt or '_jt' in txt):
                nc += 1
                rep.ob('backfill-symmetric', oc, c, unparse(c)[:100], len(fam) == 1,
                       '' if len(fam) == 1 else 'omega1 and omega2 lists are mixed in one back-fill', engine='tables',
                       qual='VacancyMediated.makeLIMBpreene')
    rep.floor('LIMB network bindings', nc, 2)
    rep.floor('LIMB assignments', n, 2)


def _order(rep, oc, ci):
    fn = ci.methods.get('tags2preene')
    if fn is None:
        raise AnalysisError('anchor vanished: VacancyMediated.tags2preene')
    pos = {}
    for i, st in enumerate(fn.body):
        txt = unparse(st)
        if isinstance(st, (ast.FunctionDef, ast.Return)):
            continue
        # a statement is classified by the array names it spells out (row loops, or calls of a local helper given the rows)
        keys = {c.value for c in ast.walk(st) if isinstance(c, ast.Constant) and isinstance(c.value, str)}
        if keys & {'preT1', 'eneT1', 'preT2', 'eneT2'}:
            pos.setdefault('omega12', i)
        if keys & {'preV', 'eneV', 'preS', 'eneS', 'preSV', 'eneSV', 'preT0', 'eneT0'} and 'self.makeLIMBpreene(' not in txt:
            pos['state'] = i      # the *last* statement that reads state / omega0 rows
        if 'self.makeLIMBpreene(' in txt and not isinstance(st, (ast.For, ast.If)):
            pos.setdefault('limb', i)
            # the back-fill is computed from the dictionary being built and merged into it
            d = [c for c in ast.walk(st) if isinstance(c, ast.Call) and unparse(c.func) == 'self.makeLIMBpreene']
            src = [unparse(k.value) for k in d[0].keywords if k.arg is None] if d else []
            merged = isinstance(st, ast.Expr) and isinstance(st.value, ast.Call) and isinstance(st.value.func, ast.Attribute) \
                and st.value.func.attr == 'update' and src == [unparse(st.value.func.value)]
            rep.ob('backfill-order', oc, st, unparse(st)[:90], merged,
                   '' if merged else 'the back-fill is not computed from, and merged into, the dictionary holding the user data',
                   engine='flow', qual='VacancyMediated.tags2preene')
    if set(pos) == {'state', 'omega12'}:
        rep.ob('backfill-order', oc, fn, 'tags2preene back-fills omega1 / omega2 data with makeLIMBpreene', False,
               'no LIMB back-fill between the state rows and the omega1 / omega2 rows: transitions that the smaller calculator does '
               'not know keep the neutral default', engine='flow', qual='VacancyMediated.tags2preene')
        return
    if set(pos) != {'state', 'limb', 'omega12'}:
        raise AnalysisError('tags2preene: state rows / LIMB back-fill / omega1-2 rows not all found (%s)' % sorted(pos))
    ok = pos['state'] < pos['limb'] < pos['omega12']
    rep.ob('backfill-order', oc, fn.body[pos['limb']], 'statement positions state rows %d < LIMB %d < omega1/omega2 rows %d'
           % (pos['state'], pos['limb'], pos['omega12']), ok,
           '' if ok else 'the LIMB back-fill does not sit between the state / omega0 rows and the omega1 / omega2 rows: data given for '
           'the smaller range are overwritten, or the back-fill does not see them', engine='flow', qual='VacancyMediated.tags2preene')


OC = 'onsager/OnsagerCalc.py'
BREAKERS = [
    (OC, "        self.kinetic.generate(Nthermo + 1, originstates=True)", "        self.kinetic.generate(Nthermo + 2, originstates=True)", 'kinetic-range'),
    (OC, "        self.thermo.generate(Nthermo, originstates=False)", "        self.thermo.generate(Nthermo, originstates=True)", 'kinetic-range'),
    (OC, "            if SP[0] in self.outerkin and SP[1] in self.outerkin:", "            if SP[0] in self.outerkin or SP[1] in self.outerkin:", 'pruning-predicate'),
    (OC, "        eneSVkin = np.array([eneS[s] for (s, v) in self.kineticsvWyckoff], dtype=float)  # avoid ints",
     "        eneSVkin = np.zeros(len(self.kineticsvWyckoff))", 'backfill-coverage'),
    (OC, "            eneSVkin[kindex] += eneSV[tindex]", "            eneSVkin[tindex] += eneSV[tindex]", 'backfill-coverage'),
    (OC, "            eneT1[j] = eneT0[jt] + 0.5 * (eneSVkin[SP[0]] + eneSVkin[SP[1]])", "            eneT1[j] = eneT0[jt] + eneSVkin[SP[0]]", 'backfill-symmetric'),
    (OC, "        # \"backfill\" with LIMB so that the rest is meaningful:\n        thermodict.update(self.makeLIMBpreene(**thermodict))\n        for tagstring, prename, enename in (('omega1', 'preT1', 'eneT1'),",
     "        for tagstring, prename, enename in (('omega1', 'preT1', 'eneT1'),", 'backfill-order'),
    (OC, "        self.om2_jn, self.om2_jt, self.om2_SP = self.kinetic.jumpnetwork_omega2()", "        if not hasattr(self, 'om2_jn'):\n            self.om2_jn, self.om2_jt, self.om2_SP = self.kinetic.jumpnetwork_omega2()", 'state-reuse-keyed'),
]
NEUTRALS = [
    (OC, "        self.kinetic.generate(Nthermo + 1, originstates=True)", "        self.kinetic.generate(1 + Nthermo, originstates=True)"),
    (OC, "            eneT1[j] = eneT0[jt] + 0.5 * (eneSVkin[SP[0]] + eneSVkin[SP[1]])", "            eneT1[j] = eneT0[jt] + 0.5 * (eneSVkin[SP[1]] + eneSVkin[SP[0]])"),
]
