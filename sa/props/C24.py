"""
C24 -- star sets are complete symmetry orbits of reachable pair states (structural clauses).

Not decided: completeness of reachability (a search).  Decided:
  * memo: StarSet.generate's early return must compare every parameter the skipped body reads (frozen exemption:
    ``threshold`` only buckets states by distance; orbits are decided by exact PairState equality inside a bucket);
  * siblings: the star-partition block (bucket by distance, then split each bucket into orbits under *every* operation
    of crys.G) is the same code in generate, __iadd__ and diffgenerate;
  * adding two star sets combines the *states* of both operands, and the difference set combines the states of its two
    arguments with endpoint subtraction;
  * index lookups: index / indexdict are rebuilt from the stars by the same loop in every generator and in the loader;
  * no module-level cache stores a value under a key that omits a parameter the value depends on (a cached symmetry
    image keyed without the chemistry would split orbits after a second star set is built).
"""
import ast
from ..model import ast_copy as _ast_copy

from ..model import AnalysisError, dotted, unparse, walk_local
from ..engines import memo, pattern, exchange
from ..engines.linform import canon, rename

MEMO_EXEMPT = {('StarSet', 'generate', 'threshold'): 'only buckets states by |dx|^2; orbit membership is decided by exact PairState equality'}


def _partition_block(fn):
    """the `for xmax in x2_indices:` loop (star partition) of a generator."""
    for n in walk_local(fn):
        if isinstance(n, ast.For) and isinstance(n.target, ast.Name) and isinstance(n.iter, ast.Name):
            src = unparse(n)
            if 'symmstate_list' in src or '.g(self.crys, self.chem' in src:
                return n
    return None


def run(model, rep, tier):
    rep.explanation = __doc__.strip()
    from ._common import caches_for
    caches_for(model, rep, 'C24')
    rep.not_decided = 'that the states generated are exactly those reachable in N jumps; that orbits are complete for every crystal'
    rep.rule('memo-key-complete', 'an early-return guard compares every parameter the skipped body reads')
    rep.rule('sibling-partition', 'the star-partition block is identical in generate / __iadd__ / diffgenerate and spans all of crys.G')
    rep.rule('combines-states', '__iadd__ / diffgenerate combine the states of both operands')
    rep.rule('index-rebuild', 'index and indexdict are rebuilt from the stars alike everywhere')
    rep.rule('cache-key-complete', 'module-level caches are keyed on every parameter the cached value depends on')
    mod = model.mod('crystalStars')
    ci = model.cls('crystalStars', 'StarSet')
    for m in ('generate', '__iadd__', 'diffgenerate', 'loadhdf5', 'stateindex', 'starindex'):
        if m not in ci.methods:
            raise AnalysisError('anchor vanished: StarSet.%s' % m)
    # ---- memo
    ng = 0
    for meth, fn in ci.methods.items():
        if ci.kind(meth) != 'instance':
            continue
        for g in memo.find_guards(fn):
            ng += 1
            used = memo.params_read_after(fn, g)
            for p, node in sorted(used.items()):
                if p in g.compared_params:
                    rep.ob('memo-key-complete', mod, g.node, 'StarSet.%s: guard `%s` compares %s' % (meth, unparse(g.node.test), p), True,
                           engine='memo', qual='StarSet.' + meth)
                elif ('StarSet', meth, p) in MEMO_EXEMPT:
                    rep.note('StarSet.%s: %s exempt from the memo key: %s' % (meth, p, MEMO_EXEMPT[('StarSet', meth, p)]))
                else:
                    rep.ob('memo-key-complete', mod, g.node, 'StarSet.%s: guard `%s` ignores parameter %s' % (meth, unparse(g.node.test), p),
                           False, 'the skipped body depends on %s but the guard returns early whatever its value: generate(N) followed by '
                                  'generate(N, %s=<other>) silently keeps the first result' % (p, p), engine='memo', qual='StarSet.' + meth)
    rep.floor('StarSet memo guards', ng, 1)
    # ---- siblings
    blocks = {}
    for m in ('generate', '__iadd__', 'diffgenerate'):
        b = _partition_block(ci.methods[m])
        if b is None:
            raise AnalysisError('StarSet.%s: star-partition block not found' % m)
        blocks[m] = b
    ref = [canon_stmt(s) for s in _alpha(blocks['generate'].body)]
    for m in ('__iadd__', 'diffgenerate'):
        got = [canon_stmt(s) for s in _alpha(blocks[m].body)]
        ok = got == ref
        rep.ob('sibling-partition', mod, blocks[m], 'StarSet.%s: partition block equals the one in generate (%d statements)' % (m, len(ref)), ok,
               '' if ok else 'the copies differ: %s' % _first_diff(ref, got), engine='siblings', qual='StarSet.' + m)
    for m, b in blocks.items():
        full = pattern.has(b, 'set([_N_x.g(self.crys, self.chem, _N_g) for _N_g in self.crys.G])', 'expr')
        rep.ob('sibling-partition', mod, b, 'StarSet.%s: orbit of a new representative = its images under every g in self.crys.G' % m, full,
               '' if full else 'the orbit is not generated from the whole group: stars are split', engine='siblings', qual='StarSet.' + m)
        mem = pattern.has(b, '_N_x in _N_gs', 'expr') or pattern.has(b, '_N_x not in _N_gs', 'expr')
        rep.ob('sibling-partition', mod, b, 'StarSet.%s: membership in an existing orbit is tested by `state in orbit-set`' % m, mem,
               '' if mem else 'orbit membership test missing', engine='siblings', qual='StarSet.' + m)
    # ---- combines states
    ia = ci.methods['__iadd__']
    ok = False
    for b in pattern.find(ia, 'for _N_s1 in self.states[:_N_n]:\n    _E_body'):
        pass
    outer = [n for n in walk_local(ia) if isinstance(n, ast.For) and unparse(n.iter).startswith('self.states')]
    for o in outer:
        inner = [n for n in o.body if isinstance(n, ast.For)]
        if len(inner) == 1 and unparse(inner[0].iter) == '%s.states' % ia.args.args[1].arg:
            adds = pattern.find(inner[0], '_N_s = _N_a + _N_b', _N_a=unparse(o.target), _N_b=unparse(inner[0].target))
            ok = bool(adds)
    rep.ob('combines-states', mod, ia, 'StarSet.__iadd__: new states = s1 + s2 for s1 in self.states, s2 in other.states', ok,
           '' if ok else 'the sum does not range over all states of the other set (e.g. only its jumps): adding sets of ranges N and M '
                         'does not reach range N+M', engine='flow', qual='StarSet.__iadd__')
    dg = ci.methods['diffgenerate']
    a1, a2 = dg.args.args[1].arg, dg.args.args[2].arg
    ok = False
    for o in [n for n in walk_local(dg) if isinstance(n, ast.For) and unparse(n.iter) == a1 + '.states']:
        inner = [n for n in o.body if isinstance(n, ast.For) and unparse(n.iter) == a2 + '.states']
        if inner:
            ok = bool(pattern.find(inner[0], '_N_s = _N_b ^ _N_a', _N_a=unparse(o.target), _N_b=unparse(inner[0].target)))
    rep.ob('combines-states', mod, dg, 'StarSet.diffgenerate: states = s2 ^ s1 for s1 in S1.states, s2 in S2.states', ok,
           '' if ok else 'the difference set does not contain every endpoint difference (or has the wrong orientation)', engine='flow',
           qual='StarSet.diffgenerate')
    # ---- index rebuild
    tmpl = 'for _N_si, _N_star in enumerate(self.stars):\n    for _N_xi in _N_star:\n        self.index[_N_xi] = _N_si\n        self.indexdict[self.states[_N_xi]] = (_N_xi, _N_si)'
    body2 = '    for _N_xi in self.stars[_N_si]:\n        self.index[_N_xi] = _N_si\n        self.indexdict[self.states[_N_xi]] = (_N_xi, _N_si)'
    alts = [tmpl, 'for _N_si in range(0, len(self.stars)):\n' + body2, 'for _N_si in range(len(self.stars)):\n' + body2]
    for m in ('generate', 'diffgenerate'):
        ok = any(pattern.has(ci.methods[m], t) for t in alts)
        rep.ob('index-rebuild', mod, ci.methods[m], 'StarSet.%s: index[xi] = si ; indexdict[states[xi]] = (xi, si) for every star' % m, ok,
               '' if ok else 'index lookups are not rebuilt from the stars', engine='flow', qual='StarSet.' + m)
    ok = pattern.has(ia, 'for _N_xi in self.stars[_N_si]:\n    self.index[_N_xi] = _N_si\n    self.indexdict[self.states[_N_xi]] = (_N_xi, _N_si)')
    rep.ob('index-rebuild', mod, ia, 'StarSet.__iadd__: new stars are entered in index and indexdict', ok,
           '' if ok else 'new states are missing from the lookups', engine='flow', qual='StarSet.__iadd__')
    ld = ci.methods['loadhdf5']
    ok = pattern.has(ld, 'for _N_xi, _N_si in enumerate(_N_S.index):\n    _N_S.stars[_N_si].append(_N_xi)\n    _N_S.indexdict[_N_S.states[_N_xi]] = (_N_xi, _N_si)')
    rep.ob('index-rebuild', mod, ld, 'StarSet.loadhdf5: stars and indexdict are rebuilt from the stored index', ok,
           '' if ok else 'reloaded lookups are inconsistent with the stars', engine='flow', qual='StarSet.loadhdf5')
    for m, want in (('stateindex', 0), ('starindex', 1)):
        ok = pattern.has(ci.methods[m], 'return self.indexdict[_N_p][%d]' % want)
        rep.ob('index-rebuild', mod, ci.methods[m], 'StarSet.%s returns indexdict[PS][%d]' % (m, want), ok,
               '' if ok else 'lookup returns the wrong component', engine='flow', qual='StarSet.' + m)
    # ---- module-level caches
    caches = memo.module_caches(mod)
    n = 0
    for q, fn in mod.functions.items():
        for node, cache, key_names, key_attrs, deps in memo.cache_store_dependencies(fn, caches):
            n += 1
            missing = sorted(p for p in deps if p not in key_names and not any(a.startswith(p + '.') for a in key_attrs))
            # `self` is covered when the key names the attributes of self the value is computed from
            rep.ob('cache-key-complete', mod, node, '%s: %s[%s] = ...' % (q, cache, unparse(node.targets[0].slice)), not missing,
                   '' if not missing else 'the cached value depends on %s, which the key omits: a later call with a different %s gets a '
                                          'stale entry' % (', '.join(missing), ', '.join(missing)), engine='memo', qual=q)
    rep.ob('cache-key-complete', mod, mod.tree, 'crystalStars.py: %d module-level cache(s) %s, %d store(s)' % (len(caches), sorted(caches), n),
           True, nontrivial=False, engine='memo')
    probe = ast.parse('_c = {}\nclass P:\n def g(self, crys, chem, g):\n  v = crys.f(g, chem, self.i)\n  _c[(g, self.i)] = v\n  return v\n')
    from ..model import attach_parents
    attach_parents(probe)
    hits = memo.cache_store_dependencies(probe.body[1].body[0], {'_c'})
    if len(hits) != 1 or 'chem' not in hits[0][4] or 'chem' in hits[0][2]:
        raise AnalysisError('memo engine self-check failed on the synthetic module cache')


def _alpha(block):
    """copies of the statements with every name *bound inside the block* renamed v0, v1, ... in order of first binding
    (depth-first, source order): sibling copies are compared up to the names of their locals."""
    import copy
    stmts = [_ast_copy(s) for s in block]
    order = {}

    class Bind(ast.NodeVisitor):
        def visit_Name(self, n):
            if isinstance(n.ctx, ast.Store) and n.id not in order:
                order[n.id] = 'v%d' % len(order)

    import re

    class Ren(ast.NodeTransformer):
        def visit_Name(self, n):
            if n.id in order:
                n.id = order[n.id]
            else:
                # a free name of the block that is a local of an inlined helper (suffix __<k> given by the inliner) is compared
                # up to that suffix: the copies were inlined from one helper
                n.id = re.sub(r'__\d+$', '', n.id)
            return n

    for s_ in stmts:
        Bind().visit(s_)
    return [Ren().visit(s_) for s_ in stmts]


def canon_stmt(st):
    return ' ; '.join(exchange.stmt_canon(st))


def _first_diff(a, b):
    for x, y in zip(a, b):
        if x != y:
            return '%s  vs  %s' % (x[:120], y[:120])
    return 'different number of statements (%d vs %d)' % (len(a), len(b))


CS = 'onsager/crystalStars.py'
BREAKERS = [
    (CS, "                        symmstate_list.append(set([x.g(self.crys, self.chem, g) for g in self.crys.G]))\n                self.stars += complist_stars\n                xmin = xmax\n        else:\n            self.stars = [[]]\n        self.Nstars = len(self.stars)\n        # generate index: which star is each state a member of?\n        self.index = np.zeros(self.Nstates, dtype=int)\n        self.indexdict = {}\n        for si, star in enumerate(self.stars):\n            for xi in star:\n                self.index[xi] = si\n                self.indexdict[self.states[xi]] = (xi, si)\n\n    def addhdf5",
     "                        symmstate_list.append(set([x.g(self.crys, self.chem, g) for g in list(self.crys.G)[:1]]))\n                self.stars += complist_stars\n                xmin = xmax\n        else:\n            self.stars = [[]]\n        self.Nstars = len(self.stars)\n        # generate index: which star is each state a member of?\n        self.index = np.zeros(self.Nstates, dtype=int)\n        self.indexdict = {}\n        for si, star in enumerate(self.stars):\n            for xi in star:\n                self.index[xi] = si\n                self.indexdict[self.states[xi]] = (xi, si)\n\n    def addhdf5",
     'sibling-partition'),
    (CS, "            for s2 in other.states:", "            for s2 in other.jumplist:", 'combines-states'),
    (CS, "                    s = s2 ^ s1  # points from", "                    s = s1 ^ s2  # points from", 'combines-states'),
    (CS, "            return self.indexdict[PS][1]", "            return self.indexdict[PS][0]", 'index-rebuild'),
]
NEUTRALS = []
