"""
C06 -- tracer limit: solute identical to host gives exact tracer identities (structural clauses).

Not decided: Lsv = -L0vv, L1vv = 0 and the bounds on Lss (numerical).  Decided for ``maketracerpreene``:
  * the returned keys are parameters of preene2betafree, each key carries the array of the same name;
  * the solute and interaction terms are neutral: prefactors np.ones, energies np.zeros, sized by the site list
    and the thermodynamic stars;
  * every omega1 / omega2 transition state copies the host omega0 data of *its own recorded jump type*: arrays are
    sized by the omega-K network, filled in a loop over the omega-K jump types, prefactor from prefactor and energy
    from energy, indexed by the jump type -- and the omega1 and omega2 blocks never mix.
"""
import ast

from ..model import AnalysisError, dotted, unparse, walk_local
from ..engines import exchange, families
from .C01 import _alloc_family


def run(model, rep, tier):
    rep.explanation = __doc__.strip()
    from ._common import caches_for
    caches_for(model, rep, 'C06')
    from ._common import inverse_map_placed
    inverse_map_placed(model, rep, [('OnsagerCalc', 'VacancyMediated', '__init__', 'invmap')])
    rep.not_decided = 'the tracer identities themselves (Lsv = -L0vv, L1vv = 0, 0 <= Lss <= L0vv)'
    rep.rule('keys-are-parameters', 'returned keys are preene2betafree parameters and carry the array of the same name')
    rep.rule('neutral-solute', 'solute / interaction prefactors are ones, energies zeros, with the documented sizes')
    rep.rule('host-copy', 'omegaK transition data are copied from omega0 by the recorded jump type, pre<-pre, ene<-ene')
    mod = model.mod('OnsagerCalc')
    ci = model.cls('OnsagerCalc', 'VacancyMediated')
    fn = ci.methods.get('maketracerpreene')
    p2b = ci.methods.get('preene2betafree')
    if fn is None or p2b is None:
        raise AnalysisError('anchor vanished: VacancyMediated.maketracerpreene / preene2betafree')
    params = {a.arg for a in p2b.args.args}
    ret = [n for n in walk_local(fn) if isinstance(n, ast.Return) and isinstance(n.value, ast.Dict)]
    if len(ret) != 1:
        raise AnalysisError('maketracerpreene: dictionary return not found')
    # the array behind each key is found by data flow (normal form: an array that is only allocated is already inlined in
    # the dictionary; one that is filled afterwards is a local bound once to its allocation) -- never by the local's name
    allocs = {}
    for n in fn.body:
        if isinstance(n, ast.Assign) and len(n.targets) == 1 and isinstance(n.targets[0], ast.Name) and isinstance(n.value, ast.Call):
            allocs.setdefault(n.targets[0].id, []).append(n)
    origin, local_of, keys = {}, {}, []
    for k, v in zip(ret[0].value.keys, ret[0].value.values):
        kk = k.value if isinstance(k, ast.Constant) else None
        keys.append(kk)
        if isinstance(v, ast.Name) and len(allocs.get(v.id, [])) == 1:
            org = allocs[v.id][0].value
            local_of[kk] = v.id
        elif isinstance(v, ast.Call):
            org = v
        else:
            org = None
        origin[kk] = org
        shared = [k2 for k2 in local_of if k2 != kk and kk in local_of and local_of[k2] == local_of[kk]]
        if kk in params and org is None and not shared:
            rep.undecided("maketracerpreene: the array returned as '%s' (%s) has no single allocation this rule can follow" % (kk, unparse(v)[:40]))
            continue
        ok = kk in params and org is not None and not shared
        rep.ob('keys-are-parameters', mod, v, "maketracerpreene returns {'%s': %s}" % (kk, unparse(v)), ok,
               '' if ok else ('key is not a parameter of preene2betafree' if kk not in params else
                              'key carries the same array as %s' % shared if shared else 'array behind the key has no unique allocation'),
               engine='tables')
    own = {a.arg for a in fn.args.args[1:]}
    need = params - {'kT'} - own - {'preV', 'eneV'}
    ok = set(keys) == need
    rep.ob('keys-are-parameters', mod, ret[0], 'returned keys %s = parameters not supplied by the caller %s' % (sorted(keys), sorted(need)), ok,
           '' if ok else 'missing %s / extra %s' % (sorted(need - set(keys)), sorted(set(keys) - need)), engine='tables')
    # neutral defaults
    want = {'preS': ('ones', 'len(self.sitelist)'), 'eneS': ('zeros', 'len(self.sitelist)'),
            'preSV': ('ones', 'self.thermo.Nstars'), 'eneSV': ('zeros', 'self.thermo.Nstars'),
            'preT1': ('ones', 'len(self.om1_jn)'), 'eneT1': ('zeros', 'len(self.om1_jn)'),
            'preT2': ('ones', 'len(self.om2_jn)'), 'eneT2': ('zeros', 'len(self.om2_jn)')}
    for name, (ctor, size) in want.items():
        n = origin.get(name)
        if n is None:
            if name in keys:
                rep.undecided("maketracerpreene: the default of '%s' was not located" % name)
            continue
        ok = n is not None and (dotted(n.func) or '').split('.')[-1] == ctor and bool(n.args) and unparse(n.args[0]) == size
        rep.ob('neutral-solute', mod, n or fn, "'%s' <- np.%s(%s)" % (name, ctor, size), ok,
               '' if ok else 'default is not the neutral element / has another size: %s' % (unparse(n) if n is not None else 'missing'),
               engine='tables')
    # solute arrays are never written afterwards
    solute_locals = {local_of[k] for k in ('preS', 'eneS', 'preSV', 'eneSV') if k in local_of}
    key_of = {v: k for k, v in local_of.items()}
    for n in walk_local(fn):
        if isinstance(n, (ast.Assign, ast.AugAssign)):
            for t, v in (exchange.split_assign(n) if isinstance(n, ast.Assign) else [(n.target, n.value)]):
                root = t
                while isinstance(root, ast.Subscript):
                    root = root.value
                if isinstance(root, ast.Name) and root.id in solute_locals and (isinstance(t, ast.Subscript) or isinstance(n, ast.AugAssign)):
                    rep.ob('neutral-solute', mod, n, unparse(n), False, 'the neutral solute / interaction data are modified', engine='tables')
    # host copy loops (normal form: ``for j, jt in enumerate(self.omK_jt)``; zip(itertools.count(), ...) is rewritten to it)
    nloops = 0
    filled = set()
    for lp in [x for x in fn.body if isinstance(x, ast.For)]:
        it = unparse(lp.iter)
        fams = {f for k, f in families.TYPES.items() if k in it}
        if len(fams) != 1:
            rep.ob('host-copy', mod, lp, 'loop over %s' % it, False, 'loop does not run over exactly one omega jump-type list', engine='tables')
            continue
        fam = sorted(fams)[0]
        nloops += 1
        # targets: j counts positions, jt is the recorded omega0 type
        tn = [unparse(t) for t in lp.target.elts] if isinstance(lp.target, ast.Tuple) else []
        ok = len(tn) == 2 and isinstance(lp.iter, ast.Call) and unparse(lp.iter.func) == 'enumerate' and len(lp.iter.args) == 1 \
            and not lp.iter.keywords and unparse(lp.iter.args[0]) in families.TYPES
        rep.ob('host-copy', mod, lp, '%s loop: (%s) over %s' % (fam, ', '.join(tn), it), ok,
               '' if ok else 'position index and jump type are not drawn from enumerate(omegaK_jt)', engine='tables')
        if not ok:
            continue
        j, jt = tn
        for st in lp.body:
            for t, v in exchange.split_assign(st):
                root = t.value if isinstance(t, ast.Subscript) else t
                af = _alloc_family(fn, unparse(root))
                key = key_of.get(unparse(root))
                kind_t = key[:3] if key else None
                okc = key is not None and isinstance(t, ast.Subscript) and unparse(t.slice) == j and isinstance(v, ast.Subscript) \
                    and unparse(v.slice) == jt and unparse(v.value) == kind_t + 'T0' and af == fam and key == kind_t + 'T' + fam[-1]
                if okc:
                    filled.add(key)
                rep.ob('host-copy', mod, st, "%s: %s (returned as '%s') <- %s" % (fam, unparse(t), key, unparse(v)), okc,
                       '' if okc else 'transition state %s does not receive the host %sT0 of its own jump type (array family %s, key %s)'
                       % (unparse(t), kind_t, af, key), engine='tables')
    # the vectorised form: the returned array is the host array indexed by the recorded jump types, preT0[om1_jt]
    from ._common import resolve_local
    for k, v in zip(ret[0].value.keys, ret[0].value.values):
        kk = k.value if isinstance(k, ast.Constant) else None
        if kk not in ('preT1', 'eneT1', 'preT2', 'eneT2') or kk in filled:
            continue
        e = resolve_local(fn, v)
        if isinstance(e, ast.Subscript):
            host = unparse(resolve_local(fn, e.value))
            idx = unparse(resolve_local(fn, e.slice))
            fam_ix = {f for t_, f in families.TYPES.items() if t_ in idx}
            host_ok = kk[:3] + 'T0' in host and ('eneT0' if kk[:3] == 'pre' else 'preT0') not in host
            if len(fam_ix) == 1:
                okc = host_ok and sorted(fam_ix)[0][-1] == kk[-1]
                filled.add(kk)
                rep.ob('host-copy', mod, v, "'%s' <- %s[%s]" % (kk, host[:40], idx[:50]), okc,
                       '' if okc else 'transition state data %s are not the host %sT0 indexed by the jump types of their own family' % (kk, kk[:3]),
                       engine='tables')
    missing = {'preT1', 'eneT1', 'preT2', 'eneT2'} - filled
    if missing and nloops < 2:
        rep.undecided('maketracerpreene: how %s are filled from the host data was not located' % sorted(missing))
        return
    rep.ob('host-copy', mod, fn, 'every omega1 / omega2 transition array is filled from the host data: %s' % sorted(filled), not missing,
           '' if not missing else 'never filled from the omega0 data: %s' % sorted(missing), engine='tables')
    rep.floor('host-copy loops', nloops, 2)


OC = 'onsager/OnsagerCalc.py'
BREAKERS = [
    (OC, "        preSV = np.ones(self.thermo.Nstars)\n        eneSV = np.zeros(self.thermo.Nstars)\n        preT1 = np.ones(len(self.om1_jn))\n        eneT1 = np.zeros(len(self.om1_jn))\n        for j, jt in zip(itertools.count(), self.om1_jt): preT1[j], eneT1[j] = preT0[jt], eneT0[jt]",
     "        preSV = np.zeros(self.thermo.Nstars)\n        eneSV = np.zeros(self.thermo.Nstars)\n        preT1 = np.ones(len(self.om1_jn))\n        eneT1 = np.zeros(len(self.om1_jn))\n        for j, jt in zip(itertools.count(), self.om1_jt): preT1[j], eneT1[j] = preT0[jt], eneT0[jt]",
     'neutral-solute'),
    (OC, "for j, jt in zip(itertools.count(), self.om2_jt): preT2[j], eneT2[j] = preT0[jt], eneT0[jt]",
     "for j, jt in zip(itertools.count(), self.om1_jt): preT2[j], eneT2[j] = preT0[jt], eneT0[jt]", 'host-copy'),
    (OC, "for j, jt in zip(itertools.count(), self.om1_jt): preT1[j], eneT1[j] = preT0[jt], eneT0[jt]",
     "for j, jt in zip(itertools.count(), self.om1_jt): preT1[j], eneT1[j] = preT0[j], eneT0[j]", 'host-copy'),
    (OC, "for j, jt in zip(itertools.count(), self.om1_jt): preT1[j], eneT1[j] = preT0[jt], eneT0[jt]",
     "for j, jt in zip(itertools.count(), self.om1_jt): preT1[j], eneT1[j] = eneT0[jt], preT0[jt]", 'host-copy'),
    (OC, "'preT1': preT1, 'eneT1': eneT1, 'preT2': preT2, 'eneT2': eneT2}\n\n    def makeLIMBpreene",
     "'preT1': preT1, 'eneT1': eneT1, 'preT2': preT1, 'eneT2': eneT2}\n\n    def makeLIMBpreene", 'keys-are-parameters'),
]
NEUTRALS = []
