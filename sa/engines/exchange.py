"""
E10 ``exchange`` -- invariance of a code fragment under a renaming sigma (a swap of names /
attribute paths / subscripts).  The fragment is canonicalised (commutative + and *, a-b as a+(-1)b,
tuple assignments split, statement order ignored inside one block) and must equal its image.
"""
import ast

from ..model import unparse
from .linform import canon, rename


def split_assign(st):
    """tuple assignment  a, b = x, y  ->  [(a, x), (b, y)]; plain -> [(t, v)]."""
    out = []
    if isinstance(st, ast.Assign) and len(st.targets) == 1:
        t, v = st.targets[0], st.value
        if isinstance(t, (ast.Tuple, ast.List)) and isinstance(v, (ast.Tuple, ast.List)) and len(t.elts) == len(v.elts):
            return list(zip(t.elts, v.elts))
        return [(t, v)]
    if isinstance(st, ast.Assign):
        return [(t, st.value) for t in st.targets]
    return out


def stmt_canon(st):
    """list of canonical strings for one statement."""
    if isinstance(st, ast.Assign):
        return ['%s := %s' % (canon(t), canon(v)) for t, v in split_assign(st)]
    if isinstance(st, ast.AugAssign):
        return ['%s %s= %s' % (canon(st.target), type(st.op).__name__, canon(st.value))]
    if isinstance(st, ast.Expr):
        return ['expr %s' % canon(st.value)]
    if isinstance(st, ast.For):
        inner = sorted(s for b in st.body for s in stmt_canon(b))
        return ['for %s in %s: {%s}' % (canon(st.target), canon(st.iter), ' ; '.join(inner))]
    if isinstance(st, ast.If):
        inner = sorted(s for b in st.body for s in stmt_canon(b))
        other = sorted(s for b in st.orelse for s in stmt_canon(b))
        return ['if %s: {%s} else {%s}' % (canon(st.test), ' ; '.join(inner), ' ; '.join(other))]
    if isinstance(st, ast.Return):
        return ['return %s' % (canon(st.value) if st.value is not None else '')]
    if isinstance(st, (ast.Pass, ast.Continue, ast.Break)):
        return [type(st).__name__]
    return ['stmt %s' % unparse(st)]


def block_canon(stmts):
    return sorted(s for st in stmts for s in stmt_canon(st))


def symmetric_block(stmts, sigma):
    """(ok, original, image) -- the multiset of canonical statements is invariant under sigma."""
    a = block_canon(stmts)
    b = block_canon([rename(st, sigma) for st in stmts])
    return a == b, a, b


def symmetric_expr(expr, sigma):
    a = canon(expr)
    b = canon(rename(expr, sigma))
    return a == b, a, b


def antisymmetric_pair(expr_a, expr_b, sigma):
    """expr_b is the image of expr_a under sigma (used for two sibling fragments that must mirror)."""
    a = canon(rename(expr_a, sigma))
    b = canon(expr_b)
    return a == b, a, b


def names_in(node):
    return {n.id for n in ast.walk(node) if isinstance(n, ast.Name)}
