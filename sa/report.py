"""Obligation bookkeeping, known findings, evidence files and exit codes."""
import json
import os
import re
import time

VERIF = os.path.dirname(os.path.dirname(os.path.abspath(__file__)))
EVIDENCE_DIR = os.path.join(VERIF, 'evidence')
REPLAY_DIR = os.path.join(EVIDENCE_DIR, 'replay')
KNOWN = os.path.join(VERIF, 'known_findings.json')


def norm_text(s):
    """normalised construct text used in finding keys (whitespace-insensitive)."""
    return re.sub(r'\s+', ' ', s).strip()


class Obligation:
    __slots__ = ('rule', 'file', 'qual', 'line', 'construct', 'ok', 'msg', 'nontrivial', 'engine')

    def __init__(self, rule, file, qual, line, construct, ok, msg, nontrivial, engine):
        self.rule, self.file, self.qual, self.line = rule, file, qual, line
        self.construct, self.ok, self.msg = norm_text(construct), ok, msg
        self.nontrivial, self.engine = nontrivial, engine

    def key(self):
        return '%s|%s::%s|%s' % (self.rule, self.file, self.qual, self.construct)

    def as_dict(self):
        return {'rule': self.rule, 'where': '%s:%s %s' % (self.file, self.line, self.qual),
                'construct': self.construct[:300], 'verdict': 'ok' if self.ok else 'VIOLATION',
                **({'detail': self.msg} if self.msg else {})}


class Report:
    def __init__(self, prop, tier='quick', quiet=False):
        self.prop = prop
        self.tier = tier
        self.quiet = quiet
        self.obs = []
        self.floors = {}
        self.analysed = {}
        self.notes = []
        self.rules = {}
        self.adequacy = None
        self.t0 = time.time()
        self.explanation = ''
        self.assumptions = []
        self.not_decided = ''

    # -- recording ---------------------------------------------------------
    def rule(self, name, text):
        self.rules[name] = text

    def ob(self, rule, module, node, construct, ok, msg='', nontrivial=True, engine='', qual=None):
        """record one evaluated rule instance.  ``module`` is a model.Module, ``node`` an AST
        node (for position and enclosing function) or None."""
        file = module.relpath if module is not None else '-'
        line = getattr(node, 'lineno', 0) if node is not None else 0
        if qual is None:
            qual = module.qualname_of(node) if (module is not None and node is not None) else '-'
        o = Obligation(rule, file, qual, line, construct, bool(ok), msg, nontrivial, engine)
        self.obs.append(o)
        return o

    def floor(self, name, count, expected_min):
        """instance-count floor: on the tree the floors were confirmed on, matching fewer instances than confirmed by hand
        means the analysis lost its anchor -> exit 2, never a silent pass.  On a tree that differs from it the shortfall is
        recorded as *undecided* (the code was restructured: the instances that are still recognised have been judged)."""
        from .model import AnalysisError
        self.floors[name] = {'count': count, 'expected_min': expected_min}
        if count < expected_min:
            msg = 'floor not met: %s matched %d instance(s), expected at least %d' % (name, count, expected_min)
            if getattr(self, 'strict', True):
                raise AnalysisError(msg)
            self.undecided(msg)

    def undecided(self, what):
        if not hasattr(self, 'undecided_list'):
            self.undecided_list = []
        self.undecided_list.append(what)
        if not self.quiet:
            print('UNDECIDED property=%s %s' % (self.prop, what))

    def count(self, name, n):
        self.analysed[name] = self.analysed.get(name, 0) + n

    def note(self, s):
        self.notes.append(s)

    # -- verdict -----------------------------------------------------------
    def violations(self):
        return [o for o in self.obs if not o.ok]

    def finalize(self, write=True):
        known = load_known()
        open_known = {k['key']: k for k in known if k.get('property') == self.prop and k.get('status') == 'open'}
        viol = self.violations()
        new, listed = [], []
        seen = set()
        for o in viol:
            if o.key() in seen:
                continue
            seen.add(o.key())
            (listed if o.key() in open_known else new).append(o)
        out = []
        for o in listed:
            out.append('KNOWN-FINDING: property=%s %s:%s %s [%s] %s -- %s'
                       % (self.prop, o.file, o.line, o.qual, o.rule, o.construct[:160],
                          open_known[o.key()].get('what', o.msg)))
        replay_paths = []
        if new and write:
            os.makedirs(REPLAY_DIR, exist_ok=True)
        for n, o in enumerate(new):
            path = os.path.join(REPLAY_DIR, '%s-%d.json' % (self.prop, n))
            if write:
                with open(path, 'w') as f:
                    json.dump({'property': self.prop, 'key': o.key(), 'rule': o.rule, 'file': o.file,
                               'line': o.line, 'function': o.qual, 'construct': o.construct,
                               'explanation': o.msg, 'rule_text': self.rules.get(o.rule, '')}, f, indent=1)
            replay_paths.append(path)
            out.append('VIOLATION property=%s replay=%s' % (self.prop, path))
            out.append('  %s:%s %s [%s] %s -- %s' % (o.file, o.line, o.qual, o.rule, o.construct[:200], o.msg))
        if not self.quiet:
            for l in out:
                print(l)
        code = 1 if new else 0
        if write:
            self.write_evidence(new, listed)
        if not self.quiet:
            print('%s tier=%s obligations=%d discharged=%d violations=%d known=%d wall=%.2fs'
                  % (self.prop, self.tier, len(self.obs), sum(o.ok for o in self.obs), len(new), len(listed),
                     time.time() - self.t0))
        return code

    def write_evidence(self, new, listed):
        os.makedirs(EVIDENCE_DIR, exist_ok=True)
        obs = self.obs
        distinct = {o.key() for o in obs if o.nontrivial}
        samples = []
        per_rule = {}
        for o in obs:
            per_rule.setdefault(o.rule, []).append(o)
        for r, lst in sorted(per_rule.items()):
            for o in lst[:3]:
                samples.append(o.as_dict())
        for o in new + listed:
            d = o.as_dict()
            if d not in samples:
                samples.append(d)
        ev = {
            'property_id': self.prop,
            'tier': self.tier,
            'seed': int(os.environ.get('VERIF_SEED', '0') or 0),
            'level': 'other',
            'coverage': {
                'explanation': self.explanation,
                'not_decided': self.not_decided,
                'obligations': len(obs),
                'discharged': sum(o.ok for o in obs),
                'evaluations': len(obs),
                'distinct_nontrivial': len(distinct),
                'rule': 'each obligation is one rule instance located by AST shape in the current working '
                        'tree; distinct = distinct (rule, function, normalised construct); non-trivial = the '
                        'construct contains at least one non-constant sub-expression or compares two '
                        'independently written tables',
                'rules': self.rules,
                'per_rule_counts': {r: {'instances': len(l), 'ok': sum(o.ok for o in l)}
                                    for r, l in sorted(per_rule.items())},
                'samples': samples[:60],
                'analysed': self.analysed,
                'tree_form': getattr(self, 'tree_form', 'raw'),
                'floors': self.floors,
                'strict_tree': getattr(self, 'strict', True),
                'undecided': getattr(self, 'undecided_list', []),
                'known_findings': [o.key() for o in listed],
                'notes': self.notes,
                'exhaustive': True,
                'checker_cmd': '/venv/bin/python -m sa.cli check %s --tier %s' % (self.prop, self.tier),
                'trusted_base': ["CPython ast/symtable", "frozen instance tables in sa/props (each with its reason)",
                                 "installed numpy/scipy/h5py/yaml/numba namespaces for external-name resolution"],
            },
            'assumptions': self.assumptions or [
                'decides the structural clause named in explanation, not the numerical behaviour',
                'source is analysed as written: dynamic attribute injection from outside the package is not modelled'],
            'wall_s': round(time.time() - self.t0, 3),
            'violations': len(new),
        }
        if self.adequacy is not None:
            ev['coverage']['adequacy'] = self.adequacy
        with open(os.path.join(EVIDENCE_DIR, '%s.json' % self.prop), 'w') as f:
            json.dump(ev, f, indent=1, sort_keys=False)
            f.write('\n')


def load_known():
    if not os.path.exists(KNOWN):
        return []
    with open(KNOWN) as f:
        data = json.load(f)
    return data.get('findings', [])
