"""
E19 ``cache`` -- discipline of caches kept on objects (and of values kept from one call to the next).

A *cache method* is an instance method that both looks a key up in a container attribute of ``self``
(``self.C.get(k)``, ``k in self.C``, ``self.C[k]`` under ``except KeyError``) and stores into the same attribute (``self.C[k] = v``): the
container is filled lazily while the object is used.  (Tables that one routine builds and another one reads -- index
dictionaries -- are not caches.)  For every cache method:

  key-complete        every parameter the stored value depends on is a parameter the key depends on;
  entry-not-mutated   no in-place write in the method reaches an entry of the cache (a list popped / sorted, an array
                      updated after it was stored, or an entry edited on the hit path);
  entry-not-returned  what a *public* method returns shares no storage with an entry of the cache (directly, or inside a
                      freshly built list / dict / tuple that is returned), unless the entry is an immutable scalar; a private
                      helper hands its result to the class's own methods, which are judged where they return.
A parameter missing from the key is accepted when every hit is validated against it (the entry stores its inputs and the
conditions holding at the hit-return compare them with the current ones).

The cache rules say nothing about code without caches: on a tree that has none, the rules have no instance (the synthetic
positive examples in ``selfcheck`` keep them honest).
"""
import ast

from ..model import unparse, walk_local, dotted, attach_parents
from . import alias

MUTABLE_OK = ('C',)


class CacheMethod:
    def __init__(self, ci, name, fn, attr):
        self.ci, self.name, self.fn, self.attr = ci, name, fn, attr
        self.stores = []   # Assign nodes  self.attr[k] = v
        self.lookups = []  # nodes


def _is_self_attr(n, s):
    return isinstance(n, ast.Attribute) and isinstance(n.value, ast.Name) and n.value.id == s


def find_cache_methods(ci):
    out = []
    for name, fn in ci.methods.items():
        if ci.kind(name) != 'instance' or not fn.args.args or name in ('__init__',):
            continue
        s = fn.args.args[0].arg
        stores, looks = {}, {}
        # locals that are the container itself: c = self.C / getattr(self, 'C', None) / self.__dict__.setdefault('C', {})
        local = {}
        for n in walk_local(fn):
            if isinstance(n, ast.Assign) and isinstance(n.targets[-1], ast.Name):
                v = n.value
                if _is_self_attr(v, s):
                    local[n.targets[-1].id] = v.attr
                elif isinstance(v, ast.Call) and dotted(v.func) == 'getattr' and len(v.args) >= 2 and isinstance(v.args[0], ast.Name) \
                        and v.args[0].id == s and isinstance(v.args[1], ast.Constant):
                    local[n.targets[-1].id] = str(v.args[1].value)
                elif isinstance(v, ast.Call) and isinstance(v.func, ast.Attribute) and v.func.attr in ('setdefault', 'get') and v.args \
                        and isinstance(v.args[0], ast.Constant) and unparse(v.func.value) in ('%s.__dict__' % s, 'vars(%s)' % s):
                    local[n.targets[-1].id] = str(v.args[0].value)
            # c = self.C = {}   (chained)
            if isinstance(n, ast.Assign) and len(n.targets) == 2 and isinstance(n.targets[0], ast.Name) and _is_self_attr(n.targets[1], s):
                local[n.targets[0].id] = n.targets[1].attr

        def attr_of(e):
            if _is_self_attr(e, s):
                return e.attr
            if isinstance(e, ast.Name) and e.id in local:
                return local[e.id]
            return None
        for n in walk_local(fn):
            if isinstance(n, ast.Assign):
                for t in n.targets:
                    if isinstance(t, ast.Subscript) and attr_of(t.value) and not isinstance(t.slice, ast.Slice):
                        stores.setdefault(attr_of(t.value), []).append(n)
            if isinstance(n, ast.Compare) and len(n.ops) == 1 and isinstance(n.ops[0], (ast.In, ast.NotIn)) \
                    and attr_of(n.comparators[0]):
                looks.setdefault(attr_of(n.comparators[0]), []).append(n)
            if isinstance(n, ast.Call) and isinstance(n.func, ast.Attribute) and n.func.attr in ('get', 'setdefault') \
                    and attr_of(n.func.value) and not unparse(n.func.value).endswith('__dict__'):
                looks.setdefault(attr_of(n.func.value), []).append(n)
            if isinstance(n, ast.Try):
                # try: v = self.C[k]  except KeyError: ...   -- the dictionary idiom without a membership test
                if any(h.type is not None and 'KeyError' in unparse(h.type) for h in n.handlers):
                    for x in ast.walk(ast.Module(body=n.body, type_ignores=[])):
                        if isinstance(x, ast.Subscript) and isinstance(x.ctx, ast.Load) and attr_of(x.value):
                            looks.setdefault(attr_of(x.value), []).append(x)
        for a in stores:
            if a not in looks:
                continue
            good = looks[a]
            cm = CacheMethod(ci, name, fn, a)
            cm.stores, cm.lookups = stores[a], good
            out.append(cm)
    return out


def _deps(fn, s):
    """name -> names it is computed from (flow-insensitive, locals only; self attributes as 'self.x')."""
    defs = {}

    def names_of(e):
        out = set()
        # names bound by a comprehension inside e are local to it (their values come from its iterables, which are inside e too)
        bound = {t.id for c in ast.walk(e) if isinstance(c, ast.comprehension) for t in ast.walk(c.target) if isinstance(t, ast.Name)}
        for x in ast.walk(e):
            if isinstance(x, ast.Name) and x.id != s and x.id not in bound:
                out.add(x.id)
            elif _is_self_attr(x, s):
                out.add('self.' + x.attr)
        return out

    for n in walk_local(fn):
        if isinstance(n, (ast.Assign, ast.AugAssign, ast.AnnAssign)) and getattr(n, 'value', None) is not None:
            used = names_of(n.value)
            for t in (n.targets if isinstance(n, ast.Assign) else [n.target]):
                for x in ast.walk(t):
                    if isinstance(x, ast.Name) and isinstance(x.ctx, ast.Store):
                        defs.setdefault(x.id, set()).update(used)
                    elif isinstance(x, ast.Subscript) and isinstance(x.ctx, ast.Store) and isinstance(x.value, ast.Name):
                        defs.setdefault(x.value.id, set()).update(used | names_of(x.slice))
        elif isinstance(n, ast.For):
            used = names_of(n.iter)
            for x in ast.walk(n.target):
                if isinstance(x, ast.Name):
                    defs.setdefault(x.id, set()).update(used)
        elif isinstance(n, ast.Call) and isinstance(n.func, ast.Attribute) and isinstance(n.func.value, ast.Name) \
                and n.func.attr in ('append', 'extend', 'update', 'add', 'insert', 'pop', 'remove', 'sort'):
            used = set()
            for a in n.args:
                used |= names_of(a)
            # a conditional in-place edit depends on what its conditions depend on
            p = getattr(n, '_parent', None)
            while p is not None and p is not fn:
                if isinstance(p, (ast.If, ast.While)):
                    used |= names_of(p.test)
                p = getattr(p, '_parent', None)
            defs.setdefault(n.func.value.id, set()).update(used)
    return defs, names_of


def _closure(defs, names, stop=()):
    seen, todo = set(), list(names)
    while todo:
        x = todo.pop()
        if x in seen or x in stop:
            continue
        seen.add(x)
        todo.extend(defs.get(x, ()))
    return seen


class Finding:
    def __init__(self, rule, node, text, ok, msg=''):
        self.rule, self.node, self.text, self.ok, self.msg = rule, node, text, ok, msg


def check_method(model, cm):
    """yield Findings for one cache method."""
    fn, ci, a = cm.fn, cm.ci, cm.attr
    s = fn.args.args[0].arg
    params = {x.arg for x in fn.args.args[1:] + fn.args.kwonlyargs}
    defs, names_of = _deps(fn, s)
    q = '%s.%s' % (ci.name, cm.name)
    # ---- key completeness
    # parameters that every hit is validated against: names in the conditions holding where a looked-up entry is returned
    # (an entry that stores its own inputs and is only reused after comparing them with the current ones is keyed by them)
    validated = set()
    try:
        from ..props._common import conditions_at
        for r in walk_local(fn):
            if isinstance(r, ast.Return) and r.value is not None and r.lineno < max(st_.lineno for st_ in cm.stores):
                for c in conditions_at(fn, r):
                    validated |= _closure(defs, names_of(ast.parse(c, mode='eval').body)) & params
    except Exception:
        validated = set()
    for st in cm.stores:
        for t in st.targets:
            if not isinstance(t, ast.Subscript):
                continue
            kdeps = _closure(defs, names_of(t.slice)) & params
            vdeps = _closure(defs, names_of(st.value), stop={'self.' + a}) & params
            miss = sorted(vdeps - kdeps - validated)
            yield Finding('cache-key-complete', st, '%s: self.%s[%s] = %s' % (q, a, unparse(t.slice)[:40], unparse(st.value)[:40]), not miss,
                          '' if not miss else 'the stored value depends on %s but the key does not: a later call that differs only in %s '
                          'finds the entry computed for the earlier one' % (', '.join(miss), ', '.join(miss)))
    # ---- aliasing
    an = alias.Analyzer(model, ci.module, ci, {}, depth=0)
    res = an.run(fn)
    etok, atok = 'E:self.' + a, 'A:self.' + a
    first_store = min(st.lineno for st in cm.stores)

    def deep(toks, seen=None):
        seen = seen if seen is not None else set()
        out = set()
        for t in toks:
            if t in seen:
                continue
            seen.add(t)
            out.add(t)
            if t in an.elems:
                out |= deep(an.elems[t], seen)
            if t in an.tuples:
                for p in an.tuples[t]:
                    out |= deep(p, seen)
        return out

    nw = 0
    for w in res.writes:
        if etok in w.tokens:
            nw += 1
            yield Finding('cache-entry-not-mutated', w.node, '%s: %s' % (q, unparse(w.node)[:80]), False,
                          'in-place write to %s, which is an entry of self.%s: what the cache returns for this key '
                          'later is no longer what was computed for it' % (w.name, a))
    if not nw:
        yield Finding('cache-entry-not-mutated', fn, '%s: no in-place write reaches an entry of self.%s' % (q, a), True)
    # values stored that are immutable scalars need no protection
    scalar_only = True
    for st in cm.stores:
        v = st.value
        if not (isinstance(v, ast.Constant) or (isinstance(v, ast.Call) and (dotted(v.func) or '') in ('float', 'int', 'str', 'bool', 'len', 'hash'))):
            scalar_only = False
    nr = 0
    private = cm.name.startswith('_') and not cm.name.startswith('__')
    for ret, toks, elts in ([] if private else res.returns):
        for e, t in zip(elts, toks):
            d = deep(t)
            if (etok in d or atok in d) and not scalar_only:
                nr += 1
                yield Finding('cache-entry-not-returned', ret, '%s returns %s' % (q, unparse(e)[:60]), False,
                              'the returned object is (or contains) an entry of self.%s: a caller that edits what it was given changes '
                              'what later calls get' % a)
    if not nr:
        yield Finding('cache-entry-not-returned', fn, '%s: nothing returned shares storage with self.%s' % (q, a), True)


def selfcheck():
    """synthetic positive examples: each rule must fire on them."""
    src = (
        'class X:\n'
        ' def net(self, chem, cutoff, closest):\n'
        '  lis = self._c.get((chem, cutoff))\n'
        '  if lis is None:\n'
        '   lis = [[(chem, cutoff)]]\n'
        '   self._c[(chem, cutoff)] = lis\n'
        '  for i in range(len(lis) - 1, -1, -1):\n'
        '   if closest > 0: lis.pop(i)\n'
        '  return lis\n'
        ' def val(self, a, b):\n'
        '  if a not in self._v:\n'
        '   self._v[a] = [a, b]\n'
        '  return {"r": self._v[a]}\n')
    src += (
        ' def defects(self):\n'
        '  d = getattr(self, "_d", None)\n'
        '  if d is not None: return d\n'
        '  d = {c: i for i, c in enumerate(self.occ)}\n'
        '  self._d = d\n'
        '  return d\n'
        ' def setocc(self, i, c):\n'
        '  self.occ[i] = c\n'
        '  self._d = None\n'
        ' def permute(self, p):\n'
        '  self.occ = self.occ[p]\n')
    tree = attach_parents(ast.parse(src))

    class _CI:
        name = 'X'
        module = None

        def __init__(self, node):
            self.methods = {f.name: f for f in node.body}

        def kind(self, n):
            return 'instance'
    ci = _CI(tree.body[0])
    cms = find_cache_methods(ci)
    got = {}
    for cm in cms:
        for f in check_method(None, cm):
            if not f.ok:
                got.setdefault(cm.name, set()).add(f.rule)
    class _M:
        def find_method(self, c, n):
            return c, c.methods.get(n)
    mas = find_memo_attrs(_M(), ci)
    inv = {f.text.split(' writes')[0]: f.ok for ma in mas for f in check_invalidation(_M(), ci, ma)}
    if [m.attr for m in mas] != ['_d'] or inv != {'X.setocc': True, 'X.permute': False}:
        return False, {'memo': [m.attr for m in mas], 'inv': inv}
    return got == {'net': {'cache-entry-not-mutated', 'cache-entry-not-returned', 'cache-key-complete'},
                   'val': {'cache-key-complete', 'cache-entry-not-returned'}}, got


# ---------------------------------------------------------------- memoised derived attributes and their invalidation
def attr_writes(fn, s):
    """attributes of ``self`` that ``fn`` writes in any way: rebinding, item / slice store, augmented assignment, in-place
    container methods, setattr(self, ...)."""
    out = {}
    for n in walk_local(fn):
        if _is_self_attr(n, s) and isinstance(n.ctx, ast.Store):
            out.setdefault(n.attr, n)
        elif isinstance(n, ast.Subscript) and isinstance(n.ctx, ast.Store):
            b = n.value
            while isinstance(b, ast.Subscript):
                b = b.value
            if _is_self_attr(b, s):
                out.setdefault(b.attr, n)
        elif isinstance(n, ast.AugAssign):
            b = n.target
            while isinstance(b, ast.Subscript):
                b = b.value
            if _is_self_attr(b, s):
                out.setdefault(b.attr, n)
        elif isinstance(n, ast.Call) and isinstance(n.func, ast.Attribute) and n.func.attr in alias.INPLACE_METHODS:
            b = n.func.value
            while isinstance(b, ast.Subscript):
                b = b.value
            if _is_self_attr(b, s):
                out.setdefault(b.attr, n)
        elif isinstance(n, ast.Call) and dotted(n.func) == 'setattr' and len(n.args) >= 2 and isinstance(n.args[0], ast.Name) \
                and n.args[0].id == s and isinstance(n.args[1], ast.Constant):
            out.setdefault(str(n.args[1].value), n)
    return out


def attr_reads(fn, s):
    out = set()
    for n in walk_local(fn):
        if _is_self_attr(n, s) and isinstance(n.ctx, ast.Load):
            out.add(n.attr)
        if isinstance(n, ast.Call) and dotted(n.func) == 'getattr' and len(n.args) >= 2 and isinstance(n.args[0], ast.Name) \
                and n.args[0].id == s and isinstance(n.args[1], ast.Constant):
            out.add(str(n.args[1].value))
    return out


def _state_attr_of_test(fn, test, s):
    """the attribute M when ``test`` asks whether a remembered value exists: ``self.M is not None``, ``self.M``,
    ``hasattr(self, 'M')``, ``getattr(self, 'M', None) is not None`` -- directly or through a local bound once to it."""
    def resolve(e):
        if isinstance(e, ast.Name):
            defs = [a for a in walk_local(fn) if isinstance(a, ast.Assign) and len(a.targets) == 1 and isinstance(a.targets[0], ast.Name)
                    and a.targets[0].id == e.id and a.lineno < test.lineno]
            if len(defs) == 1:
                return defs[0].value
        return e

    def attr_of(e):
        e = resolve(e)
        if _is_self_attr(e, s):
            return e.attr
        if isinstance(e, ast.Call) and dotted(e.func) in ('getattr', 'hasattr') and len(e.args) >= 2 and isinstance(e.args[0], ast.Name) \
                and e.args[0].id == s and isinstance(e.args[1], ast.Constant):
            return str(e.args[1].value)
        return None
    t = test
    if isinstance(t, ast.Compare) and len(t.ops) == 1 and isinstance(t.ops[0], (ast.IsNot, ast.NotEq)) \
            and isinstance(t.comparators[0], ast.Constant) and t.comparators[0].value is None:
        return attr_of(t.left)
    if isinstance(t, (ast.Name, ast.Attribute, ast.Call)):
        return attr_of(t)
    return None


class MemoAttr:
    def __init__(self, ci, meth, fn, attr, guard):
        self.ci, self.meth, self.fn, self.attr, self.guard = ci, meth, fn, attr, guard
        self.sources = set()


def find_memo_attrs(model, ci):
    """attributes that a method computes once and hands back on later calls:  ``if <self.M exists>: return ...`` early in the
    method, ``self.M = <value>`` later in it.  ``sources`` = the other attributes of self the method (and the methods it
    calls on self) reads: what the remembered value was computed from."""
    from . import parity
    out = []
    for name, fn in ci.methods.items():
        if ci.kind(name) != 'instance' or not fn.args.args or name == '__init__':
            continue
        s = fn.args.args[0].arg
        for st in fn.body:
            if not (isinstance(st, ast.If) and not st.orelse and st.body and isinstance(st.body[-1], ast.Return)):
                continue
            m = _state_attr_of_test(fn, st.test, s)
            if m is None:
                continue
            later = [a for a in walk_local(fn) if _is_self_attr(a, s) and isinstance(a.ctx, ast.Store) and a.attr == m and a.lineno > st.lineno]
            if not later:
                continue
            ma = MemoAttr(ci, name, fn, m, st)
            for callee in parity.ctor_path(model, ci, name):
                o, f2 = model.find_method(ci, callee)
                if f2 is not None and f2.args.args:
                    ma.sources |= attr_reads(f2, f2.args.args[0].arg)
            ma.sources.discard(m)
            out.append(ma)
        # lazy initialisation: ``if <self.M is missing>: self.M = <value built from other attributes>`` anywhere in the method
        for st in walk_local(fn):
            if not isinstance(st, ast.If):
                continue
            t = st.test
            neg = None
            if isinstance(t, ast.UnaryOp) and isinstance(t.op, ast.Not):
                neg = _state_attr_of_test(fn, t.operand, s)
            elif isinstance(t, ast.Compare) and len(t.ops) == 1 and isinstance(t.ops[0], (ast.Is, ast.Eq)) \
                    and isinstance(t.comparators[0], ast.Constant) and t.comparators[0].value is None:
                neg = _state_attr_of_test(fn, ast.Compare(left=t.left, ops=[ast.IsNot()], comparators=t.comparators, lineno=t.lineno,
                                                          col_offset=t.col_offset), s)
            if neg is None:
                continue
            stores = [a for b in st.body for a in ast.walk(b) if _is_self_attr(a, s) and isinstance(a.ctx, ast.Store) and a.attr == neg]
            if not stores or any(ma.attr == neg and ma.meth == name for ma in out):
                continue
            ma = MemoAttr(ci, name, fn, neg, st)
            # sources: attributes of self read by the guarded block (and by the methods it calls on self)
            for b in st.body:
                for a in ast.walk(b):
                    if _is_self_attr(a, s) and isinstance(a.ctx, ast.Load):
                        ma.sources.add(a.attr)
                    if isinstance(a, ast.Call) and isinstance(a.func, ast.Attribute) and isinstance(a.func.value, ast.Name) and a.func.value.id == s:
                        for callee in parity.ctor_path(model, ci, a.func.attr):
                            o, f2 = model.find_method(ci, callee)
                            if f2 is not None and f2.args.args:
                                ma.sources |= attr_reads(f2, f2.args.args[0].arg)
            ma.sources.discard(neg)
            ma.sources -= set(ci.methods)
            if ma.sources:
                out.append(ma)
    return out


def check_invalidation(model, ci, ma):
    """every method (other than the constructor and the memoising method) that writes a source of the remembered value also
    resets / rewrites the remembered value -- itself or through a method it calls on self."""
    from . import parity
    for name, fn in ci.methods.items():
        if ci.kind(name) != 'instance' or not fn.args.args or name in ('__init__', ma.meth):
            continue
        s = fn.args.args[0].arg
        w = attr_writes(fn, s)
        touched = sorted(a for a in w if a in ma.sources)
        if not touched:
            continue
        resets = False
        for callee in parity.ctor_path(model, ci, name):
            o, f2 = model.find_method(ci, callee)
            if f2 is not None and f2.args.args and callee != ma.meth and ma.attr in attr_writes(f2, f2.args.args[0].arg):
                resets = True
        yield Finding('memo-invalidated-by-writers', w[touched[0]],
                      '%s.%s writes %s, from which %s.%s computes the remembered self.%s' % (ci.name, name, ', '.join(touched), ci.name, ma.meth, ma.attr),
                      resets, '' if resets else 'self.%s is not reset here: after this call %s.%s still returns the value computed before the change'
                      % (ma.attr, ci.name, ma.meth))


def cache_as_memo(model, cm):
    """a cache container seen as a remembered value: its entries were computed from the attributes of self that the caching
    method (and the methods it calls on self) reads; a later writer of one of those has to empty the container."""
    from . import parity
    ma = MemoAttr(cm.ci, cm.name, cm.fn, cm.attr, None)
    s = cm.fn.args.args[0].arg
    defs, names_of = _deps(cm.fn, s)
    for st in cm.stores:
        v = getattr(st, 'value', None)
        if v is None:
            continue
        for nm in _closure(defs, names_of(v)):
            if nm.startswith('self.'):
                a = nm[5:]
                if a in cm.ci.methods:
                    for callee in parity.ctor_path(model, cm.ci, a):
                        o, f2 = model.find_method(cm.ci, callee)
                        if f2 is not None and f2.args.args:
                            ma.sources |= attr_reads(f2, f2.args.args[0].arg)
                else:
                    ma.sources.add(a)
    ma.sources.discard(cm.attr)
    ma.sources -= set(cm.ci.methods)
    # attributes the caching method itself (re)writes are its own bookkeeping (stamps, scratch), not sources
    ma.sources -= set(attr_writes(cm.fn, cm.fn.args.args[0].arg))
    return ma


# ---------------------------------------------------------------- module-level caches
def module_cache_names(module):
    """names bound at module level to an (initially empty) mapping: {}, dict(), OrderedDict(), defaultdict(..),
    weakref.WeakKeyDictionary() / WeakValueDictionary()."""
    out = set()
    for st in module.tree.body:
        if isinstance(st, ast.Assign) and len(st.targets) == 1 and isinstance(st.targets[0], ast.Name):
            v = st.value
            if isinstance(v, ast.Dict) and not v.keys:
                out.add(st.targets[0].id)
            elif isinstance(v, ast.Call) and (dotted(v.func) or '').split('.')[-1] in (
                    'dict', 'OrderedDict', 'defaultdict', 'WeakKeyDictionary', 'WeakValueDictionary') and not v.keywords \
                    and all(isinstance(a, (ast.Name, ast.Attribute)) for a in v.args):
                out.add(st.targets[0].id)
    return out


def check_module_caches(module):
    """for every function of the module that stores into a module-level mapping (directly, or into a per-key sub-mapping
    reached through ``sub = CACHE.setdefault(k1, {})`` / ``CACHE[k1]`` / ``CACHE.get(k1)``): the stored value may depend
    only on parameters that the key(s) depend on (or that every hit is validated against).  Yields Findings."""
    caches = module_cache_names(module)
    if not caches:
        return
    for q, fn in module.functions.items():
        params = {a.arg for a in fn.args.args + fn.args.kwonlyargs} - {'self', 'cls'}
        sub = {}     # local alias -> (cache, outer key expr or None)
        for n in walk_local(fn):
            if isinstance(n, ast.Assign) and len(n.targets) == 1 and isinstance(n.targets[0], ast.Name):
                v = n.value
                if isinstance(v, ast.Name) and v.id in caches:
                    sub[n.targets[0].id] = (v.id, None)
                elif isinstance(v, ast.Subscript) and isinstance(v.value, ast.Name) and v.value.id in caches:
                    sub[n.targets[0].id] = (v.value.id, v.slice)
                elif isinstance(v, ast.Call) and isinstance(v.func, ast.Attribute) and v.func.attr in ('setdefault', 'get') \
                        and isinstance(v.func.value, ast.Name) and v.func.value.id in caches and v.args:
                    sub[n.targets[0].id] = (v.func.value.id, v.args[0])
        stores = []
        for n in walk_local(fn):
            if isinstance(n, ast.Assign):
                for t in n.targets:
                    if isinstance(t, ast.Subscript) and isinstance(t.value, ast.Name) and not isinstance(t.slice, ast.Slice):
                        if t.value.id in caches:
                            stores.append((n, t.value.id, [t.slice]))
                        elif t.value.id in sub:
                            c, k1 = sub[t.value.id]
                            stores.append((n, c, [k for k in (k1, t.slice) if k is not None]))
        if not stores:
            continue
        defs, names_of = _deps(fn, '\0')
        validated = set()
        try:
            from ..props._common import conditions_at
            last = max(st.lineno for st, _, _ in stores)
            for r in walk_local(fn):
                if isinstance(r, ast.Return) and r.value is not None and r.lineno < last:
                    for c in conditions_at(fn, r):
                        validated |= _closure(defs, names_of(ast.parse(c, mode='eval').body), stop=set(caches) | set(sub)) & params
        except Exception:
            validated = set()
        for st, cname, keys in stores:
            if isinstance(st.value, ast.Dict) and not st.value.keys:
                continue     # creating the per-key sub-mapping
            kdeps = set()
            for k in keys:
                kdeps |= _closure(defs, names_of(k)) & params
            vdeps = _closure(defs, names_of(st.value), stop=set(caches) | set(sub)) & params
            miss = sorted(vdeps - kdeps - validated)
            yield q, Finding('cache-key-complete', st, '%s: %s[%s] = %s' % (q, cname, ', '.join(unparse(k)[:30] for k in keys), unparse(st.value)[:40]),
                             not miss, '' if not miss else 'the value kept in the module-level cache depends on %s but its key does not: a later '
                             'call that differs only in %s gets what was computed for the earlier one' % (', '.join(miss), ', '.join(miss)))
