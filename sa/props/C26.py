"""
C26 -- solute-vacancy jump networks classify every transition exactly once (structural clauses).

Not decided: "exactly once" (a search over states).  Decided:
  * reversal pairing: symmequivjumplist adds each image jump together with its reverse (sites swapped, -dx), the first
    jump included, under the `initial != final` guards;
  * displacement provenance: an omega1 jump's displacement is the difference of the final and initial vacancy vectors,
    an omega2 (exchange) jump's displacement is minus the initial solute-vacancy vector;
  * omega1 / omega2 builders append jump list, jump type and star pair in lock-step, the star pair being
    (index[initial], index[final]);
  * the outer-shell set used for pruning is defined by *membership* of the kinetic star's representative in the
    thermodynamic set (not by position in a sorted list);
  * the omega1 pruning predicate is a conjunction over both members of the star pair (a jump is dropped only if it
    neither starts nor ends in the thermodynamic range) and is exchange-symmetric; the three parallel lists are popped
    with the same index in one statement group while iterating backwards.
"""
import ast

from ..model import AnalysisError, dotted, unparse, walk_local
from ..engines import pattern, flow, exchange
from ..engines.linform import swap_sigma


def run(model, rep, tier):
    rep.explanation = __doc__.strip()
    from ._common import caches_for
    caches_for(model, rep, 'C26')
    rep.not_decided = 'that every transition appears in exactly one class (search); closure of each class under the space group'
    rep.rule('reversal-pairing', 'each jump added to a symmetry class is added with its reverse and negated displacement')
    rep.rule('displacement-provenance', 'dx of a jump is the vacancy displacement derived from the two pair states')
    rep.rule('lock-step', 'parallel lists (network, jump type, star pair) are appended / popped together')
    rep.rule('outer-shell-by-membership', 'outerkin = kinetic stars whose representative is not a thermodynamic state')
    rep.rule('pruning-predicate', 'a jump class is dropped only if both its stars lie outside the thermodynamic range')
    # the networks are rebuilt from the current star set on every generate(): nothing indexed into kinetic.states survives
    from ._common import memoryless_setters
    memoryless_setters(model, rep, [('OnsagerCalc', 'VacancyMediated', 'generate')])
    mod = model.mod('crystalStars')
    ci = model.cls('crystalStars', 'StarSet')
    sj = ci.methods.get('symmequivjumplist')
    if sj is None:
        raise AnalysisError('anchor vanished: StarSet.symmequivjumplist')
    i_, f_, dx_ = [a.arg for a in sj.args.args[1:4]]
    init = pattern.find(sj, '_N_l = [((_N_i, _N_f), _N_dx)]', _N_i=i_, _N_f=f_, _N_dx=dx_)
    ok = bool(init) and pattern.has(sj, 'if _N_i != _N_f:\n    _N_l.append(((_N_f, _N_i), -_N_dx))', _N_l=init[0]['_N_l'] if init else 'x',
                                    _N_i=i_, _N_f=f_, _N_dx=dx_)
    rep.ob('reversal-pairing', mod, sj, 'symmequivjumplist: [((i, f), dx)] and, if i != f, ((f, i), -dx)', ok,
           '' if ok else 'the seed jump is not paired with its reverse', engine='owner', qual='StarSet.symmequivjumplist')
    n = 0
    for b in pattern.find(sj, '_N_l.append(((_N_gi, _N_gf), _N_gdx))'):
        if b['_N_gi'] == f_:
            continue
        n += 1
        blk = getattr(b['_node'], '_parent', None)
        ok = pattern.has(blk, 'if _N_gi != _N_gf:\n    _N_l.append(((_N_gf, _N_gi), -_N_gdx))', **{k: v for k, v in b.items() if k.startswith('_N_')})
        rep.ob('reversal-pairing', mod, b['_node'], 'symmequivjumplist: image ((gi, gf), gdx) and, if gi != gf, ((gf, gi), -gdx)', ok,
               '' if ok else 'an image jump is added without its reverse (or with the displacement not negated)', engine='owner',
               qual='StarSet.symmequivjumplist')
    rep.floor('image appends in symmequivjumplist', n, 1)
    # images come from every group operation, both states and the direction transformed by the same g
    # locate: a loop that runs over the operations of the space group (directly, or zipped with per-operation data built from it)
    from ._common import resolve_local

    def over_group(it):
        r = unparse(resolve_local(sj, it))
        return 'self.crys.G' in r
    lp = [x for x in walk_local(sj) if isinstance(x, ast.For) and over_group(x.iter)]
    if not lp:
        rep.undecided('symmequivjumplist: loop over the space-group operations not located')
    else:
        names = [n.id for n in ast.walk(lp[0].target) if isinstance(n, ast.Name)]
        apps = pattern.find(lp[0], '_N_l.append(((_N_gi, _N_gf), _N_gdx))')
        ok = False
        why = 'no image is appended inside the loop over the group'
        for b in apps:
            img = resolve_local(sj, b['_node'].value.args[0], depth=1)
            txt = unparse(img)
            # verify: the direction is rotated by the loop's own operation, and the two states are images of two different states
            g_used = [g for g in names if ('self.crys.g_direc(%s, %s)' % (g, dx_)) in txt]
            states = [c for c in ast.walk(img) if isinstance(c, ast.Call) and unparse(c.func) == 'self.stateindex' and len(c.args) == 1]
            if not g_used:
                why = 'the displacement of an image is not the displacement rotated by the operation of the loop'
                continue
            if len(states) == 2:
                a0, a1 = unparse(states[0].args[0]), unparse(states[1].args[0])
                direct = [a for a in (a0, a1) if '.g(self.crys, self.chem, ' in a]
                if a0 == a1 or any(('.g(self.crys, self.chem, %s)' % g_used[0]) not in a for a in direct):
                    why = 'initial and final image are not the images of the two end states under the operation of the loop'
                    continue
            ok = True
        rep.ob('reversal-pairing', mod, lp[0], 'symmequivjumplist: images of (initial, final, dx) under every g of crys.G', ok,
               '' if ok else 'class is not closed under the space group: ' + why, engine='flow', qual='StarSet.symmequivjumplist')
    # ---- builders
    want_dx = {'jumpnetwork_omega1': '_N_dx = _N_PSf.dx - _N_PSi.dx', 'jumpnetwork_omega2': '_N_dx = -_N_PSi.dx'}
    for m, tmpl in want_dx.items():
        fn = ci.methods.get(m)
        if fn is None:
            raise AnalysisError('anchor vanished: StarSet.%s' % m)
        add = pattern.find(fn, '_N_PSf = _N_PSi + _N_jump')
        ok = False
        if add:
            ps_i, ps_f = add[0]['_N_PSi'], add[0]['_N_PSf']
            fixed = {'_N_PSi': ps_i}
            if m.endswith('1'):
                fixed['_N_PSf'] = ps_f
            ok = bool(pattern.find(fn, tmpl, **fixed))
        rep.ob('displacement-provenance', mod, fn, 'StarSet.%s: %s' % (m, tmpl.replace('_N_', '')), ok,
               '' if ok else 'the jump displacement is not the vacancy displacement between the two states', engine='flow',
               qual='StarSet.' + m)
        # lock-step appends in one block
        apps = [c for c in walk_local(fn) if isinstance(c, ast.Expr) and isinstance(c.value, ast.Call)
                and isinstance(c.value.func, ast.Attribute) and c.value.func.attr == 'append']
        blocks = {id(getattr(c, '_parent', None)) for c in apps}
        names = [unparse(c.value.func.value) for c in apps]
        ret = [r for r in walk_local(fn) if isinstance(r, ast.Return) and isinstance(r.value, ast.Tuple)]
        rn = [unparse(e) for e in ret[0].value.elts] if ret else []
        ok = len(apps) == 3 and len(blocks) == 1 and names == rn
        rep.ob('lock-step', mod, fn, 'StarSet.%s appends %s in one block and returns %s' % (m, names, rn), ok,
               '' if ok else 'the three parallel lists can get out of step', engine='owner', qual='StarSet.' + m)
        sp = pattern.find(fn, '_N_sp.append((self.index[_N_i], self.index[_N_f]))')
        # the jump that is classified: the arguments of the symmequivjumplist call (appended directly or through a local)
        se = [c for c in walk_local(fn) if isinstance(c, ast.Call) and unparse(c.func) == 'self.symmequivjumplist' and len(c.args) == 3]
        if sp and len(se) == 1:
            ok = sp[0]['_N_i'] == unparse(se[0].args[0]) and sp[0]['_N_f'] == unparse(se[0].args[1])
            rep.ob('lock-step', mod, fn, 'StarSet.%s: star pair = (index[i], index[f]) of the jump (i, f) just classified' % m, ok,
                   '' if ok else 'star pair does not belong to the jump', engine='owner', qual='StarSet.' + m)
        else:
            rep.undecided('StarSet.%s: star-pair append / symmequivjumplist call not located' % m)
        jt = pattern.find(fn, 'for _N_jt, _N_ji in enumerate(self.jumpnetwork_index):\n    _E_b')
        jt = [x for x in walk_local(fn) if isinstance(x, ast.For) and unparse(x.iter) == 'enumerate(self.jumpnetwork_index)']
        ok = bool(jt) and pattern.has(fn, '_N_l.append(_N_jt)', _N_jt=unparse(jt[0].target.elts[0]))
        rep.ob('lock-step', mod, fn, 'StarSet.%s: recorded jump type = index of the omega0 class the jump came from' % m, ok,
               '' if ok else 'jump type is not the enumerating index of jumpnetwork_index', engine='owner', qual='StarSet.' + m)
    prune_rules(model, rep)



CS, OC = 'onsager/crystalStars.py', 'onsager/OnsagerCalc.py'

def prune_rules(model, rep):
    """outer shell by membership, omega1 pruning predicate, lock-step pops (shared with C07)."""
    # ---- VacancyMediated.generate
    oc = model.mod('OnsagerCalc')
    vm = model.cls('OnsagerCalc', 'VacancyMediated')
    gen = vm.methods.get('generate')
    if gen is None:
        raise AnalysisError('anchor vanished: VacancyMediated.generate')
    from ._common import resolve_local
    ok = alt = False
    oks = [a for a in walk_local(gen) if isinstance(a, ast.Assign) and unparse(a.targets[0]) == 'self.outerkin']
    if len(oks) != 1:
        raise AnalysisError('VacancyMediated.generate: assignment of self.outerkin not found')
    val = resolve_local(gen, oks[0].value)     # shortcuts (thermo = self.thermo, kinrep = [...]) written out
    ok = pattern.has(val, '[_N_s for _N_s in range(self.kinetic.Nstars) '
                          'if self.thermo.stateindex(self.kinetic.states[self.kinetic.stars[_N_s][0]]) is None]', 'expr') or \
        pattern.has(val, '[_N_s for _N_s in range(self.kinetic.Nstars) '
                         'if self.thermo.stateindex([self.kinetic.states[_N_t[0]] for _N_t in self.kinetic.stars][_N_s]) is None]', 'expr')
    alt = pattern.has(val, '[_N_s for _N_s in range(self.kinetic.Nstars) '
                           'if self.kinetic.states[self.kinetic.stars[_N_s][0]] not in self.thermo]', 'expr')
    rep.ob('outer-shell-by-membership', oc, gen, 'outerkin = [s for s in range(kinetic.Nstars) if representative state not in thermo]',
           ok or alt, '' if ok or alt else 'the outer shell is not decided by membership of each kinetic star in the thermodynamic set '
                                           '(e.g. by position in the distance-sorted list): jumps touching the thermodynamic range are '
                                           'pruned when stars interleave', engine='flow', qual='VacancyMediated.generate')
    prune = [x for x in walk_local(gen) if isinstance(x, ast.For) and 'self.om1_SP' in unparse(x.iter)]
    if len(prune) != 1:
        raise AnalysisError('VacancyMediated.generate: pruning loop not found')
    pl = prune[0]
    tn = [unparse(t) for t in pl.target.elts] if isinstance(pl.target, ast.Tuple) else []
    ifs = [x for x in pl.body if isinstance(x, ast.If)]
    if len(ifs) != 1 or len(tn) != 2:
        raise AnalysisError('VacancyMediated.generate: pruning test not found')
    i_, sp_ = tn
    test = ifs[0].test
    conj = isinstance(test, ast.BoolOp) and isinstance(test.op, ast.And) and len(test.values) == 2
    sym, a, b = exchange.symmetric_expr(test, swap_sigma([('%s[0]' % sp_, '%s[1]' % sp_)]))
    both = conj and sorted(unparse(v) for v in test.values) == sorted(['%s[0] in self.outerkin' % sp_, '%s[1] in self.outerkin' % sp_])
    rep.ob('pruning-predicate', oc, ifs[0], 'pruning test `%s`' % unparse(test), both and sym,
           '' if both and sym else 'a jump class that starts or ends in the thermodynamic range can be removed (the test must require BOTH '
                                   'stars to be outer, symmetrically)', engine='exchange', qual='VacancyMediated.generate')
    pops = [c for c in ast.walk(ifs[0]) if isinstance(c, ast.Call) and isinstance(c.func, ast.Attribute) and c.func.attr == 'pop']
    lists = sorted(unparse(c.func.value) for c in pops)
    idx = {unparse(c.args[0]) for c in pops if c.args}
    ok = lists == ['self.om1_SP', 'self.om1_jn', 'self.om1_jt'] and idx == {i_}
    rep.ob('lock-step', oc, ifs[0], 'pruning pops %s with index %s' % (lists, sorted(idx)), ok,
           '' if ok else 'the three omega1 lists are not popped together with the same index', engine='owner',
           qual='VacancyMediated.generate')
    it = unparse(pl.iter)
    ok = it == 'zip(reversed(range(len(self.om1_SP))), reversed(self.om1_SP))'
    rep.ob('lock-step', oc, pl, 'pruning iterates %s' % it, ok or 'reversed(' in it,
           '' if ok or 'reversed(' in it else 'popping while iterating forwards skips the class after each removed one', engine='flow',
           qual='VacancyMediated.generate')
    # the three lists come from one call each
    for k in ('1', '2'):
        ok = pattern.has(gen, 'self.om%s_jn, self.om%s_jt, self.om%s_SP = self.kinetic.jumpnetwork_omega%s()' % (k, k, k, k))
        rep.ob('lock-step', oc, gen, 'om%s_jn, om%s_jt, om%s_SP bound from kinetic.jumpnetwork_omega%s()' % (k, k, k, k), ok,
               '' if ok else 'the lists are bound out of order', engine='tables', qual='VacancyMediated.generate')

BREAKERS = [
    (OC, "        self.om2_jn, self.om2_jt, self.om2_SP = self.kinetic.jumpnetwork_omega2()", "        if not hasattr(self, 'om2_jn'):\n            self.om2_jn, self.om2_jt, self.om2_SP = self.kinetic.jumpnetwork_omega2()", 'state-reuse-keyed'),
    (CS, "                if gi != gf: symmjumplist.append(((gf, gi), -gdx))", "                if gi != gf: symmjumplist.append(((gf, gi), gdx))", 'reversal-pairing'),
    (CS, "        if i != f: symmjumplist.append(((f, i), -dx))", "        pass", 'reversal-pairing'),
    (CS, "                    dx = PSf.dx - PSi.dx", "                    dx = PSf.dx", 'displacement-provenance'),
    (CS, "                    dx = -PSi.dx  # the vacancy jumps into the solute position (exchange)", "                    dx = -2 * PSi.dx  # exchange", 'displacement-provenance'),
    (OC, "            if SP[0] in self.outerkin and SP[1] in self.outerkin:", "            if SP[0] in self.outerkin or SP[1] in self.outerkin:", 'pruning-predicate'),
    (OC, "                self.om1_jn.pop(i), self.om1_jt.pop(i), self.om1_SP.pop(i)", "                self.om1_jn.pop(i), self.om1_SP.pop(i)", 'lock-step'),
    (OC, "        self.outerkin = [s for s in range(self.kinetic.Nstars)\n                         if self.thermo.stateindex(self.kinetic.states[self.kinetic.stars[s][0]]) is None]",
     "        Norigin = min(self.thermo2kin)\n        self.outerkin = list(range(Norigin)) + list(range(Norigin + self.thermo.Nstars, self.kinetic.Nstars))", 'outer-shell-by-membership'),
    (CS, "                    starpair.append((self.index[i], self.index[f]))\n        return jumpnetwork, jumptype, starpair\n\n    def jumpnetwork_omega2",
     "                    starpair.append((self.index[f], self.index[f]))\n        return jumpnetwork, jumptype, starpair\n\n    def jumpnetwork_omega2", 'lock-step'),
]
NEUTRALS = [
    (OC, "            if SP[0] in self.outerkin and SP[1] in self.outerkin:", "            if SP[1] in self.outerkin and SP[0] in self.outerkin:"),
]
