"""
E4 ``parity`` -- writer/reader and constructor/loader agreement.
"""
import ast
from ..model import ast_copy as _ast_copy

from ..model import AnalysisError, dotted, unparse, walk_local


def _targets(n):
    ts = []
    if isinstance(n, ast.Assign):
        for t in n.targets:
            ts.extend(t.elts if isinstance(t, (ast.Tuple, ast.List)) else [t])
    elif isinstance(n, (ast.AugAssign, ast.AnnAssign)):
        ts = [n.target]
    return ts


def class_tuple(model, ci, name):
    """literal tuple/list of constants assigned at class level (searching the MRO)."""
    for c in model.mro(ci):
        v = c.class_assigns.get(name)
        if isinstance(v, (ast.Tuple, ast.List)):
            return [e.value for e in v.elts if isinstance(e, ast.Constant)]
    return None


def attrs_assigned_on(model, ci, fn, obj):
    """{attr: node} assigned on the local object ``obj`` inside ``fn`` (setattr loops over a class tuple
    are expanded)."""
    out = {}
    for n in walk_local(fn):
        for t in _targets(n):
            if isinstance(t, ast.Attribute) and isinstance(t.value, ast.Name) and t.value.id == obj:
                out.setdefault(t.attr, n)
        if isinstance(n, ast.Call) and dotted(n.func) == 'setattr' and len(n.args) >= 2 \
                and isinstance(n.args[0], ast.Name) and n.args[0].id == obj:
            a = n.args[1]
            if isinstance(a, ast.Constant):
                out.setdefault(a.value, n)
            elif isinstance(a, ast.Name):
                lp = n
                while lp is not None and not (isinstance(lp, ast.For) and isinstance(lp.target, ast.Name)
                                              and lp.target.id == a.id):
                    lp = getattr(lp, '_parent', None)
                if lp is not None:
                    d = dotted(lp.iter) or ''
                    tup = class_tuple(model, ci, d.split('.')[-1]) if d else None
                    if tup is None:
                        raise AnalysisError('setattr loop over %s cannot be expanded' % unparse(lp.iter))
                    for x in tup:
                        out.setdefault(x, n)
    return out


def self_calls(fn, selfname='self'):
    """names of methods called as self.m(...) in fn."""
    out = set()
    for n in walk_local(fn):
        if isinstance(n, ast.Call) and isinstance(n.func, ast.Attribute) and isinstance(n.func.value, ast.Name) \
                and n.func.value.id == selfname:
            out.add(n.func.attr)
    return out


def ctor_path(model, ci, start='__init__'):
    """methods reachable from ``start`` through self.m() calls (names)."""
    seen, todo = set(), [start]
    while todo:
        m = todo.pop()
        if m in seen:
            continue
        owner, fn = model.find_method(ci, m)
        if fn is None:
            continue
        seen.add(m)
        todo.extend(self_calls(fn, fn.args.args[0].arg if fn.args.args else 'self'))
    return seen


def assigned_on_self(model, ci, methods):
    out = {}
    for m in methods:
        owner, fn = model.find_method(ci, m)
        if fn is None or not fn.args.args:
            continue
        s = fn.args.args[0].arg
        for a, n in attrs_assigned_on(model, ci, fn, s).items():
            out.setdefault(a, (m, n))
    return out


def self_reads(fn):
    """{attr: node} read as self.X (Load) in fn, excluding reads protected by getattr(self,'X',d) /
    hasattr(self,'X') (those tolerate absence)."""
    if not fn.args.args:
        return {}
    s = fn.args.args[0].arg
    out = {}
    for n in ast.walk(fn):
        if isinstance(n, ast.Attribute) and isinstance(n.value, ast.Name) and n.value.id == s \
                and isinstance(n.ctx, ast.Load):
            par = getattr(n, '_parent', None)
            if isinstance(par, ast.Call) and par.func is n:
                continue  # method call, not a data attribute read
            out.setdefault(n.attr, n)
    return out


# ---------------------------------------------------------------- HDF5 keys
def _fold(expr, env):
    """partial evaluation of a key expression to a str when possible, else canonical text."""
    if isinstance(expr, ast.Constant) and isinstance(expr.value, str):
        return expr.value
    if isinstance(expr, ast.Name) and expr.id in env:
        return env[expr.id]
    if isinstance(expr, ast.BinOp) and isinstance(expr.op, ast.Add):
        a, b = _fold(expr.left, env), _fold(expr.right, env)
        if a is not None and b is not None:
            return a + b
    return None


def hdf5_keys(model, ci, fn, group, mode):
    """keys of HDF5 group variable ``group`` that ``fn`` writes (mode 'w') or reads (mode 'r').
    returns {key_text: node}; symbolic keys are kept as '<pattern: text>'.  Also handles
    create_group(k), `k in group`, group.attrs[k]."""
    out = {}
    local_env = {}
    # single-assignment string locals (TaylorTag = 'T3D' if ... else 'T2D' stays symbolic)
    for n in walk_local(fn):
        if isinstance(n, ast.Assign) and len(n.targets) == 1 and isinstance(n.targets[0], ast.Name) \
                and isinstance(n.value, ast.Constant) and isinstance(n.value.value, str):
            local_env[n.targets[0].id] = n.value.value

    def envs_for(node):
        """list of environments: expansion of enclosing `for v in <class tuple>` loops."""
        envs = [dict(local_env)]
        lp = getattr(node, '_parent', None)
        while lp is not None and lp is not fn:
            if isinstance(lp, ast.For) and isinstance(lp.target, ast.Name):
                d = dotted(lp.iter) or ''
                tup = class_tuple(model, ci, d.split('.')[-1]) if d and d.split('.')[0] in ('self', 'cls') else None
                if tup is not None:
                    envs = [dict(e, **{lp.target.id: x}) for e in envs for x in tup]
            lp = getattr(lp, '_parent', None)
        return envs

    def iterates_group(kexpr, node):
        # `for k, c in group.items(): group[k]` reads whatever exists: no key obligation
        if not isinstance(kexpr, ast.Name):
            return False
        lp = getattr(node, '_parent', None)
        while lp is not None and lp is not fn:
            if isinstance(lp, ast.For) and kexpr.id in [x.id for x in ast.walk(lp.target) if isinstance(x, ast.Name)]:
                it = lp.iter
                if isinstance(it, ast.Call) and isinstance(it.func, ast.Attribute) and it.func.attr in ('items', 'keys') \
                        and isinstance(it.func.value, ast.Name) and it.func.value.id == group:
                    return True
                if isinstance(it, ast.Name) and it.id == group:
                    return True
            lp = getattr(lp, '_parent', None)
        return False

    # symbolic keys are compared by what they compute, not by how the local holding them is called: a local bound once is
    # replaced by its definition and loop / comprehension variables are anonymised
    single = {}
    loopvars = set()
    for n in walk_local(fn):
        if isinstance(n, ast.Assign) and len(n.targets) == 1 and isinstance(n.targets[0], ast.Name):
            single.setdefault(n.targets[0].id, []).append(n.value)
        if isinstance(n, (ast.For, ast.comprehension)):
            loopvars |= {x.id for x in ast.walk(n.target) if isinstance(x, ast.Name)}
    single = {k: v[0] for k, v in single.items() if len(v) == 1 and k not in loopvars and k not in local_env}

    def _derived(e, depth=0):
        """the definition depends on a loop variable (a per-item key such as ``tag + 'jump-{}'.format(i)``); a local that
        only names a parameter of the format (``TaylorTag = 'T3D' if ... else 'T2D'``) stays symbolic on both sides"""
        for x in ast.walk(e):
            if isinstance(x, ast.Name) and (x.id in loopvars or (x.id in single and depth < 4 and _derived(single[x.id], depth + 1))):
                return True
        return False

    class _Canon(ast.NodeTransformer):
        def __init__(self, depth=0):
            self.depth = depth

        def visit_Name(self, n):
            if n.id in loopvars:
                return ast.copy_location(ast.Name(id='_', ctx=ast.Load()), n)
            if n.id in single and self.depth < 4 and _derived(single[n.id]):
                import copy
                return _Canon(self.depth + 1).visit(_ast_copy(single[n.id]))
            return n

    def pattern_text(kexpr):
        import copy
        return unparse(_Canon().visit(_ast_copy(kexpr)))

    def record(kexpr, node, prefix=''):
        if iterates_group(kexpr, node) or (isinstance(kexpr, ast.Name) and prefix == 'dataset-attr:' and False):
            return
        for env in envs_for(node):
            k = _fold(kexpr, env)
            if k is None:
                k = '<pattern: %s>' % pattern_text(kexpr)
            out.setdefault(prefix + k, node)

    for n in walk_local(fn):
        if isinstance(n, ast.Subscript):
            base = n.value
            is_attrs = isinstance(base, ast.Attribute) and base.attr == 'attrs'
            root = base.value if is_attrs else base
            # group['k'].attrs['n'] -> root is a Subscript of group: treat as dataset attribute
            ds_attr = is_attrs and isinstance(root, ast.Subscript) and isinstance(root.value, ast.Name) \
                and root.value.id == group
            if ds_attr:
                if (mode == 'w') == isinstance(n.ctx, ast.Store):
                    record(n.slice, n, prefix='dataset-attr:')
                continue
            if isinstance(root, ast.Name) and root.id == group and isinstance(getattr(n, '_parent', None), ast.Attribute) \
                    and n._parent.attr == 'attrs':
                continue  # group[k] used only to reach its .attrs
            if isinstance(root, ast.Name) and root.id == group:
                is_store = isinstance(n.ctx, ast.Store)
                if (mode == 'w') == is_store:
                    # a load of group[k] inside the writer used only to reach .attrs is not a data read
                    record(n.slice, n, prefix='attr:' if is_attrs else '')
        if isinstance(n, ast.Call) and isinstance(n.func, ast.Attribute) and isinstance(n.func.value, ast.Name) \
                and n.func.value.id == group and n.func.attr in ('create_group', 'create_dataset', 'require_group') \
                and n.args and mode == 'w':
            record(n.args[0], n)
        if isinstance(n, ast.Compare) and len(n.ops) == 1 and isinstance(n.ops[0], (ast.In, ast.NotIn)) \
                and isinstance(n.comparators[0], ast.Name) and n.comparators[0].id == group and mode == 'r':
            record(n.left, n)
    return out


# ---------------------------------------------------------------- dependence parity between constructor and loader
class _DepGraph:
    """flow-insensitive "is computed from" graph over names of several functions: 'self.x' attributes of the object,
    '<fn>:name' locals, 'P:<param>' constructor parameters, 'K:<key>' stored keys."""

    def __init__(self):
        self.defs = {}

    def add(self, tgt, srcs):
        self.defs.setdefault(tgt, set()).update(s for s in srcs if s != tgt)

    def closure(self, names, leaf=('P:', 'K:')):
        seen, todo, out = set(), list(names), set()
        while todo:
            x = todo.pop()
            if x in seen:
                continue
            seen.add(x)
            if x.startswith(leaf):
                out.add(x)
                if x.startswith('K:'):
                    todo.extend(self.defs.get(x, ()))
                continue
            todo.extend(self.defs.get(x, ()))
        return out


def _dep_names(e, fnkey, obj, params, expand=None):
    """names an expression is computed from: obj.x -> 'self.x', other locals -> '<fn>:name', parameters -> as bound."""
    out = set()
    for x in ast.walk(e):
        if isinstance(x, ast.Attribute) and isinstance(x.value, ast.Name) and x.value.id == obj:
            out.add('self.' + x.attr)
        elif isinstance(x, ast.Call) and dotted(x.func) == 'getattr' and len(x.args) >= 2 and isinstance(x.args[0], ast.Name) \
                and x.args[0].id == obj:
            if isinstance(x.args[1], ast.Constant):
                out.add('self.' + str(x.args[1].value))
            elif expand is not None and isinstance(x.args[1], ast.Name) and x.args[1].id in expand:
                out.add('self.' + expand[x.args[1].id])
        elif isinstance(x, ast.Name) and x.id != obj and isinstance(x.ctx, ast.Load):
            if expand is not None and x.id in expand:
                continue
            out.add(params.get(x.id, '%s:%s' % (fnkey, x.id)))
    return out


def _fill_graph(model, ci, g, fn, fnkey, obj, params, group=None, mode=None):
    """add the assignments of ``fn`` to ``g``.  ``group``: name of the HDF5 group variable (writer: keys become targets,
    'w'; loader: key reads become sources 'K:<key>', 'r').  setattr / getattr loops over class tuples are expanded."""
    def loop_expansions(node):
        envs = [{}]
        lp = getattr(node, '_parent', None)
        while lp is not None and lp is not fn:
            if isinstance(lp, ast.For) and isinstance(lp.target, ast.Name):
                d = dotted(lp.iter) or ''
                tup = class_tuple(model, ci, d.split('.')[-1]) if d and d.split('.')[0] in ('self', 'cls', obj) else None
                if tup is not None:
                    envs = [dict(e, **{lp.target.id: x}) for e in envs for x in tup]
            lp = getattr(lp, '_parent', None)
        return envs

    def key_text(k, env):
        return _fold(k, env) or unparse(k)

    def sources(e, env):
        out = _dep_names(e, fnkey, obj, params, expand=env)
        if group is not None and mode == 'r':
            for x in ast.walk(e):
                if isinstance(x, ast.Subscript) and isinstance(x.value, ast.Name) and x.value.id == group:
                    out.add('K:' + key_text(x.slice, env))
                elif isinstance(x, ast.Subscript) and isinstance(x.value, ast.Attribute) and x.value.attr == 'attrs' \
                        and isinstance(x.value.value, ast.Name) and x.value.value.id == group:
                    out.add('K:attr:' + key_text(x.slice, env))
            out.discard('%s:%s' % (fnkey, group))
        return out

    def targets(t, env):
        out = []
        for x in ([t] if not isinstance(t, (ast.Tuple, ast.List)) else t.elts):
            if isinstance(x, (ast.Tuple, ast.List)):
                out += targets(x, env)
                continue
            base = x
            if isinstance(base, ast.Subscript) and isinstance(base.value, ast.Attribute) and base.value.attr == 'attrs' \
                    and isinstance(base.value.value, ast.Name) and base.value.value.id == group:
                if mode == 'w':
                    out.append('K:attr:' + key_text(base.slice, env))
                continue
            while isinstance(base, ast.Subscript) and not (isinstance(base.value, ast.Name) and base.value.id == group):
                base = base.value
            if isinstance(base, ast.Subscript):      # group[key] = ...
                if mode == 'w':
                    out.append('K:' + key_text(base.slice, env))
            elif isinstance(base, ast.Attribute) and isinstance(base.value, ast.Name) and base.value.id == obj:
                out.append('self.' + base.attr)
            elif isinstance(base, ast.Name):
                out.append(params.get(base.id, '%s:%s' % (fnkey, base.id)))
        return out

    for n in walk_local(fn):
        for env in loop_expansions(n):
            if isinstance(n, (ast.Assign, ast.AugAssign, ast.AnnAssign)) and getattr(n, 'value', None) is not None:
                src = sources(n.value, env)
                tg = n.targets if isinstance(n, ast.Assign) else [n.target]
                for t in tg:
                    extra = set()
                    for x in ast.walk(t):
                        if isinstance(x, ast.Subscript) and not (isinstance(x.value, ast.Name) and x.value.id == group):
                            extra |= sources(x.slice, env)
                    for name in targets(t, env):
                        g.add(name, src | extra)
            elif isinstance(n, (ast.For, ast.comprehension)):
                src = sources(n.iter, env)
                for x in ast.walk(n.target):
                    if isinstance(x, ast.Name):
                        g.add(params.get(x.id, '%s:%s' % (fnkey, x.id)), src)
            elif isinstance(n, ast.Call):
                d = dotted(n.func) or ''
                if d == 'setattr' and len(n.args) == 3 and isinstance(n.args[0], ast.Name) and n.args[0].id == obj:
                    a = n.args[1]
                    name = a.value if isinstance(a, ast.Constant) else env.get(a.id) if isinstance(a, ast.Name) else None
                    if name is not None:
                        g.add('self.' + str(name), sources(n.args[2], env))
                elif isinstance(n.func, ast.Attribute) and isinstance(getattr(n, '_parent', None), ast.Expr):
                    # in-place update through a method call: receiver <- arguments ; sub-object writer: key <- receiver
                    recv = n.func.value
                    args = set()
                    for a in list(n.args) + [k.value for k in n.keywords]:
                        args |= sources(a, env)
                    cg = [c for a in n.args for c in ast.walk(a) if isinstance(c, ast.Call) and isinstance(c.func, ast.Attribute)
                          and c.func.attr in ('create_group', 'require_group') and isinstance(c.func.value, ast.Name) and c.func.value.id == group]
                    if cg and mode == 'w':
                        g.add('K:' + key_text(cg[0].args[0], env), sources(recv, env))
                        continue
                    base = recv
                    while isinstance(base, ast.Subscript):
                        base = base.value
                    if isinstance(base, ast.Attribute) and isinstance(base.value, ast.Name) and base.value.id == obj:
                        g.add('self.' + base.attr, args)
                    elif isinstance(base, ast.Name) and base.id != group:
                        g.add(params.get(base.id, '%s:%s' % (fnkey, base.id)), args)
                if group is not None and mode == 'w' and isinstance(n.func, ast.Attribute) and n.func.attr in ('create_dataset',) \
                        and isinstance(n.func.value, ast.Name) and n.func.value.id == group and n.args:
                    src = set()
                    for a in n.args[1:] + [k.value for k in n.keywords]:
                        src |= sources(a, env)
                    g.add('K:' + key_text(n.args[0], env), src)


def dependence_parity(model, ci, ctor='__init__', writer='addhdf5', loader='loadhdf5', alias=None):
    """For every attribute that both the constructor path and the loader assign: the constructor parameters it depends on
    (through locals, other attributes, methods called on self during construction) must all be parameters its reloaded
    value depends on (through the stored keys, each of which carries the dependencies of what the writer stored under
    it).  Returns [(attr, sorted(missing), loader node, sorted(ctor deps), sorted(loader deps))]; a reloaded attribute
    that has *lost* a dependency cannot equal the original for every constructor argument."""
    o_init, init = model.find_method(ci, ctor)
    o_w, wr = model.find_method(ci, writer)
    o_l, ld = model.find_method(ci, loader)
    if init is None or wr is None or ld is None:
        raise AnalysisError('%s: constructor / writer / loader not all found' % ci.name)
    g = _DepGraph()
    # constructor path
    todo, seen = [(ctor, {a.arg: 'P:' + a.arg for a in init.args.args[1:] + init.args.kwonlyargs})], set()
    while todo:
        m, params = todo.pop()
        if m in seen:
            continue
        seen.add(m)
        owner, fn = model.find_method(ci, m)
        if fn is None or not fn.args.args:
            continue
        s = fn.args.args[0].arg
        _fill_graph(model, ci, g, fn, m, s, params)
        for c in walk_local(fn):
            if isinstance(c, ast.Call) and isinstance(c.func, ast.Attribute) and isinstance(c.func.value, ast.Name) and c.func.value.id == s:
                o2, f2 = model.find_method(ci, c.func.attr)
                if f2 is None or not f2.args.args:
                    continue
                p2 = {}
                names = [a.arg for a in f2.args.args[1:]]
                for nm, a in list(zip(names, c.args)) + [(k.arg, k.value) for k in c.keywords if k.arg]:
                    key = '%s:%s' % (c.func.attr, nm)
                    p2[nm] = key
                    g.add(key, _dep_names(a, m, s, params))
                for nm in names + [a.arg for a in f2.args.kwonlyargs]:
                    p2.setdefault(nm, '%s:%s' % (c.func.attr, nm))
                todo.append((c.func.attr, p2))
                # the value returned by self.m(...) depends on what m returns
                par = getattr(c, '_parent', None)
                for r in walk_local(f2):
                    if isinstance(r, ast.Return) and r.value is not None:
                        g.add('%s:<return>' % c.func.attr, _dep_names(r.value, c.func.attr, f2.args.args[0].arg, p2))
                if isinstance(par, ast.Assign):
                    for t in par.targets:
                        for x in ast.walk(t):
                            if isinstance(x, ast.Attribute) and isinstance(x.value, ast.Name) and x.value.id == s and isinstance(x.ctx, ast.Store):
                                g.add('self.' + x.attr, {'%s:<return>' % c.func.attr})
                            elif isinstance(x, ast.Name) and isinstance(x.ctx, ast.Store):
                                g.add(params.get(x.id, '%s:%s' % (m, x.id)), {'%s:<return>' % c.func.attr})
    ctor_attrs = {k[5:] for k in g.defs if k.startswith('self.')}
    # writer: keys <- attributes
    ws = wr.args.args[0].arg
    wgroup = wr.args.args[1].arg if len(wr.args.args) > 1 else None
    _fill_graph(model, ci, g, wr, writer, ws, {}, group=wgroup, mode='w')
    # loader: a separate graph whose key leaves are resolved through the writer
    lg = _DepGraph()
    largs = [a.arg for a in ld.args.args]
    lgroup = next((a for a in largs if 'HDF5' in a or 'group' in a.lower()), largs[-1])
    lparams = {a: 'P:' + (alias or {}).get(a, a) for a in largs[1:] if a != lgroup}
    obj = None
    for n in ld.body:
        if isinstance(n, ast.Assign) and isinstance(n.targets[0], ast.Name) and isinstance(n.value, ast.Call) \
                and (unparse(n.value.func) in ('cls', 'cls.__new__', ci.name, 'object.__new__')):
            obj = n.targets[0].id
            break
    if obj is None:
        raise AnalysisError('%s.%s: the object under construction was not found' % (ci.name, loader))
    _fill_graph(model, ci, lg, ld, loader, obj, lparams, group=lgroup, mode='r')
    out = []
    assigned = attrs_assigned_on(model, ci, ld, obj)
    for a, node in sorted(assigned.items(), key=lambda kv: kv[0]):
        if a not in ctor_attrs:
            continue
        dc = {x[2:] for x in g.closure({'self.' + a}) if x.startswith('P:')}
        leaves = lg.closure({'self.' + a})
        dl = {x[2:] for x in leaves if x.startswith('P:')}
        for k in [x for x in leaves if x.startswith('K:')]:
            dl |= {x[2:] for x in g.closure({k}) if x.startswith('P:')}
        out.append((a, sorted(dc - dl), node, sorted(dc), sorted(dl)))
    return out
