"""
C28 -- supercell occupancy bookkeeping stays consistent over any edit history (structural clauses).

Decides:
  * bounds: the species guard of ``Supercell.setocc`` admits exactly [-1, extent-1] where -1 is the
    vacancy sentinel used by the initial fill and ``extent`` is the expression that sizes
    ``chemorder`` (compared as linear forms, ``self.Nchem`` unfolded through ``__init__`` per branch);
    ``definesolute`` admits exactly the solute indices below that extent;
  * owner: ``occ`` / ``chemorder`` of a Supercell are written only in __init__, setocc, __imul__,
    reorder, copy -- everything else (fillperiodic, POSCAR_occ, __setitem__, the calculators'
    makesupercells, bin scripts) must go through setocc;
  * pairing: in setocc the occupancy store is accompanied by the removal from the old species'
    list (guarded by old >= 0) and the append to the new one (guarded by new >= 0); __imul__ permutes
    occ and chemorder with the same map in the same direction; reorder restores on failure;
  * parity: every attribute derived after the ``empty`` return of __init__ is listed in
    __copyattr__ or __eqattr__ (disjoint), and every attribute mutated in place anywhere in the
    class is in __copyattr__ (deep-copied);
  * flow: POSCAR_occ empties the cell (when asked) before reading any entry.
Not decided: textual POSCAR round trip, geometric correctness of index().
"""
import ast

from ..model import AnalysisError, dotted, unparse, walk_local
from ..engines import owner, bounds
from ..engines.linform import linform, lin_sub, lin_str, const_value

OWNERS = {'__init__': 'initial empty fill', 'setocc': 'the single edit primitive',
          '__imul__': 'applies a site permutation to both', 'reorder': 'permutes chemorder, restores on failure',
          'copy': 'deep copy through __copyattr__'}
FIELDS = {'occ', 'chemorder'}
# classes that have an attribute called ``occ`` of their own (their methods' self.occ is not a Supercell's)
OTHER_OCC_CLASSES = {('cluster', 'MonteCarloSampler'), ('cluster', 'MonteCarloSampler_jit')}


def run(model, rep, tier):
    rep.explanation = __doc__.strip()
    from ._common import caches_for
    caches_for(model, rep, 'C28')
    rep.not_decided = 'POSCAR text round trip; geometric correctness of index(); symmetry of gengroup'
    rep.rule('guard-lower-is-sentinel', 'lowest species index accepted by setocc equals the vacancy sentinel of the initial fill')
    rep.rule('guard-upper-is-extent', 'highest species index accepted by setocc equals (extent of chemorder) - 1 for every '
                                     'value of the constructor parameters')
    rep.rule('solute-range', 'definesolute accepts exactly [crys.Nchem, extent-1]')
    rep.rule('sole-writers', 'occ / chemorder of a Supercell are written only by the owner routines')
    rep.rule('paired-update', 'every occupancy store in an owner carries the matching chemorder update')
    rep.rule('copy-parity', '__copyattr__ U __eqattr__ = derived attributes; in-place-mutated attributes are deep-copied')
    rep.rule('empty-before-read', 'POSCAR_occ empties the cell before the first entry is placed')
    mod = model.mod('supercell')
    ci = model.cls('supercell', 'Supercell')
    for m in ('__init__', 'setocc', '__imul__', 'reorder', 'copy', 'fillperiodic', 'POSCAR_occ', 'definesolute'):
        if m not in ci.methods:
            raise AnalysisError('anchor vanished: Supercell.%s' % m)
    _bounds(model, rep, mod, ci)
    _owner(model, rep, mod, ci, tier)
    _pairing(model, rep, mod, ci)
    _copy(model, rep, mod, ci)
    _poscar(model, rep, mod, ci)


# ---------------------------------------------------------------- bounds
def _bounds(model, rep, mod, ci):
    init, setocc = ci.methods['__init__'], ci.methods['setocc']
    params = [a.arg for a in setocc.args.args]
    if len(params) < 3:
        raise AnalysisError('Supercell.setocc: unexpected signature')
    var = params[2]
    # sentinel from the initial fill:  self.occ = <k> * np.ones(...)
    sentinel = None
    for n in walk_local(init):
        if isinstance(n, ast.Assign):
            ts = n.targets[0].elts if isinstance(n.targets[0], ast.Tuple) else [n.targets[0]]
            vs = n.value.elts if isinstance(n.value, ast.Tuple) and isinstance(n.targets[0], ast.Tuple) else [n.value]
            for t, v in zip(ts, vs):
                if unparse(t) == 'self.occ' and isinstance(v, ast.BinOp) and isinstance(v.op, ast.Mult):
                    for side, oth in ((v.left, v.right), (v.right, v.left)):
                        k = const_value(side)
                        if k is not None and isinstance(oth, ast.Call) and (dotted(oth.func) or '').endswith('ones'):
                            sentinel = k
    if sentinel is None:
        raise AnalysisError('Supercell.__init__: initial fill of occ (k * np.ones) not recognised')
    # extent of chemorder: [[] for n in range(E)]
    extent = None
    for n in walk_local(init):
        if isinstance(n, ast.Assign) and unparse(n.targets[0]) == 'self.chemorder' and isinstance(n.value, ast.ListComp):
            it = n.value.generators[0].iter
            if isinstance(it, ast.Call) and dotted(it.func) == 'range' and len(it.args) == 1:
                extent = it.args[0]
    if extent is None:
        raise AnalysisError('Supercell.__init__: sizing of chemorder not recognised')
    guards = bounds.raising_guards(setocc, var)
    if len(guards) != 1:
        raise AnalysisError('Supercell.setocc: expected exactly one raising guard on %s, found %d' % (var, len(guards)))
    g = guards[0]
    iv = bounds.accepted_interval(g.test, var)
    if iv is None or iv[0] is None or iv[1] is None:
        raise AnalysisError('Supercell.setocc: guard shape not recognised: %s' % unparse(g.test))
    lo, hi = iv
    # the guard must precede every state write
    first_write = min([w[0].lineno for w in owner.attr_writes(setocc, FIELDS)] or [10 ** 9])
    rep.ob('guard-lower-is-sentinel', mod, g, 'if %s: raise   (before first state write)' % unparse(g.test),
           g.lineno < first_write, '' if g.lineno < first_write else 'state is written before the range check',
           engine='bounds')
    d = lin_sub(lo, {'': sentinel})
    rep.ob('guard-lower-is-sentinel', mod, g, 'accepts %s >= %s ; sentinel %s' % (var, lin_str(lo), sentinel), not d,
           '' if not d else 'species index %s is accepted although only %s denotes a vacancy: the object becomes '
                            'inconsistent (__sane__ False)' % (lin_str(lo), sentinel), engine='bounds')
    _upper(rep, mod, init, g, var, hi, extent, 'guard-upper-is-extent',
           'setocc accepts %s <= %s ; chemorder has %s entries' % (var, lin_str(hi), unparse(extent)))
    # definesolute: raise if c < crys.Nchem or c >= Nchem
    ds = ci.methods['definesolute']
    dvar = ds.args.args[1].arg
    dg = bounds.raising_guards(ds, dvar)
    if len(dg) == 1:
        div = bounds.accepted_interval(dg[0].test, dvar)
        if div and div[0] is not None and div[1] is not None:
            dlo = lin_sub(div[0], linform(ast.parse('self.crys.Nchem', mode='eval').body))
            rep.ob('solute-range', mod, dg[0], 'definesolute accepts %s >= %s' % (dvar, lin_str(div[0])), not dlo,
                   '' if not dlo else 'lowest definable solute index is not crys.Nchem', engine='bounds')
            _upper(rep, mod, init, dg[0], dvar, div[1], extent, 'solute-range',
                   'definesolute accepts %s <= %s' % (dvar, lin_str(div[1])))
        else:
            raise AnalysisError('Supercell.definesolute: guard shape not recognised')
    else:
        raise AnalysisError('Supercell.definesolute: expected one raising guard')


def _upper(rep, mod, init, g, var, hi, extent, rule, text):
    ext = linform(extent)
    want = dict(ext)
    want[''] = want.get('', 0) - 1
    if want[''] == 0:
        del want['']
    d = lin_sub(hi, want)
    if not d:
        rep.ob(rule, mod, g, text, True, engine='bounds')
        return
    # lengths of lists the constructor builds over a range:  len(self.X)  with  self.X = [... for n in range(E)]  is E
    for k in sorted(set(hi) | set(want)):
        if k.startswith('len(self.') and k.endswith(')') and k.count('(') == 1:
            defs = [n for n in walk_local(init) if isinstance(n, ast.Assign) and len(n.targets) == 1 and unparse(n.targets[0]) == k[4:-1]]
            if len(defs) == 1 and isinstance(defs[0].value, ast.ListComp) and len(defs[0].value.generators) == 1 \
                    and not defs[0].value.generators[0].ifs and isinstance(defs[0].value.generators[0].iter, ast.Call) \
                    and unparse(defs[0].value.generators[0].iter.func) == 'range' and len(defs[0].value.generators[0].iter.args) == 1:
                lf = linform(defs[0].value.generators[0].iter.args[0])
                hi, want = bounds.substitute(hi, k, lf), bounds.substitute(want, k, lf)
    # unfold self.<attr> atoms through __init__ (each branch of a conditional expression separately)
    atoms = sorted(k for k in set(hi) | set(want) if k.startswith('self.') and k.count('.') == 1)
    branches = [('', hi, want)]
    for a in atoms:
        unf = bounds.unfold_attr(init, a)
        if unf is None:
            continue
        nb = []
        for cond, h, w in branches:
            for c2, e in unf:
                lf = linform(e)
                nb.append(((cond + ' and ' if cond and c2 else cond) + c2, bounds.substitute(h, a, lf),
                           bounds.substitute(w, a, lf)))
        branches = nb
    bad = []
    for cond, h, w in branches:
        dd = lin_sub(h, w)
        if dd:
            nonconst = [k for k in dd if k]
            if any(not _is_param_or_attr(k) for k in nonconst):
                raise AnalysisError('bounds: difference %s is not a linear form over parameters' % lin_str(dd))
            bad.append('when %s: guard upper bound - (extent-1) = %s' % (cond or 'always', lin_str(dd)))
    rep.ob(rule, mod, g, text, not bad,
           '' if not bad else 'guard and extent disagree (' + '; '.join(bad) + '): either a declared species is rejected '
                              'or an undeclared one is accepted', engine='bounds')


def _is_param_or_attr(k):
    return all(ch.isalnum() or ch in '._' for ch in k)


# ---------------------------------------------------------------- owner
def _owner(model, rep, mod, ci, tier):
    nwriters = 0
    # (1) inside class Supercell
    for name, fn in ci.methods.items():
        ws = [w for w in owner.attr_writes(fn, FIELDS) if w[1] in ('self', 'supercopy') or w[3] == 'setattr']
        if name in OWNERS:
            if ws:
                nwriters += 1
                rep.ob('sole-writers', mod, fn, 'Supercell.%s writes %s (owner: %s)'
                       % (name, ', '.join(sorted({w[2] for w in ws})), OWNERS[name]), True, engine='owner')
            continue
        for node, recv, attr, kind in owner.attr_writes(fn, FIELDS):
            rep.ob('sole-writers', mod, node, '%s %s.%s in Supercell.%s: %s' % (kind, recv, attr, name, unparse(node)[:120]),
                   False, 'occupancy state written outside the owner routines: occ and chemorder can diverge',
                   engine='owner')
    rep.floor('owner routines that write occ/chemorder', nwriters, 5)
    # (2) everywhere else in the package and the scripts
    scanned = 0
    mods = list(model.modules.values()) + list(model.scripts.values())
    for m in mods:
        for q, fn in m.functions.items():
            cls = q.split('.')[0]
            if m is mod and cls == 'Supercell':
                continue
            scanned += 1
            own_occ = (m.name, cls) in OTHER_OCC_CLASSES
            for node, recv, attr, kind in owner.attr_writes(fn, FIELDS):
                if own_occ and recv == 'self':
                    continue  # the sampler's own occupation vector
                if attr == '*':
                    continue  # generic setattr loops of other classes (HDF5 loaders)
                rep.ob('sole-writers', m, node, '%s %s.%s in %s: %s' % (kind, recv, attr, q, unparse(node)[:120]), False,
                       'a Supercell\'s occupancy state is written directly instead of through setocc', engine='owner')
        # module-level statements of scripts
    rep.count('functions scanned for foreign writers', scanned)
    # callers place defects through __setitem__/setocc: every subscript store on a Supercell-typed local
    # is fine (it is __setitem__); nothing to do.
    # synthetic positive example: the rule must fire on a known-bad fragment on every run
    probe = ast.parse('def f(sup, i, c):\n    sup.occ[i] = c\n    co = sup.chemorder[c]\n    co.append(i)\n').body[0]
    hits = list(owner.attr_writes(probe, FIELDS))
    if len(hits) != 2:
        raise AnalysisError('owner engine self-check failed: synthetic foreign writer not detected')
    # __setitem__ and the fill/read routines must reach setocc
    for name in ('__setitem__', 'fillperiodic', 'POSCAR_occ'):
        fn = ci.methods.get(name)
        if fn is None:
            raise AnalysisError('anchor vanished: Supercell.%s' % name)
        calls = [n for n in walk_local(fn) if isinstance(n, ast.Call) and unparse(n.func) == 'self.setocc']
        rep.ob('sole-writers', mod, fn, 'Supercell.%s places through self.setocc (%d call site(s))' % (name, len(calls)),
               len(calls) > 0, '' if calls else 'no call of setocc: the routine cannot update occ and chemorder consistently',
               engine='owner')


# ---------------------------------------------------------------- pairing
def _pairing(model, rep, mod, ci):
    setocc = ci.methods['setocc']
    ind, c = setocc.args.args[1].arg, setocc.args.args[2].arg
    stores = [n for n in walk_local(setocc) if isinstance(n, ast.Assign) and isinstance(n.targets[0], ast.Subscript)
              and unparse(n.targets[0].value) == 'self.occ']
    if not stores:
        raise AnalysisError('Supercell.setocc: occupancy store not found')
    for st in stores:
        blk = getattr(st, '_parent', None)
        body = blk.body if st in getattr(blk, 'body', []) else getattr(blk, 'orelse', [])
        # value stored is the requested species at the requested index
        okv = unparse(st.targets[0].slice) == ind and unparse(st.value) == c
        rep.ob('paired-update', mod, st, unparse(st), okv, '' if okv else 'stores something else than occ[%s] = %s' % (ind, c),
               engine='owner')
        # old species name: the variable read from self.occ[ind] before
        old = None
        for n in walk_local(setocc):
            if isinstance(n, ast.Assign) and isinstance(n.value, ast.Subscript) and unparse(n.value) == 'self.occ[%s]' % ind \
                    and isinstance(n.targets[0], ast.Name):
                old = n.targets[0].id
        if old is None:
            raise AnalysisError('Supercell.setocc: read of the previous occupancy not found')
        rem = app = None
        for s in body:
            if isinstance(s, ast.If):
                t = unparse(s.test)
                muts = [w for w in owner.attr_writes(s, {'chemorder'})]
                for node, recv, attr, kind in muts:
                    call = node if isinstance(node, ast.Call) else None
                    if call is None:
                        continue
                    meth = call.func.attr
                    if meth in ('pop', 'remove') and t in ('%s >= 0' % old, '%s > -1' % old, '%s != -1' % old):
                        # the list mutated must be chemorder[old]
                        src = _alias_source(s, call)
                        if src == 'self.chemorder[%s]' % old and _removes(call, ind):
                            rem = call
                    if meth == 'append' and t in ('%s >= 0' % c, '%s > -1' % c, '%s != -1' % c):
                        if _alias_source(s, call) == 'self.chemorder[%s]' % c and len(call.args) == 1 \
                                and unparse(call.args[0]) == ind:
                            app = call
        rep.ob('paired-update', mod, st, 'remove %s from chemorder[%s] when %s >= 0' % (ind, old, old), rem is not None,
               '' if rem is not None else 'the site is not removed from its previous species list (or not under the '
                                          'non-vacant guard): chemorder lists a site twice', engine='owner')
        rep.ob('paired-update', mod, st, 'append %s to chemorder[%s] when %s >= 0' % (ind, c, c), app is not None,
               '' if app is not None else 'the site is not appended to the new species list (or not under the non-vacant '
                                          'guard)', engine='owner')
        # the whole update is skipped only when nothing changes
        from ._common import conditions_at
        par = blk
        conds = conditions_at(setocc, st)
        okg = bool(conds & {'%s != %s' % (old, c), '%s != %s' % (c, old)})
        rep.ob('paired-update', mod, par if isinstance(par, ast.If) else st, 'update guarded by %s != %s (conditions holding at the store: %s)'
               % (old, c, sorted(conds)), okg,
               '' if okg else 'update not guarded by "occupancy actually changes": a repeated placement would duplicate '
                              'the site in chemorder', engine='owner')
    # __imul__
    im = ci.methods['__imul__']
    loops = [n for n in walk_local(im) if isinstance(n, ast.For) and isinstance(n.iter, ast.Call)
             and dotted(n.iter.func) == 'enumerate']
    ok = False
    txt = ''
    for lp in loops:
        mname = unparse(lp.iter.args[0])
        i_, g_ = [unparse(e) for e in lp.target.elts] if isinstance(lp.target, ast.Tuple) else (None, None)
        for s in lp.body:
            if isinstance(s, ast.Assign) and isinstance(s.targets[0], ast.Subscript) and isinstance(s.value, ast.Subscript):
                if unparse(s.targets[0].slice) == g_ and unparse(s.value) == 'self.occ[%s]' % i_:
                    newocc = unparse(s.targets[0].value)
                    # occ rebinding and chemorder comprehension with the same map
                    reb = [n for n in walk_local(im) if isinstance(n, ast.Assign) and unparse(n.targets[0]) == 'self.occ'
                           and unparse(n.value) == newocc]
                    co = [n for n in walk_local(im) if isinstance(n, ast.Assign) and unparse(n.targets[0]) == 'self.chemorder']
                    if reb and len(co) == 1 and isinstance(co[0].value, ast.ListComp) \
                            and isinstance(co[0].value.elt, ast.ListComp):
                        inner = co[0].value.elt
                        iv = unparse(inner.generators[0].target)
                        txt = unparse(co[0])
                        ok = unparse(inner.elt) == '%s[%s]' % (mname, iv) and \
                            unparse(co[0].value.generators[0].iter) == 'self.chemorder'
    rep.ob('paired-update', mod, im, 'Supercell.__imul__: occ and chemorder permuted by the same map, same direction: %s' % txt,
           ok, '' if ok else 'occupancy and ordering are not transformed by the same site map in the same direction',
           engine='owner')
    # reorder restores on failure
    ro = ci.methods['reorder']
    ok = False
    for n in walk_local(ro):
        if isinstance(n, ast.If) and 'self.__sane__()' in unparse(n.test) and isinstance(n.test, ast.UnaryOp):
            restores = any(isinstance(s, ast.Assign) and unparse(s.targets[0]) == 'self.chemorder' for s in n.body)
            raises = any(isinstance(s, ast.Raise) for s in n.body)
            idx = [i for i, s in enumerate(n.body) if isinstance(s, ast.Raise)]
            ridx = [i for i, s in enumerate(n.body) if isinstance(s, ast.Assign) and unparse(s.targets[0]) == 'self.chemorder']
            ok = restores and raises and ridx[0] < idx[0]
    rep.ob('paired-update', mod, ro, 'Supercell.reorder: on an invalid mapping chemorder is restored before raising', ok,
           '' if ok else 'a rejected mapping leaves the object in the permuted (inconsistent) state', engine='owner')


def _alias_source(scope, call):
    """text of the expression whose list is mutated by call (resolving one local alias inside scope)."""
    tgt = call.func.value
    if isinstance(tgt, ast.Name):
        for n in ast.walk(scope):
            if isinstance(n, ast.Assign) and isinstance(n.targets[0], ast.Name) and n.targets[0].id == tgt.id:
                return unparse(n.value)
        return tgt.id
    return unparse(tgt)


def _removes(call, ind):
    """call removes the element equal to ind:  L.remove(ind)  or  L.pop(L.index(ind))."""
    if call.func.attr == 'remove':
        return len(call.args) == 1 and unparse(call.args[0]) == ind
    if call.func.attr == 'pop' and len(call.args) == 1:
        a = call.args[0]
        return isinstance(a, ast.Call) and isinstance(a.func, ast.Attribute) and a.func.attr == 'index' \
            and unparse(a.func.value) == unparse(call.func.value) and len(a.args) == 1 and unparse(a.args[0]) == ind
    return False


# ---------------------------------------------------------------- copy parity
def _copy(model, rep, mod, ci):
    def tup(name):
        v = ci.class_assigns.get(name)
        if not isinstance(v, (ast.Tuple, ast.List)):
            raise AnalysisError('Supercell.%s is not a literal tuple' % name)
        return [e.value for e in v.elts if isinstance(e, ast.Constant)]

    copyattr, eqattr = tup('__copyattr__'), tup('__eqattr__')
    init = ci.methods['__init__']
    # attributes assigned after the `if empty: return`
    cut = None
    for st in init.body:
        if isinstance(st, ast.If) and unparse(st.test) == 'empty' and any(isinstance(s, ast.Return) for s in st.body):
            cut = st.lineno
    if cut is None:
        raise AnalysisError('Supercell.__init__: `if empty: return` not found')
    derived, primary = {}, {}
    for a, n in owner.self_attr_assigned(init).items():
        (derived if n.lineno > cut else primary)[a] = n
    both = set(copyattr) & set(eqattr)
    rep.ob('copy-parity', mod, ci.node, '__copyattr__ and __eqattr__ disjoint', not both,
           '' if not both else 'listed twice: %s' % sorted(both), engine='parity')
    for a in sorted(derived):
        ok = a in copyattr or a in eqattr
        rep.ob('copy-parity', mod, derived[a], 'derived attribute %s carried over by copy()' % a, ok,
               '' if ok else 'attribute %s is set by __init__ after the `empty` return but copied by neither table: '
                             'copies lack it' % a, engine='parity')
    for a in sorted(set(copyattr) | set(eqattr)):
        ok = a in derived
        rep.ob('copy-parity', mod, ci.node, 'table entry %s is a derived attribute' % a, ok,
               '' if ok else 'copy() reads attribute %s which __init__ never sets: AttributeError' % a, engine='parity')
    # copy() must iterate both tables: deepcopy for __copyattr__, plain for __eqattr__
    cp = ci.methods['copy']
    loops = {unparse(n.iter): n for n in walk_local(cp) if isinstance(n, ast.For)}
    okc = 'self.__copyattr__' in loops and 'deepcopy' in unparse(loops['self.__copyattr__'])
    oke = 'self.__eqattr__' in loops
    rep.ob('copy-parity', mod, cp, 'copy() deep-copies every __copyattr__ entry', okc,
           '' if okc else 'copy() does not deep-copy the __copyattr__ attributes', engine='parity')
    rep.ob('copy-parity', mod, cp, 'copy() carries every __eqattr__ entry', oke, '' if oke else 'copy() skips __eqattr__',
           engine='parity')
    # the constructor call in copy() reproduces the primary parameters (Nsolute from Nchem - crys.Nchem)
    ctor = [n for n in walk_local(cp) if isinstance(n, ast.Call) and unparse(n.func) in ('self.__class__', 'Supercell', 'type(self)')]
    if ctor:
        args = [unparse(a) for a in ctor[0].args]
        lf = linform(ctor[0].args[3]) if len(ctor[0].args) > 3 else None
        okn = lf == {'self.Nchem': 1, 'self.crys.Nchem': -1}
        rep.ob('copy-parity', mod, ctor[0], 'copy() re-creates with Nsolute = %s' % (args[3] if len(args) > 3 else '?'), okn,
               '' if okn else 'the copy is created with a different number of solute species', engine='parity')
    # in-place mutated attributes anywhere in the class must be deep-copied
    mutated = {}
    for name, fn in ci.methods.items():
        for node, recv, attr, kind in owner.attr_writes(fn, set(copyattr) | set(eqattr)):
            if recv == 'self' and kind in ('store', 'mutate', 'alias-store', 'alias-mutate', 'alias-augassign'):
                mutated.setdefault(attr, (name, node))
    for a, (name, node) in sorted(mutated.items()):
        ok = a in copyattr
        rep.ob('copy-parity', mod, node, '%s is mutated in place (in %s) and deep-copied by copy()' % (a, name), ok,
               '' if ok else 'attribute %s is shared between a supercell and its copies but edited in place: editing '
                             'one changes the other' % a, engine='parity')
    rep.floor('derived attributes', len(derived), 15)
    rep.floor('in-place mutated attributes', len(mutated), 3)


# ---------------------------------------------------------------- POSCAR_occ
def _poscar(model, rep, mod, ci):
    fn = ci.methods['POSCAR_occ']
    empt = None
    for n in walk_local(fn):
        if isinstance(n, ast.If) and unparse(n.test) == 'EMPTY_SUPER':
            empt = n
    if empt is None:
        if 'EMPTY_SUPER' in [a.arg for a in fn.args.args]:
            rep.ob('empty-before-read', mod, fn, 'POSCAR_occ has an `if EMPTY_SUPER:` emptying pass', False,
                   'the EMPTY_SUPER option no longer empties the cell: entries are read on top of the previous occupation', engine='flow')
            return
        raise AnalysisError('Supercell.POSCAR_occ: EMPTY_SUPER block not found')
    # the emptying loop: for n in range(self.N * self.size): self.setocc(n, -1)
    full = False
    for lp in ast.walk(empt):
        if isinstance(lp, ast.For) and isinstance(lp.iter, ast.Call) and dotted(lp.iter.func) == 'range':
            if linform(lp.iter.args[0]) == linform(ast.parse('self.N * self.size', mode='eval').body) and len(lp.iter.args) == 1:
                for s in lp.body:
                    if isinstance(s, ast.Expr) and isinstance(s.value, ast.Call) and unparse(s.value.func) == 'self.setocc' \
                            and unparse(s.value.args[0]) == unparse(lp.target) and const_value(s.value.args[1]) == -1:
                        full = True
    rep.ob('empty-before-read', mod, empt, 'EMPTY_SUPER: setocc(n, -1) for every n in range(self.N*self.size)', full,
           '' if full else 'the emptying pass does not vacate every site unconditionally: sites that keep their species '
                           'keep their old slot in chemorder, so the ordering read back differs', engine='flow')
    reads = [n for n in walk_local(fn) if isinstance(n, ast.Call) and unparse(n.func) == 'self.setocc'
             and not any(n is x for x in ast.walk(empt))]
    if not reads:
        raise AnalysisError('Supercell.POSCAR_occ: placement call not found')
    first = min(r.lineno for r in reads)
    top = empt
    while getattr(top, '_parent', None) is not fn:
        top = top._parent
    ok = top.end_lineno < first and top in fn.body
    rep.ob('empty-before-read', mod, empt, 'emptying block (line %d) precedes the first placement (line %d)' % (empt.lineno, first),
           ok, '' if ok else 'entries are placed before the cell is emptied', engine='flow')


SC = 'onsager/supercell.py'
BREAKERS = [
    (SC, "        if c < -1 or c >= self.Nchem:", "        if c < -2 or c > self.crys.Nchem:", 'guard-upper-is-extent'),
    (SC, "        if c < -1 or c >= self.Nchem:", "        if c < -1 or c > self.Nchem:", 'guard-upper-is-extent'),
    (SC, "        if c < -1 or c >= self.Nchem:", "        if c < -2 or c >= self.Nchem:", 'guard-lower-is-sentinel'),
    (SC, "        for i in [n * self.N + i for n in range(self.size) for i in indlist]:\n            self.setocc(i, ci[0])",
     "        for i in [n * self.N + i for n in range(self.size) for i in indlist]:\n            self.occ[i] = ci[0]", 'sole-writers'),
    (SC, "    __copyattr__ = ('lattice', 'N', 'chemistry', 'size', 'invsuper',\n                    'Wyckofflist', 'Wyckoffchem', 'occ', 'chemorder')\n    __eqattr__ = ('atomindices', 'indexatom', 'translist', 'transdict', 'pos', 'G')",
     "    __copyattr__ = ('lattice', 'N', 'chemistry', 'size', 'invsuper',\n                    'Wyckofflist', 'Wyckoffchem', 'chemorder')\n    __eqattr__ = ('atomindices', 'indexatom', 'translist', 'transdict', 'pos', 'G', 'occ')", 'copy-parity'),
    (SC, "            if corig >= 0:\n                # remove from chemorder list (if not vacancy)\n                co = self.chemorder[corig]\n                co.pop(co.index(ind))\n", "", 'paired-update'),
    (SC, "        self.chemorder = [[indexmap[ind] for ind in clist] for clist in self.chemorder]\n        return self", "        return self", 'paired-update'),
    (SC, "        if not self.__sane__():\n            self.chemorder = oldorder\n            raise", "        if not self.__sane__():\n            raise", 'paired-update'),
    (SC, "        if EMPTY_SUPER:\n            for n in range(self.N * self.size):\n                self.setocc(n, -1)\n", "", None),
]
NEUTRALS = [
    (SC, "        if c < -1 or c >= self.Nchem:", "        if c >= self.Nchem or c < -1:"),
    (SC, "        if c < -1 or c >= self.Nchem:", "        if not (-1 <= c < self.Nchem):"),
    (SC, "                co.pop(co.index(ind))", "                co.remove(ind)"),
]
