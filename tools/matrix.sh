#!/bin/bash
# usage: tools/matrix.sh   -- every claimed check (in its registered tree form) on the clean tree, every neutral refactor
# (/tmp/nw, must be silent) and every seeded change (/tmp/sw, prints which checks fire).  Build the trees with tools/mkscratch.sh.
cd /verif
export SA_NOWRITE=1
run() { ONSAGER_REPO=$1 /venv/bin/python -m sa.cli all --tier quick 2>&1; }
for t in /repo /tmp/nw/N*; do
  ( out=$(run $t | grep -A1 "^VIOLATION\|^ANALYSIS-ERROR" | grep -v "^VIOLATION\|^--" | cut -c1-200); echo "NEUTRAL $(basename $t): $( [ -z "$out" ] && echo quiet || echo "NOISY"; echo "$out")" ) &
done
wait
for t in /tmp/sw/C*; do
  ( out=$(run $t); hits=$(echo "$out" | grep "^VIOLATION" | sed 's/.*property=\(C[0-9]*\).*/\1/' | sort -u | tr '\n' ' '); err=$(echo "$out" | grep -c "^ANALYSIS-ERROR"); echo "SEED $(basename $t): ${hits:-MISSED} $( [ "$err" != 0 ] && echo "(analysis errors: $err)")" ) &
  while [ $(jobs -r | wc -l) -ge 16 ]; do sleep 0.2; done
done
wait
