"""
E5 ``dimgen`` -- abstract interpretation with the lattice {any, 2, 3} for the spatial dimension.

The context is refined by the repository's own dimension tests (``self.dim == 3``, ``crys.dim == 3``,
``X.shape[0] == 2``, ``len(eigenvect) == 2``, ``self.rot.shape == (3, 3)`` ..., conditional expressions, and the
early-return form ``if <2D test>: ... return``).  In context *any*, a hard-coded spatial dimension is reported.
"""
import ast

from ..model import dotted, unparse, walk_local

CTORS = {'eye', 'identity', 'zeros', 'ones', 'empty', 'full'}


def dim_test(test):
    """(dim, True) when `test` holds exactly in dimension dim; (dim, False) when it holds exactly outside it."""
    if isinstance(test, ast.UnaryOp) and isinstance(test.op, ast.Not):
        r = dim_test(test.operand)
        return (r[0], not r[1]) if r else None
    if isinstance(test, ast.Compare) and len(test.ops) == 1 and isinstance(test.ops[0], (ast.Eq, ast.NotEq)):
        l, r = test.left, test.comparators[0]
        for a, b in ((l, r), (r, l)):
            val = None
            if isinstance(b, ast.Constant) and b.value in (2, 3):
                val = b.value
            elif isinstance(b, ast.Tuple) and b.elts and all(isinstance(e, ast.Constant) and e.value in (2, 3) for e in b.elts) \
                    and len({e.value for e in b.elts}) == 1:
                val = b.elts[0].value
            if val is None:
                continue
            t = unparse(a)
            is_dim = t.endswith('.dim') or t == 'dim' or t.endswith('.shape[0]') or t.endswith('.shape') \
                or (isinstance(a, ast.Call) and dotted(a.func) == 'len') or t.endswith('.shape[1]')
            if is_dim:
                return (val, isinstance(test.ops[0], ast.Eq))
    return None


def _terminates(stmts):
    """every path through the statement list ends in return/raise/continue/break."""
    if not stmts:
        return False
    last = stmts[-1]
    if isinstance(last, (ast.Return, ast.Raise, ast.Continue, ast.Break)):
        return True
    if isinstance(last, ast.If) and last.orelse:
        return _terminates(last.body) and _terminates(last.orelse)
    return False


def _const3(node):
    return isinstance(node, ast.Constant) and node.value == 3 and not isinstance(node.value, bool)


def hardcoded(node):
    """describe a hard-coded 3-dimensional construct rooted at ``node`` (an expression), or None."""
    if isinstance(node, ast.Call):
        d = dotted(node.func) or ''
        last = d.split('.')[-1]
        if last in CTORS and node.args:
            a = node.args[0]
            if _const3(a):
                return '%s(3)' % d
            if isinstance(a, ast.Tuple) and any(_const3(e) for e in a.elts):
                return '%s(%s)' % (d, unparse(a))
        if d == 'range' and len(node.args) == 1 and _const3(node.args[0]):
            return 'range(3)'
    if isinstance(node, ast.Compare) and len(node.ops) == 1:
        r = node.comparators[0]
        if isinstance(r, ast.Tuple) and r.elts and all(_const3(e) for e in r.elts) and unparse(node.left).endswith('.shape'):
            return None  # a dimension *test* -- handled by dim_test
    if isinstance(node, ast.Name) and node.id in ('T3D', 'Taylor3D'):
        return 'bare %s' % node.id
    if isinstance(node, ast.Attribute) and node.attr == 'Taylor3D':
        return 'bare %s' % unparse(node)
    return None


def scan(fn, on_hit, initial=None):
    """walk fn with dimension contexts; on_hit(node, description, ctx) is called for every hard-coded construct
    with its context (None = any)."""

    def expr(e, ctx):
        if e is None:
            return
        if isinstance(e, ast.IfExp):
            r = dim_test(e.test)
            if r:
                d, pol = r
                other = 5 - d
                expr(e.body, d if pol else other)
                expr(e.orelse, other if pol else d)
                return
        h = hardcoded(e)
        if h:
            on_hit(e, h, ctx)
        if isinstance(e, (ast.Lambda,)):
            expr(e.body, ctx)
            return
        for c in ast.iter_child_nodes(e):
            if isinstance(c, ast.expr):
                expr(c, ctx)
            elif isinstance(c, ast.comprehension):
                expr(c.iter, ctx)
                for i in c.ifs:
                    expr(i, ctx)
            elif isinstance(c, ast.keyword):
                expr(c.value, ctx)
            elif isinstance(c, ast.arguments):
                pass  # default values are exempt (documented 3D defaults)

    def block(stmts, ctx):
        for i, st in enumerate(stmts):
            if isinstance(st, (ast.FunctionDef, ast.AsyncFunctionDef)):
                block(st.body, ctx)
                continue
            if isinstance(st, ast.ClassDef):
                continue
            if isinstance(st, ast.If):
                r = dim_test(st.test)
                if r and ctx is None:
                    d, pol = r
                    other = 5 - d
                    bctx, octx = (d, other) if pol else (other, d)
                    block(st.body, bctx)
                    block(st.orelse, octx)
                    if _terminates(st.body) and not st.orelse:
                        block(stmts[i + 1:], octx)
                        return
                    if st.orelse and _terminates(st.orelse) and not _terminates(st.body):
                        block(stmts[i + 1:], bctx)
                        return
                    continue
                expr(st.test, ctx)
                block(st.body, ctx)
                block(st.orelse, ctx)
                continue
            if isinstance(st, (ast.For, ast.AsyncFor)):
                expr(st.iter, ctx)
                block(st.body, ctx)
                block(st.orelse, ctx)
                continue
            if isinstance(st, ast.While):
                expr(st.test, ctx)
                block(st.body, ctx)
                block(st.orelse, ctx)
                continue
            if isinstance(st, ast.With):
                for it in st.items:
                    expr(it.context_expr, ctx)
                block(st.body, ctx)
                continue
            if isinstance(st, ast.Try):
                block(st.body, ctx)
                for h in st.handlers:
                    block(h.body, ctx)
                block(st.orelse, ctx)
                block(st.finalbody, ctx)
                continue
            if isinstance(st, ast.Expr) and isinstance(st.value, ast.Constant):
                continue  # docstring
            for c in ast.iter_child_nodes(st):
                if isinstance(c, ast.expr):
                    expr(c, ctx)

    block(fn.body, initial)
